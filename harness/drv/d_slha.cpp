// SLHA reader driver: fills fresh objects from input text through GM2_slha_io (the code path
// of gm2calc.x) and records the documented parameters.  No comparison is made here.
//
// usage: d_slha <jobfile> <tracefile>     jobfile lines:  <id> <format> <path>
//   format in slha | gm2calc | thdm | config
//   format writer: <path> is followed by operations  form,name,entry,value,comment  separated by blanks
//   (form value: fill_block_entry(name, entry, double, comment); form text: fill_block_entry(name, entry, value));
//   the document is printed after reading and after every operation (events "Doc" with step 0, 1, ...)
#include "models.hpp"
#include "gm2_slha_io.hpp"
#include "gm2_config_options.hpp"

#include <fstream>
#include <iostream>
#include <sstream>

using namespace gm2calc;
using vm::NV;

namespace {

NV mssm_params(const MSSMNoFV_onshell& m)
{
   NV v;
   v.push_back({"scale", m.get_scale()}); v.push_back({"EL", m.get_EL()}); v.push_back({"EL0", m.get_EL0()});
   v.push_back({"g3", m.get_g3()});
   v.push_back({"TB", std::fabs(m.get_vd()) > 0 ? m.get_vu() / m.get_vd() : std::nan("")});
   v.push_back({"Mu", m.get_Mu()}); v.push_back({"MassB", m.get_MassB()}); v.push_back({"MassWB", m.get_MassWB()});
   v.push_back({"MassG", m.get_MassG()}); v.push_back({"BMu", m.get_BMu()});
   v.push_back({"mHd2", m.get_mHd2()}); v.push_back({"mHu2", m.get_mHu2()});
   vm::push_mat(v, "ml2", m.get_ml2()); vm::push_mat(v, "me2", m.get_me2()); vm::push_mat(v, "mq2", m.get_mq2());
   vm::push_mat(v, "mu2", m.get_mu2()); vm::push_mat(v, "md2", m.get_md2());
   vm::push_mat(v, "Ae", m.get_Ae()); vm::push_mat(v, "Au", m.get_Au()); vm::push_mat(v, "Ad", m.get_Ad());
   const auto& p = m.get_physical();
   v.push_back({"MVZ", p.MVZ}); v.push_back({"MVWm", p.MVWm}); v.push_back({"MFb", p.MFb}); v.push_back({"MFt", p.MFt});
   v.push_back({"MFtau", p.MFtau}); v.push_back({"MFvt", p.MFvt}); v.push_back({"MFe", p.MFe});
   v.push_back({"MFve", p.MFve}); v.push_back({"MFm", p.MFm}); v.push_back({"MFvm", p.MFvm});
   v.push_back({"MFd", p.MFd}); v.push_back({"MFs", p.MFs}); v.push_back({"MFu", p.MFu}); v.push_back({"MFc", p.MFc});
   v.push_back({"MSveL", p.MSveL}); v.push_back({"MSvmL", p.MSvmL}); v.push_back({"MSvtL", p.MSvtL});
   vm::push_mat(v, "MSd", p.MSd); vm::push_mat(v, "MSu", p.MSu); vm::push_mat(v, "MSe", p.MSe);
   vm::push_mat(v, "MSm", p.MSm); vm::push_mat(v, "MStau", p.MStau); vm::push_mat(v, "MSs", p.MSs);
   vm::push_mat(v, "MSc", p.MSc); vm::push_mat(v, "MSb", p.MSb); vm::push_mat(v, "MSt", p.MSt);
   vm::push_mat(v, "Mhh", p.Mhh); vm::push_mat(v, "MAh", p.MAh); vm::push_mat(v, "MHpm", p.MHpm);
   v.push_back({"MGlu", p.MGlu});
   vm::push_mat(v, "MChi", p.MChi); vm::push_mat(v, "MCha", p.MCha);
   vm::push_cmat(v, "ZN", p.ZN); vm::push_mat(v, "ZM", p.ZM);
   return v;
}

template <class B>
void push_basis_common(NV& v, const std::string& pre, const B& b)
{
   v.push_back({pre + "tan_beta", b.tan_beta}); v.push_back({pre + "m122", b.m122});
   v.push_back({pre + "zeta_u", b.zeta_u}); v.push_back({pre + "zeta_d", b.zeta_d}); v.push_back({pre + "zeta_l", b.zeta_l});
   v.push_back({pre + "yukawa_type", double(static_cast<int>(b.yukawa_type))});
   vm::push_mat(v, pre + "Delta_u", b.Delta_u); vm::push_mat(v, pre + "Delta_d", b.Delta_d); vm::push_mat(v, pre + "Delta_l", b.Delta_l);
   vm::push_mat(v, pre + "Pi_u", b.Pi_u); vm::push_mat(v, pre + "Pi_d", b.Pi_d); vm::push_mat(v, pre + "Pi_l", b.Pi_l);
}

NV thdm_params(const SM& sm, const thdm::Mass_basis& mb, const thdm::Gauge_basis& gb)
{
   NV v;
   v.push_back({"sm_alpha_em_mz", sm.get_alpha_em_mz()}); v.push_back({"sm_alpha_em_0", sm.get_alpha_em_0()});
   v.push_back({"sm_alpha_s_mz", sm.get_alpha_s_mz()});
   v.push_back({"sm_mz", sm.get_mz()}); v.push_back({"sm_mw", sm.get_mw()}); v.push_back({"sm_mh", sm.get_mh()});
   vm::push_mat(v, "sm_md", sm.get_md()); vm::push_mat(v, "sm_mu", sm.get_mu());
   vm::push_mat(v, "sm_ml", sm.get_ml()); vm::push_mat(v, "sm_mv", sm.get_mv());
   vm::push_cmat(v, "sm_ckm", sm.get_ckm());
   v.push_back({"mb_mh", mb.mh}); v.push_back({"mb_mH", mb.mH}); v.push_back({"mb_mA", mb.mA}); v.push_back({"mb_mHp", mb.mHp});
   v.push_back({"mb_sba", mb.sin_beta_minus_alpha}); v.push_back({"mb_lambda_6", mb.lambda_6});
   v.push_back({"mb_lambda_7", mb.lambda_7});
   push_basis_common(v, "mb_", mb);
   for (int i = 0; i < 7; ++i) v.push_back({"gb_lambda" + std::to_string(i + 1), gb.lambda(i)});
   push_basis_common(v, "gb_", gb);
   return v;
}

} // namespace

int main(int argc, char** argv)
{
   if (argc < 3) { std::fprintf(stderr, "usage: d_slha <jobfile> <tracefile>\n"); return 2; }
   std::ifstream jobs(argv[1]);
   vt::open_trace(argv[2]);
   vt::install_terminate();
   std::string line;
   while (std::getline(jobs, line)) {
      std::istringstream is(line);
      std::string id, fmt, path;
      if (!(is >> id >> fmt >> path)) continue;
      if (fmt == "writer") {
         GM2_slha_io io;
         std::string exc = vm::exc_class([&] { io.read_from_file(path); });
         int step = 0;
         auto dump = [&] {
            std::ostringstream os;
            io.write_to_stream(os);
            vt::Ev d("Doc");
            d.str("id", id).i("step", step).str("exc", exc).str("text", os.str());
            d.emit();
         };
         dump();
         std::string op;
         while (is >> op) {
            std::vector<std::string> f;
            std::istringstream os(op);
            std::string t;
            while (std::getline(os, t, ',')) f.push_back(t);
            if (f.size() < 4) continue;
            ++step;
            exc = vm::exc_class([&] {
               if (f[0] == "value") io.fill_block_entry(f[1], unsigned(std::stoul(f[2])), std::stod(f[3]), f.size() > 4 ? f[4] : "");
               else io.fill_block_entry(f[1], unsigned(std::stoul(f[2])), f[3]);
            });
            dump();
         }
         continue;
      }
      vt::Ev ev("Filled");
      ev.str("id", id).str("fmt", fmt);
      NV obs;
      std::string exc;
      if (fmt == "slha" || fmt == "gm2calc") {
         MSSMNoFV_onshell model;
         exc = vm::exc_class([&] {
            GM2_slha_io io;
            io.read_from_file(path);
            if (fmt == "slha") io.fill_slha(model); else io.fill_gm2calc(model);
         });
         obs = mssm_params(model);
      } else if (fmt == "thdm") {
         SM sm; thdm::Mass_basis mb; thdm::Gauge_basis gb;
         exc = vm::exc_class([&] {
            GM2_slha_io io;
            io.read_from_file(path);
            io.fill(sm); io.fill(mb); io.fill(gb);
         });
         obs = thdm_params(sm, mb, gb);
      } else if (fmt == "config") {
         Config_options o;
         exc = vm::exc_class([&] {
            GM2_slha_io io;
            io.read_from_file(path);
            io.fill(o);
         });
         obs = {{"output_format", double(o.output_format)}, {"loop_order", double(o.loop_order)},
                {"tanb_resummation", double(o.tanb_resummation)}, {"force_output", double(o.force_output)},
                {"verbose_output", double(o.verbose_output)}, {"calculate_uncertainty", double(o.calculate_uncertainty)},
                {"running_couplings", double(o.running_couplings)}};
      } else {
         exc = "bad-format";
      }
      ev.str("exc", exc).raw("obs", vm::named_json(obs));
      ev.emit();
   }
   vt::flush_trace();
   return 0;
}
