"""C03 - one-loop a_mu equals an independent evaluation of the published formulas."""
import json
import os
import random

import build
import cases
import core
import tlc
from props.c01 import add_atoms


def run(tier, seed):
    cx = core.Ctx("C03", tier, seed, "exploration")
    rnd = random.Random(seed)
    cs = cases.get("C03")
    ms = sorted([c for c in cs if c["model"] == "mssm"], key=lambda c: (c["signs"], c["tb"], c["spec"], c["conv"]))
    ts = sorted([c for c in cs if c["model"] == "thdm"], key=lambda c: (c["ytype"], c["basis"], c["offdiag"], c["tb"]))
    reps = 1 if tier == "quick" else 4
    if tier == "quick":
        ms = [c for i, c in enumerate(ms) if (i // 2 + i) % 2 == seed % 2]      # half of the combinations, tree and converted alternating
    cfm, cft = cx.path("cases_mssm.txt"), cx.path("cases_thdm.txt")
    n = 0
    with open(cfm, "w") as fm, open(cft, "w") as ft:
        for rep in range(reps):
            for c in ms:
                fm.write("m%d %s %s %s %d\n" % (n, c["signs"], c["tb"], c["spec"], c["conv"]))
                n += 1
            for c in ts:
                ft.write("t%d %d %s %d %s\n" % (n, c["ytype"], c["basis"], c["offdiag"], c["tb"]))
                n += 1
    raw = cx.path("raw.ndjson")
    r2 = cx.path("raw_thdm.ndjson")
    core.run_driver(build.driver_build("d_mssm"), ["c03", cfm, raw], timeout=3000)
    core.run_driver(build.driver_build("d_thdm"), ["c03", cft, r2], timeout=3000)
    with open(raw, "a") as out:
        out.write(open(r2).read())
    shards_raw = tlc.split_trace(raw, 16, group_key="case")
    import concurrent.futures as cf_

    def one(s):
        add_atoms(s, s + ".tr")
        return s + ".tr"
    with cf_.ThreadPoolExecutor(16) as ex:
        shards = list(ex.map(one, shards_raw))
    for rep in tlc.validate_traces("Trace_C03.tla", shards, jobs=16, heap="3g"):
        cx.add_report(rep)
        cx.cov["invariant_evaluations"] = cx.cov.get("invariant_evaluations", 0) + rep["extra"]["nchecked"]
    for sh in shards:
        if any('"model": "mssm"' in ln and '"exc": ""' in ln and '"problem": false' in ln for ln in open(sh)):
            cx.selftest_corruption("Trace_C03.tla", sh,
                                   lambda ev: ev["o"]["aChi0"] if ev.get("model") == "mssm" and ev["exc"] == "" and not ev.get("problem") else None, "Neutralino")
            break
    for ln in open(raw):
        ev = json.loads(ln)
        if ev["exc"] == "" and len(cx.cov["samples"]) < 3 and (ev["model"] == "thdm" or not ev.get("problem")):
            cx.sample({"class": ev["sig"], "a1L": core.dy(ev["o"]["a1L"]),
                       "masses": {k: core.dy(v) for k, v in ev["o"].items() if k.startswith(("MChi", "MCha", "MSm", "mh", "mH", "mA"))}})
    refused = problems = 0
    for ln in open(raw):
        ev = json.loads(ln)
        cx.evaluations += 1
        if ev["exc"] != "":
            refused += 1
        elif ev.get("problem"):
            problems += 1
        else:
            cx.distinct.add(ev["sig"])
    cx.cov["points_refused"] = refused
    cx.cov["points_with_reported_problem"] = problems
    cx.assumptions += ["the loop functions F1N, F2N, F1C, F2C are evaluated from their closed forms at 400 bits (mpmath) at the exact mass ratios of the point",
                       "the reported mixing matrices are taken from the public getters; that they diagonalise the Lagrangian mass matrices is "
                       "what Trace_C04 decides on the same kind of points (assume-guarantee composition)",
                       "1/sqrt(2) to 2^-60, pi to 330 bits"]
    return cx.finish(rule="one or more points per TLC-enumerated class (Cases.tla: C03Cases: MSSM sign pattern of mu, M1, M2 x tan(beta) x spectrum "
                          "x tree / converted Yukawa; THDM Yukawa type x basis of origin x lepton-flavour violation x tan(beta)); "
                          "distinct_nontrivial = classes with an accepted point")
