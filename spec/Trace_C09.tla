------------------------------ MODULE Trace_C09 ------------------------------
(***************************************************************************)
(* C09 - THDM Yukawa parametrisations are equivalent where they describe   *)
(* the same theory.  Events come in pairs (role "a", then role "b") for    *)
(* the same point:                                                         *)
(*   Equiv(kind = typed)    type I/II/X/Y  vs  aligned with the table's    *)
(*                          zeta_f: every result and every Yukawa getter   *)
(*   Equiv(kind = general)  aligned(zeta, Delta) vs general(Pi) with       *)
(*                          running couplings off: one-loop, fermionic     *)
(*                          two-loop and the Yukawa getters                *)
(*   Ignored                a parameter documented as ignored for the type *)
(*                          is perturbed: every result bit-identical       *)
(* Tolerance for equivalence: relative 1e-9 (observed <= 1e-11), with an   *)
(* absolute floor of 1e-12 |a_mu^1L + a_mu^2L| for the a_mu values.        *)
(***************************************************************************)
EXTENDS TraceBase, Dyadic, FiniteSets

VARIABLES l, first, viol, nchecked
vars == <<l, first, viol, nchecked>>

IsPrefix(p, s) == Len(s) >= Len(p) /\ SubSeq(s, 1, Len(p)) = p
IsAmu(n) == IsPrefix("amu", n) \/ IsPrefix("unc", n)

Close(n, a, b, scale) ==
   IF ~IsFin(a) \/ ~IsFin(b) THEN a.k = b.k /\ a.k # "nan"
   ELSE \/ RelClose(a, b, One, TenPow(9))
        \/ (IsAmu(n) /\ Le(Mul(TenPow(12), Abs(Sub(a, b))), scale))
        \/ (~IsAmu(n) /\ Le(Mul(TenPow(15), Abs(Sub(a, b))), One))      \* Yukawa elements that vanish identically

Compared(kind, names) == IF kind = "general" THEN {n \in names : n \in {"amu1L", "amu2LF"} \/ IsPrefix("y", n)} ELSE names

NameViol(S, line, sig, pre) ==
   LET RECURSIVE mk(_) mk(T) == IF T = {} THEN << >>
                                ELSE LET n == CHOOSE x \in T : TRUE
                                     IN <<[l |-> line, inv |-> pre \o n, sig |-> sig]>> \o mk(T \ {n})
   IN mk(S)

Init == l = 1 /\ first = [e |-> "none"] /\ viol = << >> /\ nchecked = 0

TPair ==
  /\ l <= NLines /\ TraceLog[l].e \in {"Equiv", "Ignored"}
  /\ LET ev == TraceLog[l] IN
       IF ev.role = "a" THEN /\ first' = ev /\ UNCHANGED <<viol, nchecked>>
       ELSE /\ first' = [e |-> "none"]
            /\ IF first.e = ev.e /\ first.case = ev.case
               THEN IF first.exc # "" \/ ev.exc # ""
                    THEN /\ viol' = viol \o Failed(<<I("BothConstructed", first.exc = "" /\ ev.exc = "")>>, l, ev.sig)
                         /\ nchecked' = nchecked + 1
                    ELSE LET kind == IF ev.e = "Ignored" THEN "ignored" ELSE IF Has(ev, "kind") THEN ev.kind ELSE "typed"
                             scale == Add(Abs(first.res["amu1L"]), Abs(first.res["amu2L"]))
                             bad == IF ev.e = "Ignored"
                                    THEN {n \in DOMAIN ev.res : first.res[n].b # ev.res[n].b}
                                    ELSE {n \in Compared(ev.kind, DOMAIN ev.res) : ~Close(n, first.res[n], ev.res[n], scale)}
                         IN /\ viol' = viol \o NameViol(bad, l, ev.sig, IF ev.e = "Ignored" THEN "IgnoredParameter:" ELSE "Equivalent:")
                            /\ nchecked' = nchecked + Cardinality(DOMAIN ev.res)
               ELSE UNCHANGED <<viol, nchecked>>
  /\ l' = l + 1

Next == TPair
Spec == Init /\ [][Next]_vars
Report == l = NLines + 1 => WriteReport(l, viol, [nchecked |-> nchecked])
=============================================================================
