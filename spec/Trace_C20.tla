------------------------------ MODULE Trace_C20 ------------------------------
(***************************************************************************)
(* C20 - SM layer: unitary CKM, consistent electroweak relations,          *)
(* well-behaved running masses.                                            *)
(*  Ckm(cls, exc, w0..w3, ckm)  Wolfenstein (cls = inside | edge | outside *)
(*        | nonfinite) or angle input and the resulting matrix             *)
(*  EW(...)                     electroweak getters of gm2calc::SM         *)
(*  Run(case, k, Q, mt, mb, mtau, warned)  running masses on a geometric   *)
(*        ladder of scales Q_k = Q_0 r^k                                   *)
(*  RunBoundary(...)            values at the boundary scales              *)
(*  ThdmRun(running, yuk)       THDM Yukawa getters, running on / off      *)
(***************************************************************************)
EXTENDS TraceBase, Dyadic

VARIABLES l, prev, prev2, yoff, viol, nchecked
vars == <<l, prev, prev2, yoff, viol, nchecked>>
None == [e |-> "none"]

Idx == {"0", "1", "2"}
Re(m, i, k) == m["V_re" \o i \o k]
Im(m, i, k) == m["V_im" \o i \o k]
\* (V V^dagger)_{ij}
URe(m, i, j) == SumSeq(<< Add(Mul(Re(m, i, "0"), Re(m, j, "0")), Mul(Im(m, i, "0"), Im(m, j, "0"))),
                         Add(Mul(Re(m, i, "1"), Re(m, j, "1")), Mul(Im(m, i, "1"), Im(m, j, "1"))),
                         Add(Mul(Re(m, i, "2"), Re(m, j, "2")), Mul(Im(m, i, "2"), Im(m, j, "2"))) >>)
UIm(m, i, j) == SumSeq(<< Sub(Mul(Im(m, i, "0"), Re(m, j, "0")), Mul(Re(m, i, "0"), Im(m, j, "0"))),
                         Sub(Mul(Im(m, i, "1"), Re(m, j, "1")), Mul(Re(m, i, "1"), Im(m, j, "1"))),
                         Sub(Mul(Im(m, i, "2"), Re(m, j, "2")), Mul(Re(m, i, "2"), Im(m, j, "2"))) >>)
AllFinM(m) == \A n \in DOMAIN m : IsFin(m[n])
Unitary(m) == \A i \in Idx, j \in Idx :
   /\ Le(Mul(TenPow(14), Abs(Sub(URe(m, i, j), IF i = j THEN One ELSE Zero))), One)
   /\ Le(Mul(TenPow(14), Abs(UIm(m, i, j))), One)

Close(a, b, n) == RelClose(a, b, One, TenPow(n))
\* 4 pi between two dyadic bounds (floor and ceiling of 4 pi 2^45)
FourPiLo == [k |-> "fin", s |-> 1, q |-> -3, m |-> <<17105, 27272, 18558, 12>>]
FourPiHi == [k |-> "fin", s |-> 1, q |-> -3, m |-> <<17106, 27272, 18558, 12>>]
IsFourPiTimes(x2, a) == /\ Le(Mul(Mul(FourPiLo, a), Sub(One, PowTwo(-48))), x2)       \* x^2 = 4 pi a up to rounding
                        /\ Le(x2, Mul(Mul(FourPiHi, a), Add(One, PowTwo(-48))))

CkmInvs(ev) ==
  << I("OutsideRejected", ev.cls \in {"outside", "nonfinite"} => ev.exc = "EInvalidInput"),
     I("InsideFinite", ev.exc = "" => AllFinM(ev.ckm)),
     I("Unitary", (ev.exc = "" /\ AllFinM(ev.ckm)) => Unitary(ev.ckm)),
     I("RejectionIsInvalidInput", ev.exc \in {"", "EInvalidInput"}) >>

EWInvs(ev) ==
  << I("cw=MW/MZ", Close(Mul(ev.cw, ev.mz), ev.mw, 15)),
     I("sw2+cw2=1", Le(Mul(TenPow(15), Abs(Sub(Add(Sq(ev.sw), Sq(ev.cw)), One))), One)),
     I("e=g2sw", Close(ev.e_mz, Mul(ev.g2, ev.sw), 15)),
     I("e=gYcw", Close(ev.e_mz, Mul(ev.gY, ev.cw), 15)),
     I("v=2MW/g2", Close(Mul(ev.v, ev.g2), Mul(Two, ev.mw), 15)),
     I("e2=4pi alpha", IsFourPiTimes(Sq(ev.e_mz), ev.alpha_mz) /\ IsFourPiTimes(Sq(ev.e_0), ev.alpha_0)),
     I("g3^2=4pi alpha_s", IsFourPiTimes(Sq(ev.g3), ev.alpha_s)) >>

Pos(x) == IsFin(x) /\ Sgn(x) > 0
RunSelf(ev) == << I("RunFinitePositive:mt", Pos(ev.mt)), I("RunFinitePositive:mb", Pos(ev.mb)),
                  I("RunFinitePositive:mtau", Pos(ev.mtau)) >>
RunPair(a, b) ==     \* Q_b > Q_a
  LET ok(n) == Pos(a[n]) /\ Pos(b[n]) IN
  << I("RunDecreasing:mt", ok("mt") => Lt(b.mt, a.mt)), I("RunDecreasing:mb", ok("mb") => Lt(b.mb, a.mb)),
     I("RunDecreasing:mtau", ok("mtau") => Lt(b.mtau, a.mtau)) >>
RunTriple(a, b, c) ==   \* geometric scales: m(Q_b)^2 = m(Q_a) m(Q_c)  (running Q_a -> Q_b -> Q_c composes)
  LET ok(n) == Pos(a[n]) /\ Pos(b[n]) /\ Pos(c[n]) IN
  << I("RunComposes:mt", ok("mt") => Close(Sq(b.mt), Mul(a.mt, c.mt), 12)),
     I("RunComposes:mb", ok("mb") => Close(Sq(b.mb), Mul(a.mb, c.mb), 12)),
     I("RunComposes:mtau", ok("mtau") => Close(Sq(b.mtau), Mul(a.mtau, c.mtau), 12)) >>

Init == l = 1 /\ prev = None /\ prev2 = None /\ yoff = None /\ viol = << >> /\ nchecked = 0

Step(invs, sig) == /\ viol' = viol \o Failed(invs, l, sig) /\ nchecked' = nchecked + Len(invs) /\ l' = l + 1

TCkm == /\ l <= NLines /\ TraceLog[l].e = "Ckm" /\ Step(CkmInvs(TraceLog[l]), TraceLog[l].sig) /\ UNCHANGED <<prev, prev2, yoff>>
TEW  == /\ l <= NLines /\ TraceLog[l].e = "EW" /\ Step(EWInvs(TraceLog[l]), TraceLog[l].sig) /\ UNCHANGED <<prev, prev2, yoff>>

TRun ==
  /\ l <= NLines /\ TraceLog[l].e = "Run"
  /\ LET ev == TraceLog[l]
         c1 == prev.e = "Run" /\ prev.case = ev.case /\ ev.k = prev.k + 1
         c2 == c1 /\ prev2.e = "Run" /\ prev2.case = ev.case /\ prev.k = prev2.k + 1
     IN Step(RunSelf(ev) \o (IF c1 THEN RunPair(prev, ev) ELSE << >>) \o (IF c2 THEN RunTriple(prev2, prev, ev) ELSE << >>), ev.sig)
  /\ prev' = TraceLog[l] /\ prev2' = prev /\ UNCHANGED yoff

TBoundary ==
  /\ l <= NLines /\ TraceLog[l].e = "RunBoundary"
  /\ LET ev == TraceLog[l] IN
       Step(<< I("TauBoundary", ev.mtau_at_mtau.b = ev.mtau_pole.b),
               I("TopBoundary", Pos(ev.mt_at_mt) /\ Le(ev.mt_at_mt, ev.mt_pole) /\ Le(Mul(OfInt(8), ev.mt_pole), Mul(OfInt(10), ev.mt_at_mt))) >>, ev.sig)
  /\ UNCHANGED <<prev, prev2, yoff>>

\* lepton Yukawa matrices (no CKM rotation): the (3,3) entry is the only one a running mass enters, and the
\* running tau mass at the scale of a Higgs mass (> m_tau) is below the pole mass
IsLepton(n) == Len(n) >= 2 /\ SubSeq(n, 1, 2) = "yl"
\* "ylHp_re22" -> "Hp"
BosonOf(n) == SubSeq(n, 3, Len(n) - 5)
ThirdGen(n) == Len(n) >= 2 /\ SubSeq(n, Len(n) - 1, Len(n)) = "22"
TThdmRun ==
  /\ l <= NLines /\ TraceLog[l].e = "ThdmRun"
  /\ LET ev == TraceLog[l] IN
       IF ~ev.running THEN /\ yoff' = ev /\ Step(<< >>, ev.sig)
       ELSE /\ yoff' = None
            /\ Step(IF yoff.e = "ThdmRun" /\ yoff.case = ev.case /\ yoff.exc = "" /\ ev.exc = ""
                    THEN << I("RunningOnlyThirdGeneration", \A n \in DOMAIN ev.yuk : (IsLepton(n) /\ ~ThirdGen(n)) => ev.yuk[n].b = yoff.yuk[n].b),
                            I("RunningLowersCouplings", \A n \in DOMAIN ev.yuk : (IsLepton(n) /\ ThirdGen(n) /\ Lt(ev.mrun["mtau_in"], ev.mrun["m_" \o BosonOf(n)]))
                                                                                  => Le(Abs(ev.yuk[n]), Abs(yoff.yuk[n]))),
                            I("RunningChangesSomething", \E n \in DOMAIN ev.yuk : ev.yuk[n].b # yoff.yuk[n].b),
                            \* with running enabled the third-generation Yukawa of every Higgs boson S is built from the running
                            \* mass at Q = m_S, for every positive scale: y_on(3,3) m_in = y_off(3,3) m_f(m_S)   (Pi_f = Delta_f = 0)
                            I("RunningMassAtBosonScale",
                                \A f \in {"u", "d", "l"}, S \in {"h", "H", "A", "Hp"}, part \in {"_re22", "_im22"} :
                                   LET n == "y" \o f \o S \o part
                                       min == ev.mrun[(CASE f = "u" -> "mt_in" [] f = "d" -> "mb_in" [] OTHER -> "mtau_in")]
                                       mr == ev.mrun[f \o "_" \o S]
                                   IN (IsFin(mr) /\ IsFin(ev.yuk[n]) /\ IsFin(yoff.yuk[n])) =>
                                         RelClose(Mul(ev.yuk[n], min), Mul(yoff.yuk[n], mr), One, TenPow(12))) >>
                    ELSE << >>, ev.sig)
  /\ UNCHANGED <<prev, prev2>>

Next == TCkm \/ TEW \/ TRun \/ TBoundary \/ TThdmRun
Spec == Init /\ [][Next]_vars
Report == l = NLines + 1 => WriteReport(l, viol, [nchecked |-> nchecked])
=============================================================================
