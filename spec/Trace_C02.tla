------------------------------ MODULE Trace_C02 ------------------------------
(***************************************************************************)
(* C02 - many-variable loop functions: definition, symmetry and degenerate *)
(* limits.  One event per evaluation:                                      *)
(*   Eval(id, fn, cls, a, y, at, role, k)                                  *)
(* role = "base": a tuple of the argument class cls (Regimes.tla);         *)
(*        "perm": the same tuple permuted (functions symmetric by          *)
(*                definition: Fa, Fb, Iabc, Phi, lambda_2, FPZ, FSZ, FCWl) *)
(*        "scale": the base tuple times k = 2^j (Iabc, Phi, lambda_2)      *)
(* perm and scale events follow their base event.                          *)
(*                                                                         *)
(*   Definition   |y - N/D| <= tol max(|N/D|, floor): N/D from Defs.tla    *)
(*                with the case analysis of the degenerate configurations; *)
(*                tol = 1e-6 (1e-4 for Fa, Fb); floor = 1e-13 M^p, M the   *)
(*                largest argument and p the degree of homogeneity         *)
(*   ZeroLimit    exact documented value for a vanishing argument          *)
(*   Symmetric    perm:  |y - y_base| <= 1e-9 max(|y_base|, floor)         *)
(*   Homogeneous  scale: Iabc k^2 y = y_base; Phi y = k y_base;            *)
(*                lambda_2 y = k^2 y_base  (to 1e-9)                       *)
(***************************************************************************)
EXTENDS TraceBase, Defs

VARIABLES l, base, viol, nchecked
vars == <<l, base, viol, nchecked>>
None == [e |-> "none"]

Tol(f) == IF f \in {"Fa", "Fb"} THEN TenPow(4) ELSE TenPow(6)
Tol9 == TenPow(9)

RECURSIVE MaxSeq(_)
MaxSeq(xs) == IF Len(xs) = 1 THEN Abs(xs[1]) ELSE Max2(Abs(Head(xs)), MaxSeq(Tail(xs)))
\* floor * 1e13: M^p
FloorOf(f, a) == CASE f = "lambda_2" -> Sq(MaxSeq(a))
                   [] f = "Phi" -> MaxSeq(a)
                   [] OTHER -> One
\* |y - n/d| <= max(|n/d|/tol, M^p 1e-13)
Close(y, fr, tolDen, flr) ==
  LET lhs == Abs(Sub(Mul(y, fr.d), fr.n))
  IN \/ Le(Mul(tolDen, lhs), Abs(fr.n))
     \/ Le(Mul(TenPow(13), lhs), Mul(flr, Abs(fr.d)))

DefOf(ev) ==
  LET f == ev.fn  a == ev.a  at == ev.at
  IN CASE f = "Fa" -> FaDef(a[1], a[2], at)
       [] f = "Fb" -> FbDef(a[1], a[2], at)
       [] f = "Iabc" -> IabcDef(a[1], a[2], a[3], at)
       [] f = "Phi" -> PhiDef(a[1], a[2], a[3], at)
       [] f = "Phi_over_lambda_2" -> PhiOverLambdaDef(a[1], a[2], a[3], at)
       [] f = "lambda_2" -> Frac(Lambda2(a[1], a[2], a[3]), One)
       [] f \in {"FPZ", "FSZ", "FCWl"} -> QuotDef(a[1], a[2], at)
       [] f = "f_CSd" -> FCSdDef(a[1], a[2], a[3], a[4], at.Lu1, at.Ld1, at.D1, at.PY1)
       [] f = "f_CSu" -> FCSuDef(a[1], a[2], a[3], a[4], at.Lu1, at.Ld1, at.D1, at.PY1)
       [] f = "FCWu" -> FCWDef(FCSuDef(a[1], a[2], a[5], a[6], at.Lu1, at.Ld1, at.D1, at.PY1),
                               FCSuDef(a[3], a[4], a[5], a[6], at.Lu2, at.Ld2, at.D2, at.PY2), a[1], a[3])
       [] f = "FCWd" -> FCWDef(FCSdDef(a[1], a[2], a[5], a[6], at.Lu1, at.Ld1, at.D1, at.PY1),
                               FCSdDef(a[3], a[4], a[5], a[6], at.Lu2, at.Ld2, at.D2, at.PY2), a[2], a[4])

\* the definitional comparison is made where the harness marks the tuple as inside the property's domain
EvalInvs(ev) ==
  IF ~ev.indomain THEN << >>
  ELSE << I("Definition", IsFin(ev.y) /\ Close(ev.y, DefOf(ev), Tol(ev.fn), FloorOf(ev.fn, ev.a))) >>

SymInvs(ev) ==
  IF ev.role = "perm" /\ base.e = "Eval" /\ base.grp = ev.grp
  THEN << I("Symmetric", IsFin(ev.y) /\ IsFin(base.y) /\ Close(ev.y, Frac(base.y, One), Tol9, FloorOf(ev.fn, ev.a))) >>
  ELSE IF ev.role = "scale" /\ base.e = "Eval" /\ base.grp = ev.grp
  THEN LET k == ev.k
           want == CASE ev.fn = "Iabc" -> Frac(base.y, Sq(k))
                     [] ev.fn = "Phi" -> Frac(Mul(k, base.y), One)
                     [] OTHER -> Frac(Mul(Sq(k), base.y), One)
       IN << I("Homogeneous", IsFin(ev.y) /\ IsFin(base.y) /\ Close(ev.y, want, Tol9, FloorOf(ev.fn, ev.a))) >>
  ELSE << >>

\* Regime tag of a Phi evaluation (part of the violation signature): "/strained" when the small-u expansions l0v / lv0 of
\* phi_pos are used (smallest ratio u < 2.2e-4 <= v) although their expansion parameter u / (1 - v)^2 exceeds 1e-2
\* (identifies the known finding K20; every other regime has no tag)
Min3(x, y, z) == Min2(x, Min2(y, z))
Mid3(x, y, z) == Max2(Min2(x, y), Min2(Max2(x, y), z))
Strained(p, q, r) ==
  /\ IsFin(p) /\ IsFin(q) /\ IsFin(r) /\ p.s > 0 /\ q.s > 0 /\ r.s > 0
  /\ LET mn == Min3(p, q, r)  md == Mid3(p, q, r)  mx == Max3(p, q, r)
     IN /\ Lt(Mul(OfInt(100000), mn), Mul(OfInt(22), mx)) /\ Le(Mul(OfInt(22), mx), Mul(OfInt(100000), md))
        /\ Lt(Sq(Sub(mx, md)), Mul(OfInt(100), Mul(mn, mx)))
\* f_CSd, f_CSu evaluate Phi(xd, xu, 1); FCWu, FCWd evaluate it for (xu, xd) and for (yu, yd): the same call of Phi
RegimeTag(ev) ==
  IF CASE ev.fn \in {"Phi", "Phi_over_lambda_2"} -> Strained(ev.a[1], ev.a[2], ev.a[3])
       [] ev.fn \in {"f_CSd", "f_CSu"} -> Strained(ev.a[1], ev.a[2], One)
       [] ev.fn \in {"FCWu", "FCWd"} -> Strained(ev.a[1], ev.a[2], One) \/ Strained(ev.a[3], ev.a[4], One)
       [] OTHER -> FALSE
  THEN "/strained" ELSE ""

Init == l = 1 /\ base = None /\ viol = << >> /\ nchecked = 0

TEval ==
  /\ l <= NLines /\ TraceLog[l].e = "Eval"
  /\ LET ev == TraceLog[l]
         invs == << I("KnownFunction", ev.known) >> \o EvalInvs(ev) \o SymInvs(ev)
     IN /\ viol' = viol \o Failed(invs, l, ev.fn \o "/" \o ev.cls \o RegimeTag(ev)) /\ nchecked' = nchecked + Len(invs)
        /\ base' = IF ev.role = "base" THEN ev ELSE base
  /\ l' = l + 1

Next == TEval
Spec == Init /\ [][Next]_vars
Report == l = NLines + 1 => WriteReport(l, viol, [nchecked |-> nchecked])
=============================================================================
