------------------------------ MODULE Trace_C18 ------------------------------
(***************************************************************************)
(* C18 - uncertainty estimates are finite, non-negative and ordered as     *)
(* documented.  Events:                                                    *)
(*   Unc(model, a1L, a2L, u0, u1, u2, overload values, [2L(a) parts])      *)
(* The documented definitions (gm2_uncertainty.hpp and the doc comments):  *)
(*   MSSM: u2 = 2.3e-10 + 0.3 (|a2L(a),cha| + |a2L(a),sferm|),             *)
(*         u1 = |a2L| + u2,  u0 = |a1L|                                    *)
(*   THDM: u2 >= 2e-12, u1 = |a2L| + u2, u0 = |a1L| + |a2L|                *)
(***************************************************************************)
EXTENDS TraceBase, Dyadic

VARIABLES l, cur, viol, nchecked
vars == <<l, cur, viol, nchecked>>

Ulp4 == PowTwo(-50)          \* 4 ulp relative: rounding of one or two double additions

\* u ~ v up to rounding of the final additions
Rounds(u, v) == WithinRat(u, v, One, PowTwo(50), Max2(Abs(u), Abs(v)))

FloorOK(u2, model) ==
   IF model = "mssm" THEN Le(OfInt(23), Mul(TenPow(11), u2))     \* u2 >= 2.3e-10
   ELSE Le(OfInt(2), Mul(TenPow(12), u2))                        \* u2 >= 2e-12

Invs(ev) ==
  LET fin == IsFin(ev.a1L) /\ IsFin(ev.a2L)
      us  == <<ev.u0, ev.u1, ev.u2>>
  IN IF ~fin THEN << >>            \* the property speaks about models with finite a_mu
     ELSE <<
       I("UncFinite",   AllFin(us)),
       I("UncNonNeg",   AllFin(us) => \A i \in 1..3 : Sgn(us[i]) >= 0),
       I("Unc2LFloor",  IsFin(ev.u2) => FloorOK(ev.u2, ev.model)),
       I("Unc1LDef",    AllFin(us) => Rounds(ev.u1, Add(Abs(ev.a2L), ev.u2))),
       I("Unc0LDef",    AllFin(us) =>
                           IF ev.model = "mssm" THEN Eq(ev.u0, Abs(ev.a1L))
                           ELSE Rounds(ev.u0, Add(Abs(ev.a1L), Abs(ev.a2L)))),
       I("OverloadsAgree", /\ ev.u0h.b = ev.u0.b /\ ev.u1h.b = ev.u1.b
                           /\ (Has(ev, "u2h") => ev.u2h.b = ev.u2.b)),
       I("Unc2LDefMSSM", (ev.model = "mssm" /\ AllFin(us) /\ IsFin(ev.a2LaCha) /\ IsFin(ev.a2LaSferm)) =>
            \* 1e11 u2 = 23 + 3e10 (|cha| + |sferm|)
            Rounds(Mul(TenPow(11), ev.u2),
                   Add(OfInt(23), Mul(Mul(OfInt(3), TenPow(10)),
                                      Add(Abs(ev.a2LaCha), Abs(ev.a2LaSferm))))))
     >>

Init == l = 1 /\ cur = [e |-> "none"] /\ viol = << >> /\ nchecked = 0

TUnc == /\ l <= NLines /\ TraceLog[l].e = "Unc"
        /\ LET ev == TraceLog[l] IN
             /\ cur' = [e |-> "Unc", case |-> ev.case]
             /\ IF ev.exc = "" THEN /\ viol' = viol \o Failed(Invs(ev), l, ev.sig)
                                    /\ nchecked' = nchecked + Len(Invs(ev))
                ELSE UNCHANGED <<viol, nchecked>>
        /\ l' = l + 1

Next == TUnc
Spec == Init /\ [][Next]_vars

Report == l = NLines + 1 => WriteReport(l, viol, [nchecked |-> nchecked])
=============================================================================
