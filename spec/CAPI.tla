-------------------------------- MODULE CAPI --------------------------------
(***************************************************************************)
(* The C interface (include/gm2calc/*.h) as a state machine over handles,  *)
(* with the C++ object it mirrors.                                         *)
(*                                                                         *)
(* Abstract state of the MSSM handle: null / live / freed, whether the     *)
(* down-type VEV is non-zero (tan(beta) has been set to a finite value:    *)
(* everything that needs tan(beta) throws EInvalidInput otherwise), and    *)
(* whether the spectrum has been calculated.  Abstract state of the THDM   *)
(* handle: null / live / freed and whether it was built with an            *)
(* out-of-range Yukawa enum (every calculation then throws ESetupError).   *)
(*                                                                         *)
(* A C++ call that throws must be turned into NaN / an error code by the   *)
(* wrapper.  Which wrappers do so is the constant Protection: "full" is    *)
(* the property C17 (no C entry point lets an exception escape), "asis"    *)
(* transcribes the unchanged tree (DESIGN A.6), where the unprotected      *)
(* wrappers make the invariant NeverAborts fail - the model-level          *)
(* reproduction of finding K6.                                             *)
(*                                                                         *)
(* hist records the calls; it is hidden from the exhaustive search by a    *)
(* VIEW and emitted as JSON in simulation mode for replay into the real    *)
(* interface (harness/drv/d_capi.cpp).                                     *)
(***************************************************************************)
EXTENDS Integers, Sequences, FiniteSets, TLC, Json

CONSTANTS MaxCalls,       \* length of a call history
          Protection,     \* "full" | "asis"
          Emit            \* TRUE: print complete histories (simulation mode)

\* ---- call alphabet (action classes; the harness picks the concrete function of a class) ----------
ValCls   == {"fin", "zero", "neg", "inf", "nan", "tiny"}
LenCls   == {"len0", "len1", "small", "large"}
BasisCls == {"valid", "defect", "badenum"}

MCalls == {"New", "Preset", "PresetPoles", "Free", "FreeNull", "SetTB", "SetTachyon", "SetBigA", "Set", "SetPole", "Get", "GetTB", "GetMass", "GetMix",
           "Convert", "ConvertParams", "CalcMasses", "Amu", "Part", "Unc", "HaveProblem", "StrGet", "SetVerbose"}
TCalls == {"TNewMass", "TNewGauge", "TAmu", "TUnc", "TFree", "TFreeNull", "SmDefault", "ConfigDefault", "IntToType"}

\* functions whose C++ counterpart can throw when tan(beta) is not finite (vd = 0)
NeedsTB == {"GetTB", "Convert", "ConvertParams", "CalcMasses", "Amu", "Part", "Unc"}
\* wrappers with try/catch in the unchanged tree
ProtectedAsIs == {"Convert", "ConvertParams", "CalcMasses", "Amu", "TNewMass", "TNewGauge", "TAmu", "IntToType"}
Protected(c) == Protection = "full" \/ c \in ProtectedAsIs

VARIABLES m,        \* MSSM handle: [st, tb, calc, tach (a slepton soft mass squared is negative), flag (a problem is flagged: no / calc / conv / maybe), poles (pole masses set from a spectrum), bigA]
          t,        \* THDM handle: [st, badenum]
          aborted,  \* an exception escaped a wrapper / a buffer was overrun
          hist
vars == <<m, t, aborted, hist>>

Init == /\ m = [st |-> "null", tb |-> "unset", calc |-> FALSE, tach |-> FALSE, flag |-> "no", poles |-> FALSE, bigA |-> FALSE]
        /\ t = [st |-> "null", badenum |-> FALSE]
        /\ aborted = FALSE /\ hist = << >>

Rec(c, a) == hist' = Append(hist, [c |-> c, a |-> a])
CanCall == ~aborted /\ Len(hist) < MaxCalls

\* does the mirrored C++ call throw in this state?
MThrows(c) == c \in NeedsTB /\ m.tb # "fin"
TThrows(c) == c \in {"TAmu", "TUnc"} /\ t.badenum

\* effect of a throwing C++ call on the process
Escapes(c, throws) == throws /\ ~Protected(c)

MNew == /\ CanCall /\ m.st \in {"null", "freed"}
        /\ m' = [st |-> "live", tb |-> "unset", calc |-> FALSE, tach |-> FALSE, flag |-> "no", poles |-> FALSE, bigA |-> FALSE] /\ Rec("New", "-")
        /\ UNCHANGED <<t, aborted>>
\* a complete valid parameter point through the setters (about 40 C calls)
MPreset == /\ CanCall /\ m.st = "live" /\ m' = [m EXCEPT !.tb = "fin", !.tach = FALSE, !.bigA = FALSE] /\ Rec("Preset", "-") /\ UNCHANGED <<t, aborted>>
\* after a successful spectrum calculation: every mass read through its getter and written to the pole-mass setter,
\* so that a conversion to the on-shell scheme passes its input checks and runs
MPresetPoles == /\ CanCall /\ m.st = "live" /\ m.calc /\ m' = [m EXCEPT !.poles = TRUE] /\ Rec("PresetPoles", "-") /\ UNCHANGED <<t, aborted>>
\* a huge A_t: valid input, stop tachyon in the spectrum (a physical problem, not an invalid input)
MSetBigA == /\ CanCall /\ m.st = "live" /\ m' = [m EXCEPT !.bigA = TRUE] /\ Rec("SetBigA", "-") /\ UNCHANGED <<t, aborted>>
\* ml2(1,1) < 0: the smuon / sneutrino sector becomes tachyonic, the next spectrum calculation is refused with
\* gm2calc_PhysicalProblem and leaves the problem flagged (non-empty problem string for the string getters)
MSetTachyon == /\ CanCall /\ m.st = "live" /\ m' = [m EXCEPT !.tach = TRUE] /\ Rec("SetTachyon", "-") /\ UNCHANGED <<t, aborted>>
MFree == /\ CanCall /\ m.st = "live" /\ m' = [m EXCEPT !.st = "freed"] /\ Rec("Free", "-") /\ UNCHANGED <<t, aborted>>
MFreeNull == /\ CanCall /\ Rec("FreeNull", "-") /\ UNCHANGED <<m, t, aborted>>          \* free(NULL) is a no-op

MSetTB(v) == /\ CanCall /\ m.st = "live"
             /\ m' = [m EXCEPT !.tb = IF v \in {"fin", "neg", "tiny"} THEN "fin" ELSE "bad"]   \* 0, inf, nan: vd = 0 or NaN
             /\ Rec("SetTB", v) /\ UNCHANGED <<t, aborted>>
MSet(c, v) == /\ CanCall /\ m.st = "live" /\ c \in {"Set", "SetPole", "SetVerbose"}
              /\ Rec(c, v) /\ UNCHANGED <<m, t, aborted>>

MCall(c) == /\ CanCall /\ m.st = "live" /\ c \in {"Get", "GetTB", "GetMass", "GetMix", "Amu", "Part", "Unc", "HaveProblem"}
            /\ aborted' = Escapes(c, MThrows(c))
            /\ Rec(c, "-") /\ UNCHANGED <<m, t>>

MCalc(c) == /\ CanCall /\ m.st = "live" /\ c \in {"Convert", "ConvertParams", "CalcMasses"}
            /\ aborted' = Escapes(c, MThrows(c))
            \* flag: "calc" - calculate_masses refused a tachyonic point and left the problem flagged (certain);
            \*       "maybe" - a conversion was refused on a tachyonic point (it may fail earlier, on missing pole masses)
            /\ IF (m.tach \/ m.bigA) /\ ~MThrows(c)
               THEN m' = [m EXCEPT !.calc = FALSE, !.flag = IF c = "CalcMasses" THEN "calc"
                                                            ELSE IF m.poles /\ m.bigA /\ ~m.tach THEN "conv"    \* a conversion that ends with a physical problem
                                                            ELSE "maybe"]
               ELSE \E ok \in BOOLEAN :            \* the calculation may succeed or be refused
                      m' = [m EXCEPT !.calc = ok /\ ~MThrows(c), !.flag = IF ok /\ ~MThrows(c) THEN "no" ELSE m.flag]
            /\ Rec(c, "-") /\ UNCHANGED t

\* string getters: len = 0 must write nothing; the unchanged tree writes msg[len - 1] with len - 1 wrapped
MStrGet(l, nullbuf) == /\ CanCall /\ m.st = "live"
                       /\ aborted' = (Protection = "asis" /\ l = "len0" /\ ~nullbuf)
                       /\ Rec("StrGet", IF nullbuf THEN "null" ELSE l) /\ UNCHANGED <<m, t>>

TNew(c, b) == /\ CanCall /\ t.st \in {"null", "freed"} /\ c \in {"TNewMass", "TNewGauge"}
              /\ \/ b = "defect" /\ UNCHANGED t                                   \* refused: error code, no handle
                 \/ b # "defect" /\ t' = [st |-> "live", badenum |-> (b = "badenum")]
              /\ Rec(c, b) /\ UNCHANGED <<m, aborted>>
TCall(c) == /\ CanCall /\ t.st = "live" /\ c \in {"TAmu", "TUnc"}
            /\ aborted' = Escapes(c, TThrows(c))
            /\ Rec(c, "-") /\ UNCHANGED <<m, t>>
TFree == /\ CanCall /\ t.st = "live" /\ t' = [t EXCEPT !.st = "freed"] /\ Rec("TFree", "-") /\ UNCHANGED <<m, aborted>>
TMisc(c) == /\ CanCall /\ c \in {"TFreeNull", "SmDefault", "ConfigDefault", "IntToType"}
            /\ Rec(c, "-") /\ UNCHANGED <<m, t, aborted>>

Next == \/ MNew \/ MPreset \/ MPresetPoles \/ MSetBigA \/ MFree \/ MFreeNull \/ MSetTachyon
        \/ \E v \in ValCls : MSetTB(v)
        \/ \E c \in {"Set", "SetPole", "SetVerbose"}, v \in ValCls : MSet(c, v)
        \/ \E c \in MCalls : MCall(c) \/ MCalc(c)
        \/ \E l \in LenCls, nb \in BOOLEAN : MStrGet(l, nb)
        \/ \E c \in TCalls, b \in BasisCls : TNew(c, b)
        \/ \E c \in TCalls : TCall(c) \/ TMisc(c)
        \/ TFree

Spec == Init /\ [][Next]_vars

\* ---- properties ----------------------------------------------------------------------------------
TypeOK == /\ m.st \in {"null", "live", "freed"} /\ t.st \in {"null", "live", "freed"} /\ aborted \in BOOLEAN
\* C17: no C entry point lets a C++ exception escape or terminates the process, in any reachable state
NeverAborts == ~aborted
\* no call on a handle that is not live (the alphabet never does it: use-after-free is outside the property)
View == <<m, t, aborted, Len(hist)>>

\* emit complete histories (simulation mode)
EmitHist == (Emit /\ Len(hist) = MaxCalls) => PrintT(<<"HIST", ToJson(hist)>>)
=============================================================================
