--------------------------- MODULE SLHAWriterGen ---------------------------
(***************************************************************************)
(* Writes the initial documents and the operations of SLHAWriter.tla as    *)
(* JSON for the driver (harness/props/c15.py renders them).                *)
(***************************************************************************)
EXTENDS SLHAWriterDefs, Json, IOUtils


VARIABLE x
Init == x = 0
Next == UNCHANGED x
Spec == Init /\ [][Next]_x

ASSUME JsonSerialize(IOEnv.GEN_OUT, [docs |-> Docs0, ops |-> Ops])
=============================================================================
