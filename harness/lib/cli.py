"""Running gm2calc.x and abstracting what it printed (the abstraction function of CLI.tla)."""
import os
import re
import signal as _signal
import subprocess

import build

FLOAT = r"[-+]?(?:\d+\.?\d*(?:[eE][-+]?\d+)?|\.\d+(?:[eE][-+]?\d+)?|nan|inf)"
RESULT_SLOTS = [("LOWEN", "6"), ("SPHENOLOWENERGY", "21"), ("GM2CALCOUTPUT", "0"), ("GM2CALCOUTPUT", "1")]
PRETTY = {"LOWEN": "LOWEN", "SPHENOLOWENERGY": "SPhenoLowEnergy", "GM2CALCOUTPUT": "GM2CalcOutput"}


def run(exe, args, stdin=None, timeout=60, env=None):
    e = dict(os.environ)
    e.setdefault("ASAN_OPTIONS", "detect_leaks=1:abort_on_error=0:exitcode=99")
    e.setdefault("UBSAN_OPTIONS", "print_stacktrace=1:halt_on_error=1:exitcode=98")
    if env:
        e.update(env)
    try:
        r = subprocess.run([exe] + list(args), input=stdin if stdin is not None else b"", stdout=subprocess.PIPE,
                           stderr=subprocess.PIPE, timeout=timeout, env=e)
        rc = r.returncode
        out, err = r.stdout, r.stderr
        to = 0
    except subprocess.TimeoutExpired as ex:
        rc, out, err, to = 0, ex.stdout or b"", ex.stderr or b"", 1
    sig = -rc if rc < 0 else 0
    exitc = rc if rc >= 0 else 0
    return {"exit": exitc, "signal": sig, "timeout": to, "stdout": out.decode("utf-8", "replace"),
            "stderr": err.decode("utf-8", "replace")}


def slha_blocks(text):
    """[(NAME, [(key-token, rest-tokens)])] in order of appearance"""
    blocks = []
    for ln in text.splitlines():
        f = ln.split("#", 1)[0].split()
        if not f:
            continue
        if f[0].upper() in ("BLOCK", "DECAY") and len(f) > 1:
            blocks.append((f[1].upper(), []))
        elif blocks:
            blocks[-1][1].append((f[0], f[1:]))
    return blocks


def classify(stdout):
    """stdout text -> list of abstract item kinds (CLIDefs.tla: Kinds)"""
    s = stdout
    if s.strip() == "":
        return []
    if s.startswith("Usage:"):
        return ["usage"]
    if re.fullmatch(r"\d+\.\d+\.\d+\n", s):
        return ["version"]
    if re.fullmatch(r"\s*" + FLOAT + r"\s*\n", s):
        return ["number"]
    if s.startswith("=" * 20) and "amu (1-loop + 2-loop" in s:
        return ["report"]
    if re.search(r"(?im)^\s*Block\s+(SPINFO|GM2CalcOutput|LOWEN|SPhenoLowEnergy)\b", s):
        kinds = []
        blocks = slha_blocks(s)
        for name, lines in blocks:
            if name == "SPINFO":
                # the block GM2Calc writes: 1 GM2Calc / 2 <version> / 3 <warnings> or 4 <error>
                ok = (len(lines) >= 3 and lines[0][0] == "1" and lines[0][1] == ["GM2Calc"] and lines[1][0] == "2"
                      and len(lines[1][1]) == 1 and re.fullmatch(r"\d+\.\d+\.\d+", lines[1][1][0]) and lines[2][0] in ("3", "4"))
                kinds += ["spinfo:1", "spinfo:2", "spinfo:" + lines[2][0]] if ok else ["spinfo:?"]
                break
        kinds.append("echo")
        seen = set()
        for name, lines in blocks:
            for k, rest in lines:
                if (name, k) in RESULT_SLOTS and (name, k) not in seen:
                    seen.add((name, k))
        for name, k in RESULT_SLOTS:
            if (name, k) in seen:
                kinds.append("result:%s[%s]" % (PRETTY[name], k))
        return kinds
    return ["other"]


def strip_config(text):
    """remove GM2CalcConfig blocks from an input text"""
    out, skip = [], False
    for ln in text.splitlines():
        f = ln.split("#", 1)[0].split()
        if f and f[0].upper() in ("BLOCK", "DECAY") and len(f) > 1:
            skip = f[1].upper() == "GM2CALCCONFIG"
        if not skip:
            out.append(ln)
    return "\n".join(out) + "\n"


def base_inputs():
    """(itype, base class) -> input text without GM2CalcConfig.  The defect is appended as a
    later block, so it overrides the valid point's own entry."""
    repo = build.REPO
    ex = {t: strip_config(open(os.path.join(repo, "input", f)).read())
          for t, f in (("slha", "example.slha"), ("gm2calc", "example.gm2"), ("thdm", "example.thdm"))}
    b = {}
    for t in ex:
        b[(t, "ok")] = ex[t]
        b[(t, "readerr")] = ex[t] + "Block SMINPUTS\n     4   9.1e1x7   # not a number\n"
    b[("slha", "tachyon")] = ex["slha"] + "Block MSOFT Q= 1.00000000e+03\n    36   -3.0e+03   # mtauR: negative soft mass squared, stau tachyon\n"
    b[("gm2calc", "tachyon")] = ex["gm2calc"] + "Block GM2CalcInput\n    14   -2.18022142E+02   # mse(3,3) negative\n"
    b[("thdm", "tachyon")] = strip_config(open(os.path.join(repo, "test", "test_points", "thdm_gauge-basis.in")).read()) + \
        "Block MINPAR\n    11   -5.0   # lambda_1 negative: CP-even tachyon\n    18   -40000\n"
    b[("slha", "forceable")] = ex["slha"] + "Block SMINPUTS\n     9   1.0e2   # MW > MZ\nBlock MASS\n    24   1.0e2\n"
    b[("gm2calc", "forceable")] = ex["gm2calc"] + "Block SMINPUTS\n     9   1.0e2   # MW > MZ\n"
    b[("thdm", "forceable")] = ex["thdm"] + "Block MASS\n    25   5.0e2   # mh > mH\n"
    b[("slha", "hard")] = ex["slha"] + "Block HMIX   # last HMIX block without scale\n     2   10\n"
    b[("gm2calc", "hard")] = ex["gm2calc"] + "Block GM2CalcInput\n     3   1e308   # tan(beta) = infinity\n"
    b[("thdm", "hard")] = ex["thdm"] + "Block MINPAR\n    11   0.7   # lambda_1 given together with masses\n"
    b[("thdm", "setuperr")] = ex["thdm"] + "Block MINPAR\n    24   7   # no such Yukawa type\n"
    b[("slha", "setuperr")] = ex["slha"]
    b[("gm2calc", "setuperr")] = ex["gm2calc"]
    return b


CFG_BAD = {0: ["5", "1.5", "-1"], 1: ["3", "0.5", "-1"], 2: ["2", "0.5"], 3: ["2", "-1"], 4: ["3"], 5: ["1e3"], 6: ["0.1"],
           7: ["1", "99", "0.5"]}
CFG_NAN = ["abc", "nan", "1e400", "inf", "1x"]


def render_cfg(cfg, rnd):
    """GM2CalcConfig entries [{k, v, c}] in file order -> text (possibly split over several blocks)"""
    if not cfg:
        return ""
    out = ["Block GM2CalcConfig"]
    for i, e in enumerate(cfg):
        if i and rnd.random() < 0.2:
            out.append("Block %s" % rnd.choice(["GM2CalcConfig", "gm2calcconfig", "GM2CALCCONFIG"]))
        if e["c"] == "ok":
            v = str(e["v"])
            if rnd.random() < 0.2:
                v = rnd.choice([v + ".0", v + "e0", "+" + v])
        elif e["c"] == "bad":
            v = rnd.choice(CFG_BAD[e["k"]])
        else:
            v = rnd.choice(CFG_NAN)
        out.append("   %d   %s" % (e["k"], v))
    return "\n".join(out) + "\n"
