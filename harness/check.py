#!/usr/bin/env python3
"""Entry point of every registered check:  python3 harness/check.py <Cnn> [--tier quick|thorough]

exit 0 : the property held on everything explored (KNOWN-FINDING lines may be printed)
exit 1 : a line  VIOLATION property=<id> replay=<path>  was printed
exit 2 : infrastructure failure (build, TLC crash, malformed trace) - never a verdict
"""
import argparse
import importlib
import os
import sys
import traceback

HERE = os.path.dirname(os.path.abspath(__file__))
sys.path.insert(0, os.path.join(HERE, "lib"))
sys.path.insert(0, HERE)


def main():
    ap = argparse.ArgumentParser()
    ap.add_argument("prop")
    ap.add_argument("--tier", default=os.environ.get("VERIF_TIER", "quick"), choices=["quick", "thorough"])
    a = ap.parse_args()
    if a.prop == "--setup" or a.prop == "setup":
        import setup
        return setup.main()
    seed = int(os.environ.get("VERIF_SEED", "1") or 1)
    os.environ["VERIF_SEED"] = str(seed)
    mod = importlib.import_module("props.%s" % a.prop.lower())
    try:
        return mod.run(a.tier, seed)
    except Exception:
        traceback.print_exc()
        sys.stderr.write("INFRASTRUCTURE-ERROR in %s (no verdict)\n" % a.prop)
        return 2


if __name__ == "__main__":
    sys.exit(main())
