------------------------------- MODULE Purity -------------------------------
(***************************************************************************)
(* C19 - calculations are pure: deterministic, argument-preserving and     *)
(* thread-safe.                                                            *)
(*                                                                         *)
(* Every function of the calculation API is a small process                *)
(*     Begin -> (CopyModel -> MutateCopy)? -> Read -> End                  *)
(* with a read set (the caller's model, taken by const reference) and a    *)
(* write set (only its own local copy: the non-tan(beta)-resummed totals   *)
(* copy the model and convert the copy; the spectrum calculation saves and *)
(* restores mHd2/mHu2 through RAII on the object it is called on, which is *)
(* private to the calling thread).  Threads run such processes on one      *)
(* shared const model and on private models, in all interleavings.         *)
(*                                                                         *)
(* Objects carry a content id; a write changes it.  Properties:            *)
(*   NoConflict     no step writes an object another live op reads/writes  *)
(*   Pure           at End the argument has the content it had at Begin    *)
(*   Deterministic  the result is a function of (op, content of argument)  *)
(* Deliberately wrong variants (constant Bug): "memo" - a function-static  *)
(* result cache written by every call; "mutatecaller" - the non-resummed   *)
(* totals convert the caller's model in place and restore it afterwards.   *)
(***************************************************************************)
EXTENDS Integers, Sequences, FiniteSets, TLC

CONSTANTS Threads, Bug, MaxOps

Ops == {"amu", "amu_nr", "unc", "spectrum", "construct"}
\* objects: the shared model, one private model per thread, one local copy per thread, the (buggy) static cache
Shared == <<"shared", 0>>
Priv(t) == <<"priv", t>>
Copy(t) == <<"copy", t>>
Cache   == <<"cache", 0>>
Objects == {Shared, Cache} \cup {Priv(t) : t \in Threads} \cup {Copy(t) : t \in Threads}

VARIABLES pc, op, arg, content, readers, writers, atBegin, sawContent, res, done, conflict
vars == <<pc, op, arg, content, readers, writers, atBegin, sawContent, res, done, conflict>>

Init == /\ pc = [t \in Threads |-> "idle"] /\ op = [t \in Threads |-> "none"] /\ arg = [t \in Threads |-> Shared]
        /\ content = [o \in Objects |-> 0]
        /\ readers = [o \in Objects |-> {}] /\ writers = [o \in Objects |-> {}]
        /\ atBegin = [t \in Threads |-> 0] /\ sawContent = [t \in Threads |-> 0]
        /\ res = {} /\ done = [t \in Threads |-> 0] /\ conflict = FALSE

\* a step of thread t that reads / writes object o: is somebody else writing / using it?
ReadConflict(t, o)  == writers[o] \ {t} # {}
WriteConflict(t, o) == (writers[o] \cup readers[o]) \ {t} # {}

Begin(t, o, a) ==
  /\ pc[t] = "idle" /\ done[t] < MaxOps
  /\ \/ o \in {"amu", "amu_nr", "unc"} /\ a \in {Shared, Priv(t)}           \* const evaluation on shared or own model
     \/ o \in {"spectrum", "construct"} /\ a = Priv(t)                        \* mutation only of the own model
  /\ op' = [op EXCEPT ![t] = o] /\ arg' = [arg EXCEPT ![t] = a]
  /\ atBegin' = [atBegin EXCEPT ![t] = content[a]]
  /\ IF o \in {"spectrum", "construct"}
     THEN /\ writers' = [writers EXCEPT ![a] = @ \cup {t}] /\ UNCHANGED readers
          /\ conflict' = (conflict \/ WriteConflict(t, a))
     ELSE /\ readers' = [readers EXCEPT ![a] = @ \cup {t}] /\ UNCHANGED writers
          /\ conflict' = (conflict \/ ReadConflict(t, a))
  /\ pc' = [pc EXCEPT ![t] = "begun"]
  /\ UNCHANGED <<content, sawContent, res, done>>

\* amu_nr: MSSMNoFV_onshell model_ytree(model); model_ytree.convert_to_non_tan_beta_resummed();
CopyModel(t) ==
  /\ pc[t] = "begun" /\ op[t] = "amu_nr" /\ Bug # "mutatecaller"
  /\ content' = [content EXCEPT ![Copy(t)] = content[arg[t]]]
  /\ writers' = [writers EXCEPT ![Copy(t)] = @ \cup {t}]
  /\ conflict' = (conflict \/ ReadConflict(t, arg[t]) \/ WriteConflict(t, Copy(t)))
  /\ pc' = [pc EXCEPT ![t] = "copied"]
  /\ UNCHANGED <<op, arg, readers, atBegin, sawContent, res, done>>

MutateCopy(t) ==
  /\ pc[t] = "copied"
  /\ content' = [content EXCEPT ![Copy(t)] = @ + 100]          \* converted: different content, private
  /\ pc' = [pc EXCEPT ![t] = "mutated"]
  /\ UNCHANGED <<op, arg, readers, writers, atBegin, sawContent, res, done, conflict>>

\* BUG "mutatecaller": convert the caller's object in place ...
MutateCaller(t) ==
  /\ pc[t] = "begun" /\ op[t] = "amu_nr" /\ Bug = "mutatecaller"
  /\ content' = [content EXCEPT ![arg[t]] = @ + 100]
  /\ writers' = [writers EXCEPT ![arg[t]] = @ \cup {t}]
  /\ conflict' = (conflict \/ WriteConflict(t, arg[t]))
  /\ pc' = [pc EXCEPT ![t] = "mutated"]
  /\ UNCHANGED <<op, arg, readers, atBegin, sawContent, res, done>>

\* the evaluation proper: reads the argument (or the converted copy)
Read(t) ==
  /\ \/ pc[t] = "begun" /\ op[t] \in {"amu", "unc"}
     \/ pc[t] = "mutated"
  /\ LET src == IF op[t] = "amu_nr" /\ Bug # "mutatecaller" THEN Copy(t) ELSE arg[t]
     IN /\ sawContent' = [sawContent EXCEPT ![t] = content[src]]
        /\ conflict' = (conflict \/ ReadConflict(t, src) \/ (Bug = "memo" /\ WriteConflict(t, Cache)))
  /\ IF Bug = "memo" THEN /\ writers' = [writers EXCEPT ![Cache] = @ \cup {t}]
                          /\ content' = [content EXCEPT ![Cache] = @ + 1]
                     ELSE UNCHANGED <<writers, content>>
  /\ pc' = [pc EXCEPT ![t] = "read"]
  /\ UNCHANGED <<op, arg, readers, atBegin, res, done>>

\* spectrum / construct: write the own model (RAII restore of mHd2, mHu2 is part of the same step)
Mutate(t) ==
  /\ pc[t] = "begun" /\ op[t] \in {"spectrum", "construct"}
  /\ content' = [content EXCEPT ![arg[t]] = @ + 1]
  /\ conflict' = (conflict \/ WriteConflict(t, arg[t]))
  /\ pc' = [pc EXCEPT ![t] = "read"]
  /\ UNCHANGED <<op, arg, readers, writers, atBegin, sawContent, res, done>>

End(t) ==
  /\ pc[t] = "read"
  \* ... and restore it afterwards (BUG "mutatecaller")
  /\ content' = IF Bug = "mutatecaller" /\ op[t] = "amu_nr" THEN [content EXCEPT ![arg[t]] = @ - 100] ELSE content
  /\ res' = IF op[t] \in {"amu", "amu_nr", "unc"}
            THEN res \cup {<<op[t], atBegin[t], sawContent[t] - (IF op[t] = "amu_nr" THEN 100 ELSE 0)>>} ELSE res
  /\ readers' = [o \in Objects |-> readers[o] \ {t}]
  /\ writers' = [o \in Objects |-> writers[o] \ {t}]
  /\ pc' = [pc EXCEPT ![t] = "idle"] /\ done' = [done EXCEPT ![t] = @ + 1]
  /\ UNCHANGED <<op, arg, atBegin, sawContent, conflict>>

Next == \E t \in Threads :
           \/ \E o \in Ops, a \in Objects : Begin(t, o, a)
           \/ CopyModel(t) \/ MutateCopy(t) \/ MutateCaller(t) \/ Read(t) \/ Mutate(t) \/ End(t)
Spec == Init /\ [][Next]_vars

\* ---- properties ----------------------------------------------------------------------------------
NoConflict == ~conflict
\* a const evaluation leaves its argument as it found it: the shared model is never modified at all,
\* and a thread's own model has, after a const evaluation, the content it had before
SharedUnchanged == content[Shared] = 0
Pure == \A t \in Threads : (pc[t] = "idle" /\ op[t] \in {"amu", "amu_nr", "unc"}) => content[arg[t]] = atBegin[t]
\* the result is a function of (op, content of the argument at Begin): what was evaluated is what was passed
Deterministic == \A r \in res : r[3] = r[2]
=============================================================================
