SPECIFICATION FairSpec
CONSTANTS
  MaxLen = 3
  Formats = {"slha","flat"}
  Bug = "none"
PROPERTY Terminates
CHECK_DEADLOCK FALSE
