"""C11 - no spurious singularities: a_mu finite and continuous across mass degeneracies."""
import json

import build
import cases
import core
import tlc


def run(tier, seed):
    cx = core.Ctx("C11", tier, seed, "exploration")
    cs = cases.get("C11")
    cs = sorted(cs, key=lambda c: (c["comp"], c["moving"], c["rel"], c["a"], c["b"]))
    reps = 1 if tier == "quick" else 12
    exe_t = build.driver_build("d_thdm")
    exe_s = build.driver_build("d_mssm")
    cft, cfs = cx.path("cases_thdm.txt"), cx.path("cases_mssm.txt")
    n = 0
    with open(cft, "w") as ft, open(cfs, "w") as fs:
        for rep in range(reps):
            for c in cs:
                if c["comp"] == "S":
                    fs.write("p%d %s %s %s %s\n" % (n, c["moving"], c["rel"], c["a"], c["b"]))
                    if c["b"] in ("MVZ", "MVWm"):        # few coincidences of this kind: three base points each
                        for _ in range(2):
                            n += 1
                            fs.write("p%d %s %s %s %s\n" % (n, c["moving"], c["rel"], c["a"], c["b"]))
                else:
                    ft.write("p%d %s %s %s %s %s\n" % (n, c["comp"], c["moving"], c["rel"], c["a"], c["b"]))
                n += 1
    tr = cx.path("trace.ndjson")
    trs = cx.path("trace_mssm.ndjson")
    core.run_driver(exe_t, ["c11", cft, tr], timeout=3000)
    core.run_driver(exe_s, ["c11", cfs, trs], timeout=3000)
    with open(tr, "a") as out:
        out.write(open(trs).read())
    shards = tlc.split_trace(tr, 16, group_key="case")
    usable = 0
    for rep in tlc.validate_traces("Trace_C11.tla", shards, jobs=16):
        cx.add_report(rep)
        cx.cov["invariant_evaluations"] = cx.cov.get("invariant_evaluations", 0) + rep["extra"]["nchecked"]
        usable += rep["extra"]["nusable"]
    cx.selftest_corruption("Trace_C11.tla", shards[0],
                           lambda ev: (ev["v"].get("amu2LB") or ev["v"].get("amu2LF") or ev["v"].get("amu1L")) if ev["e"] == "Point" and ev["di"] == 11 else None,
                           "Band", every=True)
    for ln in open(tr):
        ev = json.loads(ln)
        if ev["e"] == "Point" and ev["di"] in (0, 11, 22) and len(cx.cov["samples"]) < 6:
            cx.sample({"path": ev["sig"], "d": core.dy(ev["d"]), "m": core.dy(ev["m"]), "values": {k: core.dy(v) for k, v in list(ev["v"].items())[:4]}})
    voided = nocoinc = 0
    for ln in open(tr):
        ev = json.loads(ln)
        if ev["e"] == "Point":
            cx.evaluations += 1
        elif ev["exc"] == "":
            cx.distinct.add(ev["sig"])
        elif ev["exc"] == "no-coincidence":
            nocoinc += 1
        else:
            voided += 1
    cx.cov["paths_requested"] = n
    cx.cov["paths_voided_by_refusal"] = voided
    cx.cov["coincidences_not_realisable_for_base_point"] = nocoinc
    cx.cov["usable_path_quantities"] = usable
    cx.assumptions += ["'the contribution's magnitude' is max(|v(-1e-3)|, |v(+1e-3)|) of the same quantity on the same path",
                       "components B, F, L move one mass of the parameter struct handed to the two-loop bosonic / fermionic / one-loop routines "
                       "(so that MW, MZ, m_hSM coincidences are reachable); component M moves the mass-basis input and rebuilds the model",
                       "component S (MSSM): masses are not independent inputs; a Lagrangian parameter is moved through the value at which "
                       "two masses coincide (located by bisection on rebuilt models); coincidences that do not exist for the base point "
                       "or whose neighbourhood is refused give no path"]
    return cx.finish(rule="one path of 23 offsets per TLC-enumerated coincidence (Regimes.tla: AllCoincidences: component x moving Higgs mass x "
                          "relation eq/twice/half/sum/diff x other masses) and repetition with a fresh random base point; "
                          "distinct_nontrivial = coincidence signatures with a complete path")
