------------------------------ MODULE THDMModel ------------------------------
(***************************************************************************)
(* Discrete skeleton of the THDM model object (src/THDM/THDM.cpp,          *)
(* THDM_mass_eigenstates.cpp).                                             *)
(*                                                                         *)
(* Part 1 (C08) - extraction of the CP-even mixing angle.  Angles live on  *)
(* the lattice of multiples of pi/16 (integers mod 32), on which the signs *)
(* of sin and cos and the branch of asin / atan2 are exact.  The input is  *)
(* beta in (0, pi/2) and beta - alpha in [-pi/2, pi/2]; the diagonaliser   *)
(* returns the heavy eigenvector (cos alpha, sin alpha) with an arbitrary  *)
(* overall sign; get_alpha_h() recovers alpha from it and normalises       *)
(* beta - alpha back into [-pi/2, pi/2].  Invariant AlphaOK: the reported  *)
(* beta - alpha is the input one (at +-pi/2, where cos(beta - alpha) = 0,  *)
(* the sign of sin(beta - alpha) is not defined by the convention).        *)
(* Extraction = "asin" is the unchanged tree (finding K1), "atan2" the     *)
(* repaired one.                                                           *)
(*                                                                         *)
(* Part 2 (C09) - the Yukawa parametrisations: Table 1 of arXiv:1607.06292 *)
(* as symbols, the couplings rho_f each type builds, and the matrix of     *)
(* which of zeta_f, Delta_f, Pi_f each type may read.                      *)
(***************************************************************************)
EXTENDS Integers, FiniteSets, TLC, Yukawa

CONSTANT Extraction        \* "asin" | "atan2"

\* ---- Part 1 ------------------------------------------------------------------------------------
Norm(k) == LET r == k % 32 IN IF r > 16 THEN r - 32 ELSE r              \* representative in (-16, 16]
\* asin(sin(k pi/16)) on the lattice: the principal branch [-8, 8]
AsinSin(k) == LET n == Norm(k) IN IF n > 8 THEN 16 - n ELSE IF n < -8 THEN -16 - n ELSE n

VARIABLES beta, bmaIn, vecSign, phase, bmaOut
vars == <<beta, bmaIn, vecSign, phase, bmaOut>>

Init == /\ beta \in 1..7 /\ bmaIn \in -8..8 /\ vecSign \in {1, -1} /\ phase = "built" /\ bmaOut = 99

ExtractAlpha ==
  /\ phase = "built"
  /\ LET alphaTrue == beta - bmaIn
         alphaVec  == IF vecSign = 1 THEN alphaTrue ELSE alphaTrue + 16      \* (-cos, -sin) = angle + pi
         a0   == IF Extraction = "asin" THEN AsinSin(alphaVec) ELSE Norm(alphaVec)
         bma0 == beta - a0
         a1   == IF bma0 < -8 THEN a0 - 16 ELSE IF bma0 > 8 THEN a0 + 16 ELSE a0   \* the +-pi shift of get_alpha_h
     IN bmaOut' = beta - a1
  /\ phase' = "extracted" /\ UNCHANGED <<beta, bmaIn, vecSign>>

Next == ExtractAlpha
Spec == Init /\ [][Next]_vars

AlphaOK == phase = "extracted" =>
             /\ bmaOut \in -8..8                                           \* cos(beta - alpha) >= 0
             /\ (bmaOut = bmaIn \/ (bmaIn \in {-8, 8} /\ bmaOut \in {-8, 8}))   \* sin(beta - alpha) reproduced

=============================================================================
