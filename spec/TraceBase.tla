------------------------------ MODULE TraceBase ------------------------------
(***************************************************************************)
(* Common plumbing of all trace specifications.                            *)
(*                                                                         *)
(* A trace is an ndjson file recorded from the real code (one event per    *)
(* line, see harness/drv/trace.hpp).  A trace specification has a position *)
(* variable l, its own abstract state, and a variable viol that collects   *)
(* <<line, invariant name, case signature>> for every property invariant   *)
(* that is false in the state reached by consuming line l.  Trace          *)
(* specifications are *total*: every well-formed event is consumable, so   *)
(* that one violation never hides the rest of the trace; the verdict is    *)
(* the content of viol at the end, written by the invariant Report (a      *)
(* trace that is not consumed to its end writes no report, which the       *)
(* harness treats as an infrastructure failure, never as a pass).          *)
(***************************************************************************)
EXTENDS Json, IOUtils, TLC, Sequences, Integers

TraceLog == ndJsonDeserialize(IOEnv.TRACE)
NLines   == Len(TraceLog)

Has(ev, f) == f \in DOMAIN ev

\* select the names of the failed invariants; invs is a sequence of [name, ok]
RECURSIVE Failed(_, _, _)
Failed(invs, line, sig) ==
   IF invs = << >> THEN << >>
   ELSE (IF Head(invs).ok THEN << >>
         ELSE << [l |-> line, inv |-> Head(invs).name, sig |-> sig] >>)
        \o Failed(Tail(invs), line, sig)

I(name, ok) == [name |-> name, ok |-> ok]

WriteReport(l, viol, extra) ==
   JsonSerialize(IOEnv.TRACE_OUT,
                 [accepted |-> TRUE, lines |-> NLines, viol |-> viol, extra |-> extra])
=============================================================================
