---- MODULE Linalg_TTrace_1790873404 ----
EXTENDS Linalg, Sequences, TLCExt, Toolbox, Naturals, TLC

_expression ==
    LET Linalg_TEExpression == INSTANCE Linalg_TEExpression
    IN Linalg_TEExpression!expression
----

_trace ==
    LET Linalg_TETrace == INSTANCE Linalg_TETrace
    IN Linalg_TETrace!trace
----

_inv ==
    ~(
        TLCGet("level") = Len(_TETrace)
        /\
        pc = ("done")
        /\
        routine = ("fs_hermitian")
        /\
        u = ((<<1, 1>> :> <<0, 0>> @@ <<1, 2>> :> <<-1, 0>> @@ <<2, 1>> :> <<1, 0>> @@ <<2, 2>> :> <<0, 0>>))
        /\
        v = ((<<1, 1>> :> <<0, 0>> @@ <<1, 2>> :> <<0, 0>> @@ <<2, 1>> :> <<0, 0>> @@ <<2, 2>> :> <<0, 0>>))
        /\
        w = (<<-2, -1>>)
        /\
        cm = (1)
        /\
        m = ((<<1, 1>> :> <<-1, 0>> @@ <<1, 2>> :> <<0, 0>> @@ <<2, 1>> :> <<0, 0>> @@ <<2, 2>> :> <<-2, 0>>))
    )
----

_init ==
    /\ m = _TETrace[1].m
    /\ cm = _TETrace[1].cm
    /\ u = _TETrace[1].u
    /\ v = _TETrace[1].v
    /\ w = _TETrace[1].w
    /\ pc = _TETrace[1].pc
    /\ routine = _TETrace[1].routine
----

_next ==
    /\ \E i,j \in DOMAIN _TETrace:
        /\ \/ /\ j = i + 1
              /\ i = TLCGet("level")
        /\ m  = _TETrace[i].m
        /\ m' = _TETrace[j].m
        /\ cm  = _TETrace[i].cm
        /\ cm' = _TETrace[j].cm
        /\ u  = _TETrace[i].u
        /\ u' = _TETrace[j].u
        /\ v  = _TETrace[i].v
        /\ v' = _TETrace[j].v
        /\ w  = _TETrace[i].w
        /\ w' = _TETrace[j].w
        /\ pc  = _TETrace[i].pc
        /\ pc' = _TETrace[j].pc
        /\ routine  = _TETrace[i].routine
        /\ routine' = _TETrace[j].routine

\* Uncomment the ASSUME below to write the states of the error trace
\* to the given file in Json format. Note that you can pass any tuple
\* to `JsonSerialize`. For example, a sub-sequence of _TETrace.
    \* ASSUME
    \*     LET J == INSTANCE Json
    \*         IN J!JsonSerialize("Linalg_TTrace_1790873404.json", _TETrace)

=============================================================================

 Note that you can extract this module `Linalg_TEExpression`
  to a dedicated file to reuse `expression` (the module in the 
  dedicated `Linalg_TEExpression.tla` file takes precedence 
  over the module `Linalg_TEExpression` below).

---- MODULE Linalg_TEExpression ----
EXTENDS Linalg, Sequences, TLCExt, Toolbox, Naturals, TLC

expression == 
    [
        \* To hide variables of the `Linalg` spec from the error trace,
        \* remove the variables below.  The trace will be written in the order
        \* of the fields of this record.
        m |-> m
        ,cm |-> cm
        ,u |-> u
        ,v |-> v
        ,w |-> w
        ,pc |-> pc
        ,routine |-> routine
        
        \* Put additional constant-, state-, and action-level expressions here:
        \* ,_stateNumber |-> _TEPosition
        \* ,_mUnchanged |-> m = m'
        
        \* Format the `m` variable as Json value.
        \* ,_mJson |->
        \*     LET J == INSTANCE Json
        \*     IN J!ToJson(m)
        
        \* Lastly, you may build expressions over arbitrary sets of states by
        \* leveraging the _TETrace operator.  For example, this is how to
        \* count the number of times a spec variable changed up to the current
        \* state in the trace.
        \* ,_mModCount |->
        \*     LET F[s \in DOMAIN _TETrace] ==
        \*         IF s = 1 THEN 0
        \*         ELSE IF _TETrace[s].m # _TETrace[s-1].m
        \*             THEN 1 + F[s-1] ELSE F[s-1]
        \*     IN F[_TEPosition - 1]
    ]

=============================================================================



Parsing and semantic processing can take forever if the trace below is long.
 In this case, it is advised to uncomment the module below to deserialize the
 trace from a generated binary file.

\*
\*---- MODULE Linalg_TETrace ----
\*EXTENDS Linalg, IOUtils, TLC
\*
\*trace == IODeserialize("Linalg_TTrace_1790873404.bin", TRUE)
\*
\*=============================================================================
\*

---- MODULE Linalg_TETrace ----
EXTENDS Linalg, TLC

trace == 
    <<
    ([pc |-> "backend",routine |-> "fs_hermitian",u |-> (<<1, 1>> :> <<0, 0>> @@ <<1, 2>> :> <<1, 0>> @@ <<2, 1>> :> <<-1, 0>> @@ <<2, 2>> :> <<0, 0>>),v |-> (<<1, 1>> :> <<0, 0>> @@ <<1, 2>> :> <<0, 0>> @@ <<2, 1>> :> <<0, 0>> @@ <<2, 2>> :> <<0, 0>>),w |-> <<-2, -1>>,cm |-> 1,m |-> (<<1, 1>> :> <<-1, 0>> @@ <<1, 2>> :> <<0, 0>> @@ <<2, 1>> :> <<0, 0>> @@ <<2, 2>> :> <<-2, 0>>)]),
    ([pc |-> "done",routine |-> "fs_hermitian",u |-> (<<1, 1>> :> <<0, 0>> @@ <<1, 2>> :> <<-1, 0>> @@ <<2, 1>> :> <<1, 0>> @@ <<2, 2>> :> <<0, 0>>),v |-> (<<1, 1>> :> <<0, 0>> @@ <<1, 2>> :> <<0, 0>> @@ <<2, 1>> :> <<0, 0>> @@ <<2, 2>> :> <<0, 0>>),w |-> <<-2, -1>>,cm |-> 1,m |-> (<<1, 1>> :> <<-1, 0>> @@ <<1, 2>> :> <<0, 0>> @@ <<2, 1>> :> <<0, 0>> @@ <<2, 2>> :> <<-2, 0>>)])
    >>
----


=============================================================================

---- CONFIG Linalg_TTrace_1790873404 ----
CONSTANTS
    N = 2
    VMax = 2
    Bug = "sort_by_value"

INVARIANT
    _inv

CHECK_DEADLOCK
    \* CHECK_DEADLOCK off because of PROPERTY or INVARIANT above.
    FALSE

INIT
    _init

NEXT
    _next

CONSTANT
    _TETrace <- _trace

ALIAS
    _expression
=============================================================================
\* Generated on Thu Oct 01 16:50:06 UTC 2026