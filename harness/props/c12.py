"""C12 - matrix decompositions satisfy their documented factorisation contracts."""
import json
import random

import build
import cases
import core
import tlc


def run(tier, seed):
    cx = core.Ctx("C12", tier, seed, "model_checking")
    for n in ((2,) if tier == "quick" else (2, 3)):
        r = tlc.model_check("Linalg.tla", "Linalg_%d_none.cfg" % n, workers=16, heap="6g")
        cx.add_model(r, "Linalg.tla N=%d: compositions of fs_diagonalize_hermitian / fs_diagonalize_symmetric / fs_svd on exact "
                        "matrices satisfy Contract, Ordered, NonNegative, ScaledUnitary" % n)
    for bug, inv in (("s_only", "Contract"), ("no_transpose", "Contract"), ("no_phase", "Contract"), ("sort_by_value", "Ordered")):
        r = tlc.model_check("Linalg.tla", "Linalg_2_%s.cfg" % bug, expect_violation=inv, workers=8, heap="4g")
        cx.add_model(r, "non-vacuity: convention slip '%s' must violate %s" % (bug, inv))
    cs = [c for c in cases.get("C12") if not (c["pattern"] == "triple" and c["n"] < 3)]
    rnd = random.Random(seed)
    rnd.shuffle(cs)
    reps = 1
    if tier == "quick":
        # stratified: every (routine, scalar, pattern) once in a rotated basis (complex entries, non-trivial vectors) and once in
        # another basis, sizes at random
        strata = {}
        for c in cs:
            strata.setdefault((c["routine"], c["scalar"], c["pattern"], c["basis"] == "rot"), []).append(c)
        cs = [v[0] for k, v in sorted(strata.items())]
    else:
        reps = 8
    exe = build.driver_build("d_linalg")
    cf = cx.path("cases.txt")
    n = 0
    with open(cf, "w") as fh:
        for rep in range(reps):
            for c in cs:
                fh.write("c%d %s %s %d %s %s\n" % (n, c["routine"], c["scalar"], c["n"], c["pattern"], c["basis"]))
                n += 1
    tr = cx.path("trace.ndjson")
    core.run_driver(exe, [cf, tr])
    # balance the shards: interleave the events
    lines = open(tr).read().splitlines()
    nsh = 16
    shards = []
    for k in range(nsh):
        p = "%s.s%02d" % (tr, k)
        open(p, "w").write("\n".join(lines[k::nsh]) + "\n")
        shards.append(p)
    for rep in tlc.validate_traces("Trace_C12.tla", shards, jobs=16, heap="3g", timeout=7200):
        cx.add_report(rep)
        cx.cov["invariant_evaluations"] = cx.cov.get("invariant_evaluations", 0) + rep["extra"]["nchecked"]
    for ln in lines:
        ev = json.loads(ln)
        cx.evaluations += 1
        cx.distinct.add(ev["sig"])
        if len(cx.cov["samples"]) < 3 and ev["n"] == 2:
            cx.sample({"case": ev["sig"], "m": [[core.dy(x[0]), core.dy(x[1])] for x in ev["m"]], "s": [core.dy(x) for x in ev["s"]]})
    cx.cov["abstract_classes"] = len(cs)
    cx.assumptions += ["residual tolerance 512 eps n max|m_ik| (observed <= 29 eps); 2^27 eps for real 3x3 hermitian/symmetric input "
                       "(Eigen computeDirect, observed 1.1e7 eps for exactly degenerate spectra)",
                       "Linalg.tla abstracts the numerical back ends as exact decompositions in their own convention"]
    return cx.finish(rule="classes enumerated by TLC (Cases.tla: C12Cases: routine x real/complex x size 2..4 x spectrum pattern x basis "
                          "class; quick: seeded subset of 420) concretised with random spectra / orthogonal or unitary bases / signed "
                          "permutations; distinct_nontrivial = distinct classes exercised")
