---- MODULE CAPI_TTrace_1790870790 ----
EXTENDS Sequences, TLCExt, Toolbox, CAPI, Naturals, TLC

_expression ==
    LET CAPI_TEExpression == INSTANCE CAPI_TEExpression
    IN CAPI_TEExpression!expression
----

_trace ==
    LET CAPI_TETrace == INSTANCE CAPI_TETrace
    IN CAPI_TETrace!trace
----

_inv ==
    ~(
        TLCGet("level") = Len(_TETrace)
        /\
        hist = (<<[c |-> "New", a |-> "-"], [c |-> "Free", a |-> "-"], [c |-> "New", a |-> "-"], [c |-> "GetTB", a |-> "-"]>>)
        /\
        t = ([st |-> "null", badenum |-> FALSE])
        /\
        aborted = (TRUE)
        /\
        m = ([st |-> "live", tb |-> "unset", calc |-> FALSE])
    )
----

_init ==
    /\ aborted = _TETrace[1].aborted
    /\ m = _TETrace[1].m
    /\ t = _TETrace[1].t
    /\ hist = _TETrace[1].hist
----

_next ==
    /\ \E i,j \in DOMAIN _TETrace:
        /\ \/ /\ j = i + 1
              /\ i = TLCGet("level")
        /\ aborted  = _TETrace[i].aborted
        /\ aborted' = _TETrace[j].aborted
        /\ m  = _TETrace[i].m
        /\ m' = _TETrace[j].m
        /\ t  = _TETrace[i].t
        /\ t' = _TETrace[j].t
        /\ hist  = _TETrace[i].hist
        /\ hist' = _TETrace[j].hist

\* Uncomment the ASSUME below to write the states of the error trace
\* to the given file in Json format. Note that you can pass any tuple
\* to `JsonSerialize`. For example, a sub-sequence of _TETrace.
    \* ASSUME
    \*     LET J == INSTANCE Json
    \*         IN J!JsonSerialize("CAPI_TTrace_1790870790.json", _TETrace)

=============================================================================

 Note that you can extract this module `CAPI_TEExpression`
  to a dedicated file to reuse `expression` (the module in the 
  dedicated `CAPI_TEExpression.tla` file takes precedence 
  over the module `CAPI_TEExpression` below).

---- MODULE CAPI_TEExpression ----
EXTENDS Sequences, TLCExt, Toolbox, CAPI, Naturals, TLC

expression == 
    [
        \* To hide variables of the `CAPI` spec from the error trace,
        \* remove the variables below.  The trace will be written in the order
        \* of the fields of this record.
        aborted |-> aborted
        ,m |-> m
        ,t |-> t
        ,hist |-> hist
        
        \* Put additional constant-, state-, and action-level expressions here:
        \* ,_stateNumber |-> _TEPosition
        \* ,_abortedUnchanged |-> aborted = aborted'
        
        \* Format the `aborted` variable as Json value.
        \* ,_abortedJson |->
        \*     LET J == INSTANCE Json
        \*     IN J!ToJson(aborted)
        
        \* Lastly, you may build expressions over arbitrary sets of states by
        \* leveraging the _TETrace operator.  For example, this is how to
        \* count the number of times a spec variable changed up to the current
        \* state in the trace.
        \* ,_abortedModCount |->
        \*     LET F[s \in DOMAIN _TETrace] ==
        \*         IF s = 1 THEN 0
        \*         ELSE IF _TETrace[s].aborted # _TETrace[s-1].aborted
        \*             THEN 1 + F[s-1] ELSE F[s-1]
        \*     IN F[_TEPosition - 1]
    ]

=============================================================================



Parsing and semantic processing can take forever if the trace below is long.
 In this case, it is advised to uncomment the module below to deserialize the
 trace from a generated binary file.

\*
\*---- MODULE CAPI_TETrace ----
\*EXTENDS IOUtils, CAPI, TLC
\*
\*trace == IODeserialize("CAPI_TTrace_1790870790.bin", TRUE)
\*
\*=============================================================================
\*

---- MODULE CAPI_TETrace ----
EXTENDS CAPI, TLC

trace == 
    <<
    ([hist |-> <<>>,t |-> [st |-> "null", badenum |-> FALSE],aborted |-> FALSE,m |-> [st |-> "null", tb |-> "unset", calc |-> FALSE]]),
    ([hist |-> <<[c |-> "New", a |-> "-"]>>,t |-> [st |-> "null", badenum |-> FALSE],aborted |-> FALSE,m |-> [st |-> "live", tb |-> "unset", calc |-> FALSE]]),
    ([hist |-> <<[c |-> "New", a |-> "-"], [c |-> "Free", a |-> "-"]>>,t |-> [st |-> "null", badenum |-> FALSE],aborted |-> FALSE,m |-> [st |-> "freed", tb |-> "unset", calc |-> FALSE]]),
    ([hist |-> <<[c |-> "New", a |-> "-"], [c |-> "Free", a |-> "-"], [c |-> "New", a |-> "-"]>>,t |-> [st |-> "null", badenum |-> FALSE],aborted |-> FALSE,m |-> [st |-> "live", tb |-> "unset", calc |-> FALSE]]),
    ([hist |-> <<[c |-> "New", a |-> "-"], [c |-> "Free", a |-> "-"], [c |-> "New", a |-> "-"], [c |-> "GetTB", a |-> "-"]>>,t |-> [st |-> "null", badenum |-> FALSE],aborted |-> TRUE,m |-> [st |-> "live", tb |-> "unset", calc |-> FALSE]])
    >>
----


=============================================================================

---- CONFIG CAPI_TTrace_1790870790 ----
CONSTANTS
    MaxCalls = 8
    Protection = "asis"
    Emit = FALSE

INVARIANT
    _inv

CHECK_DEADLOCK
    \* CHECK_DEADLOCK off because of PROPERTY or INVARIANT above.
    FALSE

INIT
    _init

NEXT
    _next

CONSTANT
    _TETrace <- _trace

ALIAS
    _expression
=============================================================================
\* Generated on Thu Oct 01 16:06:31 UTC 2026