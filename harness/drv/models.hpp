// Concretisation of abstract model classes into real GM2Calc objects, and the projection
// functions (complete public state, all public results) used by every driver.
#ifndef GM2VERIF_MODELS_HPP
#define GM2VERIF_MODELS_HPP

#include "trace.hpp"

#include "gm2calc/MSSMNoFV_onshell.hpp"
#include "gm2calc/THDM.hpp"
#include "gm2calc/SM.hpp"
#include "gm2calc/gm2_1loop.hpp"
#include "gm2calc/gm2_2loop.hpp"
#include "gm2calc/gm2_uncertainty.hpp"
#include "gm2calc/gm2_error.hpp"
#include "MSSMNoFV/gm2_1loop_helpers.hpp"
#include "MSSMNoFV/gm2_2loop_helpers.hpp"
#include "gm2_uncertainty_helpers.hpp"
#include "THDM/gm2_1loop_helpers.hpp"
#include "THDM/gm2_2loop_helpers.hpp"

#include <functional>
#include <string>
#include <utility>
#include <vector>

namespace vm {

using NV = std::vector<std::pair<std::string, double>>;

inline std::string named_json(const NV& v) {
   vt::Named n;
   for (const auto& p : v) n.add(p.first, p.second);
   return n.json();
}

// ---------------------------------------------------------------- MSSM

struct MssmPt {
   double aMZ{0.00775531}, a0{0.00729735}, as{0.1184};
   double Mt{173.34}, Mb{4.18}, Mm{0.1056583715}, Mtau{1.777}, MW{80.385}, MZ{91.1876};
   double TB{10}, Mu{350}, M1{150}, M2{300}, M3{1000}, MA0{1500}, Q{454.7};
   double mq2[3], ml2[3], md2[3], mu2[3], me2[3];
   double Au[3]{0, 0, 0}, Ad[3]{0, 0, 0}, Ae[3]{0, 0, 0};
   MssmPt() {
      for (int i = 0; i < 3; ++i) mq2[i] = ml2[i] = md2[i] = mu2[i] = me2[i] = 500.0 * 500.0;
   }
};

// random on-shell-scheme point; lo/hi: mass range of the SUSY scale
inline MssmPt random_mssm(vt::Rng& r, double lo = 300, double hi = 3000,
                          double tb_lo = 1.5, double tb_hi = 80)
{
   MssmPt p;
   p.TB = r.logu(tb_lo, tb_hi);
   p.Mu = r.sign() * r.logu(lo, hi);
   p.M1 = r.sign() * r.logu(lo, hi);
   p.M2 = r.sign() * r.logu(lo, hi);
   p.M3 = r.sign() * r.logu(2 * lo, 2 * hi);
   p.MA0 = r.logu(lo, hi);
   for (int i = 0; i < 3; ++i) {
      const double ml = r.logu(lo, hi), me = r.logu(lo, hi);
      const double mq = r.logu(1.5 * lo, 2 * hi), mu = r.logu(1.5 * lo, 2 * hi), md = r.logu(1.5 * lo, 2 * hi);
      p.ml2[i] = ml * ml; p.me2[i] = me * me; p.mq2[i] = mq * mq; p.mu2[i] = mu * mu; p.md2[i] = md * md;
      // moderate trilinears (avoid tachyons / charge-breaking like spectra)
      p.Ae[i] = r.sign() * r.uni(0, 1.0) * std::min(ml, me);
      p.Au[i] = r.sign() * r.uni(0, 1.0) * std::min(mq, mu);
      p.Ad[i] = r.sign() * r.uni(0, 1.0) * std::min(mq, md);
   }
   double s = std::sqrt(std::sqrt(p.mq2[2] * p.mu2[2]));
   p.Q = s;
   return p;
}

// left-right mixing m_f (A_f - mu tan(beta)) (resp. cot(beta)) below a fifth of m_L m_R in every sfermion sector: no tachyon
// arises from the random choice itself
inline bool mixing_bounded(const MssmPt& p, double frac)
{
   const double mf_l[3] = {0.000511, p.Mm, p.Mtau}, mf_d[3] = {0.0047, 0.096, p.Mb}, mf_u[3] = {0.0022, 1.28, p.Mt};
   for (int i = 0; i < 3; ++i) {
      if (!(mf_l[i] * std::fabs(p.Ae[i] - p.Mu * p.TB) < frac * std::sqrt(p.ml2[i] * p.me2[i]))) return false;
      if (!(mf_d[i] * std::fabs(p.Ad[i] - p.Mu * p.TB) < frac * std::sqrt(p.mq2[i] * p.md2[i]))) return false;
      if (!(mf_u[i] * std::fabs(p.Au[i] - p.Mu / p.TB) < frac * std::sqrt(p.mq2[i] * p.mu2[i]))) return false;
   }
   return true;
}

inline MssmPt valid_mssm(vt::Rng& r, double lo, double hi, double tb_lo, double tb_hi)
{
   for (int tries = 0; tries < 1000; ++tries) {
      MssmPt p = random_mssm(r, lo, hi, tb_lo, tb_hi);
      if (mixing_bounded(p, 0.2)) return p;
   }
   return MssmPt();
}

// wide hierarchies: every mass scale drawn independently over 2.5 decades (light bino, heavy gluino, split
// sleptons ...); left-right mixing kept below half of m_L m_R so that the spectrum exists
inline MssmPt wide_mssm(vt::Rng& r)
{
   for (int tries = 0; tries < 200; ++tries) {
      MssmPt p;
      p.TB = r.logu(1.5, 80);
      p.Mu = r.sign() * r.logu(50, 2e4); p.M1 = r.sign() * r.logu(10, 2e4); p.M2 = r.sign() * r.logu(50, 2e4);
      p.M3 = r.sign() * r.logu(300, 3e4); p.MA0 = r.logu(100, 1e4);
      for (int i = 0; i < 3; ++i) {
         const double ml = r.logu(100, 2e4), me = r.logu(100, 2e4), mq = r.logu(500, 2e4), mu = r.logu(500, 2e4), md = r.logu(500, 2e4);
         p.ml2[i] = ml * ml; p.me2[i] = me * me; p.mq2[i] = mq * mq; p.mu2[i] = mu * mu; p.md2[i] = md * md;
         p.Ae[i] = r.sign() * r.uni(0, 1) * std::min(ml, me); p.Au[i] = r.sign() * r.uni(0, 1) * std::min(mq, mu);
         p.Ad[i] = r.sign() * r.uni(0, 1) * std::min(mq, md);
      }
      p.Q = std::sqrt(std::sqrt(p.mq2[2] * p.mu2[2]));
      const double mf_l[3] = {0.000511, p.Mm, p.Mtau}, mf_d[3] = {0.0047, 0.096, p.Mb}, mf_u[3] = {0.0022, 1.28, p.Mt};
      bool ok = true;
      for (int i = 0; i < 3; ++i) {
         ok = ok && mf_l[i] * std::fabs(p.Ae[i] - p.Mu * p.TB) < 0.5 * std::sqrt(p.ml2[i] * p.me2[i]);
         ok = ok && mf_d[i] * std::fabs(p.Ad[i] - p.Mu * p.TB) < 0.5 * std::sqrt(p.mq2[i] * p.md2[i]);
         ok = ok && mf_u[i] * std::fabs(p.Au[i] - p.Mu / p.TB) < 0.5 * std::sqrt(p.mq2[i] * p.mu2[i]);
      }
      if (ok) return p;
   }
   return random_mssm(r);
}

inline void apply(gm2calc::MSSMNoFV_onshell& m, const MssmPt& p)
{
   const double Pi = 3.141592653589793;
   m.set_alpha_MZ(p.aMZ);
   m.set_alpha_thompson(p.a0);
   m.set_g3(std::sqrt(4 * Pi * p.as));
   m.get_physical().MFt = p.Mt;
   m.get_physical().MFb = p.Mb;
   m.get_physical().MFm = p.Mm;
   m.get_physical().MFtau = p.Mtau;
   m.get_physical().MVWm = p.MW;
   m.get_physical().MVZ = p.MZ;
   m.set_TB(p.TB);
   m.set_Mu(p.Mu);
   m.set_MassB(p.M1);
   m.set_MassWB(p.M2);
   m.set_MassG(p.M3);
   for (int i = 0; i < 3; ++i) {
      m.set_mq2(i, i, p.mq2[i]);
      m.set_ml2(i, i, p.ml2[i]);
      m.set_md2(i, i, p.md2[i]);
      m.set_mu2(i, i, p.mu2[i]);
      m.set_me2(i, i, p.me2[i]);
      m.set_Au(i, i, p.Au[i]);
      m.set_Ad(i, i, p.Ad[i]);
      m.set_Ae(i, i, p.Ae[i]);
   }
   m.set_MA0(p.MA0);
   m.set_scale(p.Q);
}

inline NV pt_fields(const MssmPt& p) {
   NV v{{"TB", p.TB}, {"Mu", p.Mu}, {"M1", p.M1}, {"M2", p.M2}, {"M3", p.M3}, {"MA0", p.MA0}, {"Q", p.Q},
        {"MW", p.MW}, {"MZ", p.MZ}};
   for (int i = 0; i < 3; ++i) {
      const std::string s = std::to_string(i);
      v.push_back({"ml2_" + s, p.ml2[i]}); v.push_back({"me2_" + s, p.me2[i]});
      v.push_back({"mq2_" + s, p.mq2[i]}); v.push_back({"mu2_" + s, p.mu2[i]});
      v.push_back({"md2_" + s, p.md2[i]});
      v.push_back({"Ae_" + s, p.Ae[i]}); v.push_back({"Au_" + s, p.Au[i]}); v.push_back({"Ad_" + s, p.Ad[i]});
   }
   return v;
}

// Exception class of a call, "" if none
template <class F>
std::string exc_class(F&& f) {
   try { f(); }
   catch (const gm2calc::EInvalidInput&) { return "EInvalidInput"; }
   catch (const gm2calc::EPhysicalProblem&) { return "EPhysicalProblem"; }
   catch (const gm2calc::EReadError&) { return "EReadError"; }
   catch (const gm2calc::ESetupError&) { return "ESetupError"; }
   catch (const gm2calc::Error&) { return "Error"; }
   catch (const std::exception&) { return "std::exception"; }
   catch (...) { return "unknown"; }
   return "";
}

using MF = double (*)(const gm2calc::MSSMNoFV_onshell&);

struct MssmFn { const char* name; MF f; };

// every function of the three public headers and of the helper headers returning a scalar
inline const std::vector<MssmFn>& mssm_fns()
{
   using namespace gm2calc;
   static const std::vector<MssmFn> fns = {
      {"amu1L", [](const MSSMNoFV_onshell& m) { return calculate_amu_1loop(m); }},
      {"amu1L_nr", calculate_amu_1loop_non_tan_beta_resummed},
      {"amu1LChi0", amu1LChi0},
      {"amu1LChipm", amu1LChipm},
      {"amu2L", [](const MSSMNoFV_onshell& m) { return calculate_amu_2loop(m); }},
      {"amu2L_nr", calculate_amu_2loop_non_tan_beta_resummed},
      {"amu2LFSfapprox", amu2LFSfapprox},
      {"amu2LFSfapprox_nr", amu2LFSfapprox_non_tan_beta_resummed},
      {"amu2LChipmPhotonic", amu2LChipmPhotonic},
      {"amu2LChi0Photonic", amu2LChi0Photonic},
      {"amu2LaSferm", amu2LaSferm},
      {"amu2LaCha", amu2LaCha},
      {"unc0L", [](const MSSMNoFV_onshell& m) { return calculate_uncertainty_amu_0loop(m); }},
      {"unc1L", [](const MSSMNoFV_onshell& m) { return calculate_uncertainty_amu_1loop(m); }},
      {"unc2L", [](const MSSMNoFV_onshell& m) { return calculate_uncertainty_amu_2loop(m); }},
      {"amu1Lapprox", amu1Lapprox},
      {"amu1Lapprox_nr", amu1Lapprox_non_tan_beta_resummed},
      {"amu1LWHnu", amu1LWHnu},
      {"amu1LWHmuL", amu1LWHmuL},
      {"amu1LBHmuL", amu1LBHmuL},
      {"amu1LBHmuR", amu1LBHmuR},
      {"amu1LBmuLmuR", amu1LBmuLmuR},
      {"delta_mu_correction", delta_mu_correction},
      {"delta_tau_correction", delta_tau_correction},
      {"delta_bottom_correction", delta_bottom_correction},
      {"tan_beta_cor", tan_beta_cor},
      {"amu2LWHnu", amu2LWHnu},
      {"amu2LWHmuL", amu2LWHmuL},
      {"amu2LBHmuL", amu2LBHmuL},
      {"amu2LBHmuR", amu2LBHmuR},
      {"amu2LBmuLmuR", amu2LBmuLmuR},
      {"log_scale", log_scale},
      {"delta_g1", delta_g1},
      {"delta_g2", delta_g2},
      {"delta_yuk_higgsino", delta_yuk_higgsino},
      {"delta_yuk_bino_higgsino", delta_yuk_bino_higgsino},
      {"delta_yuk_wino_higgsino", delta_yuk_wino_higgsino},
      {"delta_tan_beta", delta_tan_beta},
      {"tan_alpha", tan_alpha},
   };
   return fns;
}

inline NV mssm_results(const gm2calc::MSSMNoFV_onshell& m, std::vector<std::string>* thrown = nullptr)
{
   NV v;
   for (const auto& f : mssm_fns()) {
      double x = std::nan("");
      try { x = f.f(m); } catch (...) { x = std::nan(""); if (thrown) thrown->push_back(f.name); }
      v.push_back({f.name, x});
   }
   return v;
}

template <class M>
void push_mat(NV& v, const std::string& n, const M& a) {
   for (int i = 0; i < a.rows(); ++i)
      for (int k = 0; k < a.cols(); ++k)
         v.push_back({n + "_" + std::to_string(i) + std::to_string(k), a(i, k)});
}
template <class M>
void push_cmat(NV& v, const std::string& n, const M& a) {
   for (int i = 0; i < a.rows(); ++i)
      for (int k = 0; k < a.cols(); ++k) {
         v.push_back({n + "_re" + std::to_string(i) + std::to_string(k), std::real(a(i, k))});
         v.push_back({n + "_im" + std::to_string(i) + std::to_string(k), std::imag(a(i, k))});
      }
}

inline NV mssm_masses(const gm2calc::MSSMNoFV_onshell& m)
{
   NV v;
   v.push_back({"MSveL", m.get_MSveL()}); v.push_back({"MSvmL", m.get_MSvmL()}); v.push_back({"MSvtL", m.get_MSvtL()});
   push_mat(v, "MSd", m.get_MSd()); push_mat(v, "MSu", m.get_MSu()); push_mat(v, "MSe", m.get_MSe());
   push_mat(v, "MSm", m.get_MSm()); push_mat(v, "MStau", m.get_MStau()); push_mat(v, "MSs", m.get_MSs());
   push_mat(v, "MSc", m.get_MSc()); push_mat(v, "MSb", m.get_MSb()); push_mat(v, "MSt", m.get_MSt());
   push_mat(v, "Mhh", m.get_Mhh()); push_mat(v, "MAh", m.get_MAh()); push_mat(v, "MHpm", m.get_MHpm());
   push_mat(v, "MChi", m.get_MChi()); push_mat(v, "MCha", m.get_MCha());
   v.push_back({"MGlu", m.get_MGlu()}); v.push_back({"MVWm", m.get_MVWm()}); v.push_back({"MVZ", m.get_MVZ()});
   v.push_back({"MFt", m.get_MFt()}); v.push_back({"MFb", m.get_MFb()}); v.push_back({"MFtau", m.get_MFtau()});
   v.push_back({"MFm", m.get_MFm()});
   return v;
}

// complete public state (projection used for purity / determinism)
inline NV mssm_state(const gm2calc::MSSMNoFV_onshell& m)
{
   NV v = mssm_masses(m);
   v.push_back({"g1", m.get_g1()}); v.push_back({"g2", m.get_g2()}); v.push_back({"g3", m.get_g3()});
   v.push_back({"vd", m.get_vd()}); v.push_back({"vu", m.get_vu()}); v.push_back({"Mu", m.get_Mu()});
   v.push_back({"BMu", m.get_BMu()}); v.push_back({"mHd2", m.get_mHd2()}); v.push_back({"mHu2", m.get_mHu2()});
   v.push_back({"MassB", m.get_MassB()}); v.push_back({"MassWB", m.get_MassWB()}); v.push_back({"MassG", m.get_MassG()});
   v.push_back({"scale", m.get_scale()}); v.push_back({"EL", m.get_EL()}); v.push_back({"EL0", m.get_EL0()});
   v.push_back({"MB", m.get_MB()});
   push_mat(v, "Yu", m.get_Yu()); push_mat(v, "Yd", m.get_Yd()); push_mat(v, "Ye", m.get_Ye());
   push_mat(v, "TYu", m.get_TYu()); push_mat(v, "TYd", m.get_TYd()); push_mat(v, "TYe", m.get_TYe());
   push_mat(v, "mq2", m.get_mq2()); push_mat(v, "ml2", m.get_ml2()); push_mat(v, "md2", m.get_md2());
   push_mat(v, "mu2", m.get_mu2()); push_mat(v, "me2", m.get_me2());
   push_mat(v, "Au", m.get_Au()); push_mat(v, "Ad", m.get_Ad()); push_mat(v, "Ae", m.get_Ae());
   push_mat(v, "ZD", m.get_ZD()); push_mat(v, "ZU", m.get_ZU()); push_mat(v, "ZE", m.get_ZE());
   push_mat(v, "ZM", m.get_ZM()); push_mat(v, "ZTau", m.get_ZTau()); push_mat(v, "ZS", m.get_ZS());
   push_mat(v, "ZC", m.get_ZC()); push_mat(v, "ZB", m.get_ZB()); push_mat(v, "ZT", m.get_ZT());
   push_mat(v, "ZH", m.get_ZH()); push_mat(v, "ZA", m.get_ZA()); push_mat(v, "ZP", m.get_ZP());
   push_cmat(v, "ZN", m.get_ZN()); push_cmat(v, "UM", m.get_UM()); push_cmat(v, "UP", m.get_UP());
   const auto& ph = m.get_physical();
   v.push_back({"p_MVZ", ph.MVZ}); v.push_back({"p_MVWm", ph.MVWm}); v.push_back({"p_MFm", ph.MFm});
   v.push_back({"p_MFt", ph.MFt}); v.push_back({"p_MFb", ph.MFb}); v.push_back({"p_MFtau", ph.MFtau});
   v.push_back({"p_MSvmL", ph.MSvmL}); v.push_back({"p_MGlu", ph.MGlu});
   push_mat(v, "p_MSm", ph.MSm); push_mat(v, "p_MChi", ph.MChi); push_mat(v, "p_MCha", ph.MCha);
   push_mat(v, "p_MAh", ph.MAh); push_mat(v, "p_Mhh", ph.Mhh); push_mat(v, "p_MHpm", ph.MHpm);
   push_mat(v, "p_MStau", ph.MStau); push_mat(v, "p_MSb", ph.MSb); push_mat(v, "p_MSt", ph.MSt);
   push_mat(v, "p_ZM", ph.ZM); push_cmat(v, "p_ZN", ph.ZN); push_cmat(v, "p_UM", ph.UM); push_cmat(v, "p_UP", ph.UP);
   v.push_back({"have_problem", m.get_problems().have_problem() ? 1.0 : 0.0});
   v.push_back({"have_warning", m.get_problems().have_warning() ? 1.0 : 0.0});
   return v;
}

// FNV-1a over the raw bits of a named list (bit-exact state hash, split into 16-bit words)
inline std::vector<long> bits_hash(const NV& v)
{
   std::uint64_t h = 1469598103934665603ULL;
   for (const auto& p : v) {
      std::uint64_t b;
      std::memcpy(&b, &p.second, 8);
      for (int i = 0; i < 8; ++i) { h ^= (b >> (8 * i)) & 0xff; h *= 1099511628211ULL; }
   }
   return {long(h & 0xffff), long((h >> 16) & 0xffff), long((h >> 32) & 0xffff), long((h >> 48) & 0xffff)};
}

// ---------------------------------------------------------------- THDM

struct ThdmPt {
   bool mass_basis{true};
   gm2calc::thdm::Mass_basis mb;
   gm2calc::thdm::Gauge_basis gb;
   gm2calc::SM sm;
   gm2calc::thdm::Config cfg;
};

inline gm2calc::SM default_sm()
{
   gm2calc::SM sm;
   sm.set_alpha_em_mz(1.0 / 128.94579);
   sm.set_mu(2, 173.34);
   sm.set_mu(1, 1.28);
   sm.set_md(2, 4.18);
   sm.set_ml(2, 1.77684);
   return sm;
}

inline Eigen::Matrix<double, 3, 3> rand33(vt::Rng& r, double a) {
   Eigen::Matrix<double, 3, 3> m;
   for (int i = 0; i < 3; ++i) for (int k = 0; k < 3; ++k) m(i, k) = r.uni(-a, a);
   return m;
}

inline ThdmPt random_thdm_mass(vt::Rng& r, int ytype /*1..6*/, bool offdiag = false)
{
   using namespace gm2calc::thdm;
   ThdmPt p;
   p.mass_basis = true;
   p.sm = default_sm();
   Mass_basis& b = p.mb;
   b.yukawa_type = static_cast<Yukawa_type>(ytype);
   b.mh = r.coin() ? 125.0 : r.logu(20, 300);
   b.mH = b.mh + r.logu(5, 1500);
   b.mA = r.logu(20, 2000);
   b.mHp = r.logu(80, 2000);
   b.sin_beta_minus_alpha = 1.0 - r.logu(1e-6, 2e-2);    // near alignment, cos(b-a) >= 0 sector
   b.lambda_6 = r.uni(-0.5, 0.5);
   b.lambda_7 = r.uni(-0.5, 0.5);
   b.tan_beta = r.logu(0.3, 60);
   b.m122 = b.mA * b.mA * b.tan_beta / (1 + b.tan_beta * b.tan_beta) * r.uni(0.5, 1.5);
   if (ytype == 5) { b.zeta_u = r.uni(-1.5, 1.5); b.zeta_d = r.uni(-50, 50); b.zeta_l = r.uni(-100, 100); }
   if (offdiag) {
      if (ytype == 5) { b.Delta_u = rand33(r, 0.05); b.Delta_d = rand33(r, 0.05); b.Delta_l = rand33(r, 0.05); }
      if (ytype == 6) { b.Pi_u = rand33(r, 0.05); b.Pi_d = rand33(r, 0.05); b.Pi_l = rand33(r, 0.05); }
   }
   return p;
}

inline NV thdm_results(const gm2calc::THDM& m)
{
   using namespace gm2calc;
   NV v;
   auto add = [&](const char* n, std::function<double()> f) {
      double x = std::nan("");
      try { x = f(); } catch (...) {}
      v.push_back({n, x});
   };
   add("amu1L", [&] { return calculate_amu_1loop(m); });
   add("amu2L", [&] { return calculate_amu_2loop(m); });
   add("amu2LF", [&] { return calculate_amu_2loop_fermionic(m); });
   add("amu2LB", [&] { return calculate_amu_2loop_bosonic(m); });
   add("unc0L", [&] { return calculate_uncertainty_amu_0loop(m); });
   add("unc1L", [&] { return calculate_uncertainty_amu_1loop(m); });
   add("unc2L", [&] { return calculate_uncertainty_amu_2loop(m); });
   return v;
}

inline NV thdm_state(const gm2calc::THDM& m)
{
   NV v;
   v.push_back({"Mhh0", m.get_Mhh(0)}); v.push_back({"Mhh1", m.get_Mhh(1)});
   v.push_back({"MAh0", m.get_MAh(0)}); v.push_back({"MAh1", m.get_MAh(1)});
   v.push_back({"MHm0", m.get_MHm(0)}); v.push_back({"MHm1", m.get_MHm(1)});
   v.push_back({"MVWm", m.get_MVWm()}); v.push_back({"MVZ", m.get_MVZ()});
   v.push_back({"MVG", m.get_MVG()}); v.push_back({"MVP", m.get_MVP()});
   push_mat(v, "MFu", m.get_MFu()); push_mat(v, "MFd", m.get_MFd()); push_mat(v, "MFe", m.get_MFe());
   push_mat(v, "MFv", m.get_MFv());
   v.push_back({"tan_beta", m.get_tan_beta()}); v.push_back({"beta", m.get_beta()});
   v.push_back({"alpha_h", m.get_alpha_h()}); v.push_back({"sba", m.get_sin_beta_minus_alpha()});
   v.push_back({"cba", m.get_cos_beta_minus_alpha()}); v.push_back({"eta", m.get_eta()});
   v.push_back({"alpha_em", m.get_alpha_em()}); v.push_back({"v", m.get_v()}); v.push_back({"v_sqr", m.get_v_sqr()});
   v.push_back({"lambda1", m.get_lambda1()}); v.push_back({"lambda2", m.get_lambda2()});
   v.push_back({"lambda3", m.get_lambda3()}); v.push_back({"lambda4", m.get_lambda4()});
   v.push_back({"lambda5", m.get_lambda5()}); v.push_back({"lambda6", m.get_lambda6()});
   v.push_back({"lambda7", m.get_lambda7()}); v.push_back({"LambdaFive", m.get_LambdaFive()});
   v.push_back({"LambdaSixSeven", m.get_LambdaSixSeven()}); v.push_back({"m122", m.get_m122()});
   v.push_back({"g1", m.get_g1()}); v.push_back({"g2", m.get_g2()});
   v.push_back({"v1", m.get_v1()}); v.push_back({"v2", m.get_v2()});
   push_mat(v, "ZH", m.get_ZH()); push_mat(v, "ZA", m.get_ZA()); push_mat(v, "ZP", m.get_ZP());
   push_cmat(v, "Gamma_u", m.get_Gamma_u()); push_cmat(v, "Gamma_d", m.get_Gamma_d()); push_cmat(v, "Gamma_l", m.get_Gamma_l());
   push_cmat(v, "Pi_u", m.get_Pi_u()); push_cmat(v, "Pi_d", m.get_Pi_d()); push_cmat(v, "Pi_l", m.get_Pi_l());
   push_cmat(v, "Vu", m.get_Vu()); push_cmat(v, "Uu", m.get_Uu()); push_cmat(v, "Vd", m.get_Vd());
   push_cmat(v, "Ud", m.get_Ud()); push_cmat(v, "Ve", m.get_Ve()); push_cmat(v, "Ue", m.get_Ue());
   auto tryz = [&](const char* n, std::function<double()> f) {
      double x = std::nan(""); try { x = f(); } catch (...) {} v.push_back({n, x});
   };
   tryz("zeta_u", [&] { return m.get_zeta_u(); });
   tryz("zeta_d", [&] { return m.get_zeta_d(); });
   tryz("zeta_l", [&] { return m.get_zeta_l(); });
   const gm2calc::SM& sm = m.get_sm();
   v.push_back({"sm_mw", sm.get_mw()}); v.push_back({"sm_mz", sm.get_mz()}); v.push_back({"sm_mh", sm.get_mh()});
   v.push_back({"sm_aem0", sm.get_alpha_em_0()}); v.push_back({"sm_aemmz", sm.get_alpha_em_mz()});
   v.push_back({"sm_as", sm.get_alpha_s_mz()});
   push_mat(v, "sm_mu", sm.get_mu()); push_mat(v, "sm_md", sm.get_md()); push_mat(v, "sm_ml", sm.get_ml());
   push_mat(v, "sm_mv", sm.get_mv()); push_cmat(v, "sm_ckm", sm.get_ckm());
   v.push_back({"have_problem", m.get_problems().have_problem() ? 1.0 : 0.0});
   v.push_back({"have_warning", m.get_problems().have_warning() ? 1.0 : 0.0});
   return v;
}

// parameter structs of the helper entry points, filled from the public getters exactly as
// src/THDM/gm2_{1,2}loop.cpp do (needed to observe the documented sub-parts and, for C11, to
// place masses exactly on a coincidence)
inline gm2calc::thdm::THDM_B_parameters thdm_B_pars(const gm2calc::THDM& model)
{
   gm2calc::thdm::THDM_B_parameters p;
   p.alpha_em = model.get_alpha_em(); p.mm = model.get_MFe(1); p.mw = model.get_MVWm(); p.mz = model.get_MVZ();
   p.mhSM = model.get_sm().get_mh(); p.mA = model.get_MAh(1); p.mHp = model.get_MHm(1); p.mh = model.get_Mhh();
   p.tb = model.get_tan_beta(); p.zetal = model.get_zeta_l();
   p.cos_beta_minus_alpha = model.get_cos_beta_minus_alpha();
   p.lambda5 = model.get_LambdaFive(); p.lambda67 = model.get_LambdaSixSeven();
   return p;
}

inline gm2calc::thdm::THDM_F_parameters thdm_F_pars(const gm2calc::THDM& model)
{
   gm2calc::thdm::THDM_F_parameters p;
   p.alpha_em = model.get_alpha_em(); p.mm = model.get_MFe(1); p.mw = model.get_MVWm(); p.mz = model.get_MVZ();
   p.mhSM = model.get_sm().get_mh(); p.mA = model.get_MAh(1); p.mHp = model.get_MHm(1); p.mh = model.get_Mhh();
   p.ml = model.get_MFe(); p.mu = model.get_MFu(); p.md = model.get_MFd();
   p.yuh = model.get_yuh(); p.yuH = model.get_yuH(); p.yuA = model.get_yuA(); p.yuHp = model.get_yuHp();
   p.ydh = model.get_ydh(); p.ydH = model.get_ydH(); p.ydA = model.get_ydA(); p.ydHp = model.get_ydHp();
   p.ylh = model.get_ylh(); p.ylH = model.get_ylH(); p.ylA = model.get_ylA(); p.ylHp = model.get_ylHp();
   p.vckm = model.get_sm().get_ckm();
   return p;
}

inline gm2calc::thdm::THDM_1L_parameters thdm_1L_pars(const gm2calc::THDM& model)
{
   gm2calc::thdm::THDM_1L_parameters p;
   p.alpha_em = model.get_alpha_em(); p.mm = model.get_MFe(1); p.mw = model.get_MVWm(); p.mz = model.get_MVZ();
   p.mhSM = model.get_sm().get_mh(); p.mA = model.get_MAh(1); p.mHp = model.get_MHm(1);
   p.ml = model.get_MFe(); p.mv = model.get_MFv(); p.mh = model.get_Mhh();
   p.ylh = model.get_ylh(); p.ylH = model.get_ylH(); p.ylA = model.get_ylA(); p.ylHp = model.get_ylHp();
   return p;
}

// documented sub-parts of the THDM two-loop result
inline NV thdm_parts(const gm2calc::THDM& m)
{
   NV v;
   try {
      const auto pb = thdm_B_pars(m);
      const auto pf = thdm_F_pars(m);
      v.push_back({"B", gm2calc::thdm::amu2L_B(pb)}); v.push_back({"B_EWadd", gm2calc::thdm::amu2L_B_EWadd(pb)});
      v.push_back({"B_nonYuk", gm2calc::thdm::amu2L_B_nonYuk(pb)}); v.push_back({"B_Yuk", gm2calc::thdm::amu2L_B_Yuk(pb)});
      v.push_back({"F", gm2calc::thdm::amu2L_F(pf)}); v.push_back({"F_charged", gm2calc::thdm::amu2L_F_charged(pf)});
      v.push_back({"F_neutral", gm2calc::thdm::amu2L_F_neutral(pf)});
      v.push_back({"amu1L_pars", gm2calc::thdm::amu1L(thdm_1L_pars(m))});
   } catch (...) {}
   return v;
}

inline NV thdm_yukawas(const gm2calc::THDM& m)
{
   NV v;
   push_cmat(v, "yuh", m.get_yuh()); push_cmat(v, "yuH", m.get_yuH()); push_cmat(v, "yuA", m.get_yuA()); push_cmat(v, "yuHp", m.get_yuHp());
   push_cmat(v, "ydh", m.get_ydh()); push_cmat(v, "ydH", m.get_ydH()); push_cmat(v, "ydA", m.get_ydA()); push_cmat(v, "ydHp", m.get_ydHp());
   push_cmat(v, "ylh", m.get_ylh()); push_cmat(v, "ylH", m.get_ylH()); push_cmat(v, "ylA", m.get_ylA()); push_cmat(v, "ylHp", m.get_ylHp());
   return v;
}

} // namespace vm

#endif
