"""C15 - every reported number is consistent with every other report of the same quantity."""
import decimal
import json
import os
import random
import re
from concurrent.futures import ThreadPoolExecutor

import build
import cases
import cli
import core
import tlc
import writer

SCI = re.compile(r"(?<![\w.])(-?\d\.\d{8}e[-+]\d{2,3}|-?nan|-?inf)(?![\w.%])")
PCT = re.compile(r"\(\s*(-?\d+\.\d|-?nan|-?inf)%")


def dec(text):
    t = text.strip().lower()
    if "nan" in t:
        return {"k": "nan", "s": 0, "n": [], "e10": 0}
    if "inf" in t:
        return {"k": "inf", "s": -1 if t.startswith("-") else 1, "n": [], "e10": 0}
    sign, digits, exp = decimal.Decimal(t).as_tuple()
    n = int("".join(map(str, digits)))
    limbs = []
    while n:
        limbs.append(n % 32768)
        n //= 32768
    return {"k": "fin", "s": 0 if not limbs else (-1 if sign else 1), "n": limbs, "e10": exp}


PREFILL = ("Block LOWEN\n     6   1.11111111E-09   # old value\n    61   2.22222222E-09   # another entry\n    62   3.33333333E-09\n"
           "Block SPhenoLowEnergy\n    20   4.44444444E-10   # (g-2)_e\n    21   5.55555555E-09   # old value\n    22   6.66666666E-15\n    23   7.7E-01\n"
           "Block GM2CalcOutput\n     0   8.88888888E-09   # old value\n     1   9.9E-10\n     5   1.2E-03   # further entry\n")


def lines_tokens(text, drop_blocks=(), drop_slots=()):
    out, cur, skip = [], None, False
    for ln in text.splitlines():
        f = ln.split()
        if not f:
            continue
        g = ln.split("#", 1)[0].split()
        if g and g[0].upper() in ("BLOCK", "DECAY") and len(g) > 1:
            cur = g[1].upper()
            skip = cur in drop_blocks
        if not skip and not (cur is not None and g and (cur, g[0]) in drop_slots):
            out.append(" ".join(f))
    return out


def inputs(tier):
    repo = build.REPO
    ins = [("slha", os.path.join(repo, "input", "example.slha")), ("gm2calc", os.path.join(repo, "input", "example.gm2")),
           ("thdm", os.path.join(repo, "input", "example.thdm"))]
    tp = os.path.join(repo, "test", "test_points")
    extra = {"quick": ["problems_hmix_scale.in:slha", "BM3-1504.05500_2L_resummed.in:gm2calc", "thdm_gauge-basis.in:thdm",
                       "P1a_2L_resummed_diploma_thesis_Markus_Bach.in:gm2calc", "thdm_mass-basis_test_point_5.in:thdm"]}
    if tier == "quick":
        for e in extra["quick"]:
            f, t = e.split(":")
            ins.append((t, os.path.join(tp, f)))
    else:
        import subprocess
        sh = open(os.path.join(repo, "test", "test_points.sh")).read()
        for m in re.finditer(r"test_points/([\w.\-]+\.in),(\w+),", sh):
            ins.append((m.group(2), os.path.join(tp, m.group(1))))
    return ins


def run(tier, seed):
    cx = core.Ctx("C15", tier, seed, "model_checking")
    rnd = random.Random(seed)
    r = tlc.model_check("CLI.tla", "CLI_full.cfg", workers=16, heap="8g")
    cx.add_model(r, "CLI.tla CLI_full.cfg: SlotsAsDocumented / DefaultFormat over all 480 option vectors x 3 input types")
    allopts = cases.get("C15")
    assert len(allopts) == 480
    if tier == "quick":
        # every format x loop x unc x tb (60) with the remaining flags drawn at random
        opts = []
        for f in range(5):
            for lp in range(3):
                for unc in (False, True):
                    for tb in (False, True):
                        cand = [o for o in allopts if o["fmt"] == f and o["loop"] == lp and o["unc"] == unc and o["tb"] == tb]
                        opts.append(rnd.choice(cand))
    else:
        opts = allopts
    exe = build.gm2calc_x("plain")
    api = build.driver_build("d_api")
    fdir = cx.path("in")
    os.makedirs(fdir)
    ins = inputs(tier)
    jobs, apijobs = [], []
    ins = [(t, p) for t, p in ins
           if not {n for n, _ in cli.slha_blocks(open(p, errors="replace").read())} & {"SPINFO", "GM2CALCOUTPUT", "LOWEN", "SPHENOLOWENERGY"}]
    for bi, (t, path) in enumerate(ins):
        base = cli.strip_config(open(path, errors="replace").read())
        bpath = os.path.join(fdir, "b%02d.in" % bi)
        open(bpath, "w").write(base)
        for force in (0, 1):
            for running in ((0, 1) if t == "thdm" else (1,)):
                apijobs.append("b%02d#f%dr%d %s %s %d %d" % (bi, force, running, t, bpath, force, running))
        for oi, o in enumerate(opts):
            cfg = "Block GM2CalcConfig\n 0 %d\n 1 %d\n 2 %d\n 3 %d\n 4 %d\n 5 %d\n 6 %d\n" % (
                o["fmt"], o["loop"], o["tb"], o["force"], o["verbose"], o["unc"], o["running"])
            p = os.path.join(fdir, "b%02d_o%03d.in" % (bi, oi))
            open(p, "w").write(base + cfg)
            jobs.append((bi, t, path, o, p, base + cfg))
    jf = cx.path("apijobs.txt")
    open(jf, "w").write("\n".join(apijobs) + "\n")
    araw = cx.path("api.ndjson")
    core.run_driver(api, [jf, araw], timeout=3000)
    apis = {}
    for ln in open(araw):
        ev = json.loads(ln)
        apis[ev["id"]] = ev

    def do(j):
        return cli.run(exe, ["--%s-input-file=%s" % (j[1], j[4])], timeout=120)
    with ThreadPoolExecutor(max_workers=16) as ex:
        results = list(ex.map(do, jobs))
    tr = cx.path("trace.ndjson")
    result_blocks = ("SPINFO", "GM2CALCOUTPUT", "LOWEN", "SPHENOLOWENERGY")
    with open(tr, "w") as fh:
        last_bi = None
        for j, r in zip(jobs, results):
            bi, t, path, o, p, text = j
            if bi != last_bi:
                first = True
                for force in (0, 1):
                    for running in ((0, 1) if t == "thdm" else (1,)):
                        a = apis["b%02d#f%dr%d" % (bi, force, running)]
                        fh.write(json.dumps({"e": "Api", "case": "b%02d" % bi, "key": "f%dr%d" % (force, running), "first": first,
                                             "itype": t, "exc": a["exc"], "thr": a.get("thr", []), "res": a["res"], "problem": a["problem"],
                                             "sig": "api/%s/%s" % (t, os.path.basename(path))}) + "\n")
                        first = False
                last_bi = bi
            out = r["stdout"]
            kinds = cli.classify(out)
            slots, sci, pct = {}, [], []
            if kinds == ["number"]:
                slots["number"] = dec(out)
            elif kinds == ["report"]:
                sci = [dec(m) for m in SCI.findall(out)]
                pct = [dec(m) for m in PCT.findall(out)]
            elif "echo" in kinds:
                for name, lines in cli.slha_blocks(out):
                    for k, rest in lines:
                        if (name, k) in cli.RESULT_SLOTS and rest:
                            slots.setdefault("%s_%s" % (cli.PRETTY[name], k), dec(rest[0]))
            inblocks = {n for n, _ in cli.slha_blocks(text)}
            drop = tuple(b for b in result_blocks if b not in inblocks)
            running = o["running"] if t == "thdm" else True
            ev = {"e": "Out", "case": "b%02d" % bi, "akey": "f%dr%d" % (o["force"], running), "t": t, "o": o,
                  "exit": r["exit"], "signal": r["signal"], "kinds": kinds, "slots": slots, "sci": sci, "pct": pct,
                  "echoIn": lines_tokens(text, drop) if "echo" in kinds else [],
                  "echoOut": lines_tokens(out, drop) if "echo" in kinds else [],
                  "ckey": "l%d t%d f%d r%d" % (o["loop"], o["tb"] if t != "thdm" else 1, o["force"], running),
                  "sig": "%s/fmt%d/%s" % (t, o["fmt"], os.path.basename(path))}
            fh.write(json.dumps(ev) + "\n")
            cx.evaluations += 1
            cx.distinct.add((path, json.dumps(o, sort_keys=True)))
        # inputs that already carry result blocks (as written by a spectrum generator): echo must keep all other lines
        slots_of = {2: (("LOWEN", "6"),), 3: (("SPHENOLOWENERGY", "21"),), 4: (("GM2CALCOUTPUT", "0"), ("GM2CALCOUTPUT", "1"))}
        pj = []
        for bi, (t, path) in enumerate(ins):
            base = cli.strip_config(open(path, errors="replace").read())
            for fmt in (2, 3, 4):
                for unc in (0, 1):
                    text = base + PREFILL + "Block GM2CalcConfig\n 0 %d\n 5 %d\n" % (fmt, unc)
                    pp = os.path.join(fdir, "p%02d_f%d_u%d.in" % (bi, fmt, unc))
                    open(pp, "w").write(text)
                    pj.append((t, path, fmt, unc, pp, text))
        with ThreadPoolExecutor(max_workers=16) as ex:
            pres = list(ex.map(lambda j: cli.run(exe, ["--%s-input-file=%s" % (j[0], j[4])], timeout=120), pj))
        for (t, path, fmt, unc, pp, text), r in zip(pj, pres):
            out = r["stdout"]
            produced = "echo" in cli.classify(out)
            present = any(name == slots_of[fmt][0][0] and k == slots_of[fmt][0][1] for name, lines in cli.slha_blocks(out) for k, _ in lines)
            fh.write(json.dumps({"e": "Prefilled", "fmt": fmt, "produced": produced, "slotPresent": present,
                                 # the uncertainty goes to GM2CalcOutput[1] in every SLHA format (README)
                                 "echoIn": lines_tokens(text, ("SPINFO", "GM2CALCCONFIG"), slots_of[fmt] + ((("GM2CALCOUTPUT", "1"),) if unc else ())),
                                 "echoOut": lines_tokens(out, ("SPINFO", "GM2CALCCONFIG"), slots_of[fmt] + ((("GM2CALCOUTPUT", "1"),) if unc else ())),
                                 "sig": "prefilled/%s/fmt%d/u%d/%s" % (t, fmt, unc, os.path.basename(path))}) + "\n")
            cx.evaluations += 1
            if len(cx.cov["samples"]) < 3 and o["fmt"] in (0, 4):
                cx.sample({"input": os.path.basename(path), "options": o, "stdout_kinds": kinds,
                           "stdout_head": out[:160]})
    shards = tlc.split_trace(tr, 16 if tier == "thorough" else 8, group_key="case")
    for rep in tlc.validate_traces("Trace_C15.tla", shards, jobs=16, cfg="Trace_TR.cfg", heap="3g"):
        cx.add_report(rep)
        cx.cov["invariant_evaluations"] = cx.cov.get("invariant_evaluations", 0) + rep["extra"]["nchecked"]
    # the output document as a state machine (SLHAWriter.tla): model check, wrong variants, conformance of the library
    r = tlc.model_check("SLHAWriter.tla", "SLHAWriter_asis.cfg" if tier == "thorough" else "SLHAWriter_asis1.cfg", workers=16, heap="6g")
    cx.add_model(r, "SLHAWriter.tla: EchoOthers / WriterSeesResult / ReaderSeesResult / BlockPlacement / Idempotent over all "
                    "4033 bounded input documents and %d operations" % (2 if tier == "thorough" else 1))
    for v, inv in (("erase_following", "EchoOthers"), ("append_always", "Idempotent"), ("last_block", "WriterSeesResult")):
        tlc.model_check("SLHAWriter.tla", "SLHAWriter_%s.cfg" % v, expect_violation=inv, workers=4, heap="4g")
    writer.run(cx, tier, rnd)
    cx.cov["inputs"] = len(ins)
    cx.cov["option_vectors_per_input"] = len(opts)
    cx.assumptions += ["decimal parsing of stdout (harness/props/c15.py: dec) and the stdout abstraction of harness/lib/cli.py",
                       "the API model is built by harness/drv/d_api.cpp with the same library calls as gm2calc.x's readers"]
    return cx.finish(rule="each input x GM2CalcConfig option vector (TLC: Cases.tla C15Opts, all 480 in the thorough tier, a "
                          "covering subset of 60 in the quick tier) run through gm2calc.x; API values for the same input from "
                          "the library; distinct_nontrivial = distinct (input, option vector)",
                     exhaustive=(tier == "thorough"))
