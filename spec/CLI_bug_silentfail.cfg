SPECIFICATION Spec
CONSTANTS
  Bug = "silentfail"
  MaxArgs = 2
  MaxCfg = 1
  CfgMode = "seq"
INVARIANTS TypeOK ExitStatus Diagnosed StdoutClean ExitAllowed NoDiagnosticOnStdout SlotsAsDocumented DefaultFormat ExitIffRefusedOrProblem
CHECK_DEADLOCK FALSE
