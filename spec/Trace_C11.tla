------------------------------ MODULE Trace_C11 ------------------------------
(***************************************************************************)
(* C11 - no spurious singularities.  A path is recorded as                 *)
(*   Point(case, sig, di, d, m, v)*  the contributions v (a record         *)
(*       name -> number) with one mass at m = m0 (1 + d), for the 23       *)
(*       offsets d = -1e-3, ..., -1e-13, 0, 1e-13, ..., 1e-3 (di = 0..22)  *)
(*   PathEnd(case, sig, exc)         exc # "" voids the path (an offset    *)
(*       was refused by the model constructor)                             *)
(* The coincidence m0 (m = a, 2a, a/2, a + b, |a - b| over the masses of   *)
(* the point) is one of the TLC-enumerated cases of Regimes.tla.           *)
(*                                                                         *)
(* At PathEnd, for every quantity q of the path (exact arithmetic on the   *)
(* logged doubles):                                                        *)
(*   Finite:q   all 23 values are finite numbers                           *)
(*   Band:q     if the path is usable, |v(+h) - v(-h)| <= 0.2 S with       *)
(*              S = max(|v(+h)|, |v(-h)|), h = 1e-3, then for every offset *)
(*              |v(d) - L(d)| <= 0.01 S,  L the line through (-h, v(-h))   *)
(*              and (+h, v(+h)); stated without division as                *)
(*              |2h (v(d) - v(-h)) - (v(+h) - v(-h)) (d + h)| <= 0.01 S 2h *)
(*              (uncertainties: only on paths where a_mu^1L and a_mu^2L    *)
(*              keep their sign, see Smooth)                               *)
(***************************************************************************)
EXTENDS TraceBase, Dyadic

VARIABLES l, pts, viol, nchecked, nusable
vars == <<l, pts, viol, nchecked, nusable>>

NPts == 23
Init == l = 1 /\ pts = << >> /\ viol = << >> /\ nchecked = 0 /\ nusable = 0

TPoint ==
  /\ l <= NLines /\ TraceLog[l].e = "Point"
  /\ pts' = Append(pts, TraceLog[l])
  /\ l' = l + 1 /\ UNCHANGED <<viol, nchecked, nusable>>

\* the a_mu contributions and uncertainties among the logged names (the MSSM driver logs every public function;
\* log_scale = min(|M1|, |M2|, |mu|, m_L, m_E) of Eq.(6.5) arXiv:1311.1775 and the Delta corrections built on it have
\* the kink of min(.) by definition and are not contributions)
IsContribution(q) == \/ (Len(q) >= 3 /\ SubSeq(q, 1, 3) \in {"amu", "unc"})
                     \/ (Len(q) >= 2 /\ SubSeq(q, 1, 2) \in {"B_", "F_"})
Names(p) == {q \in DOMAIN p[1].v : IsContribution(q)}
AllFinite(p, q) == \A i \in 1..Len(p) : IsFin(p[i].v[q])
Scale(p, q) == Max2(Abs(p[1].v[q]), Abs(p[NPts].v[q]))
\* usable: the contribution changes by at most 20 % between the ends (property).  On MSSM paths (component "S") a
\* Lagrangian parameter is moved, which moves several masses at once; there a steep but smooth dependence (e.g. a stau
\* driven light by mu tan(beta)) bends the curve by more than 1 % of its size within the window although nothing is
\* singular, so only paths with at most 5 % change are asserted (a smaller set of paths, never a weaker band).
IsParamPath(p) == Len(p[1].sig) >= 2 /\ SubSeq(p[1].sig, 1, 2) = "S/"
Usable(p, q) ==
  /\ IsFin(p[1].v[q]) /\ IsFin(p[NPts].v[q])
  /\ Lt(Zero, Scale(p, q))
  /\ Le(Mul(OfInt(IF IsParamPath(p) THEN 20 ELSE 5), Abs(Sub(p[NPts].v[q], p[1].v[q]))), Scale(p, q))
InBand(p, q, i) ==
  LET vm == p[1].v[q]   vp == p[NPts].v[q]
      h2 == Sub(p[NPts].d, p[1].d)                                 \* 2h
      lhs == Abs(Sub(Mul(h2, Sub(p[i].v[q], vm)), Mul(Sub(vp, vm), Sub(p[i].d, p[1].d))))
  IN IsFin(p[i].v[q]) => Le(Mul(OfInt(100), lhs), Mul(Scale(p, q), h2))
\* The uncertainty estimates are sums of magnitudes |a_mu^1L|, |a_mu^2L| (gm2_uncertainty.cpp): where one of these
\* crosses zero on the path the estimate has the kink of |.|, which is its documented definition and no singularity;
\* the straight-line band is asserted for them on paths where the contributions keep their sign.
SignStable(p, q) == \/ \A i \in 1..Len(p) : IsFin(p[i].v[q]) => Le(Zero, p[i].v[q])
                    \/ \A i \in 1..Len(p) : IsFin(p[i].v[q]) => Le(p[i].v[q], Zero)
IsUnc(q) == q \in {"unc0L", "unc1L", "unc2L"}
Smooth(p, q) == IsUnc(q) => \A c \in {"amu1L", "amu2L"} \cap DOMAIN p[1].v : SignStable(p, c)
\* The MSSM two-loop fermion/sfermion logarithms use m_SUSY = min(|M1|, |M2|, |mu|, m_L, m_E) (Eq.(6.5) arXiv:1311.1775,
\* log_scale): where the moved parameter takes over the minimum the two-loop results have the kink of min(.) by
\* definition.  log_scale itself is logged; the band is asserted for the quantities built on it on paths where
\* log_scale follows its own chord (to 1e-6), i.e. where the minimum does not change hands.
ScaleDependent(q) == q \in {"amu2L", "amu2L_nr", "amu2LFSfapprox", "amu2LFSfapprox_nr", "amu2LWHnu", "amu2LWHmuL", "amu2LBHmuL",
                            "amu2LBHmuR", "amu2LBmuLmuR", "unc0L", "unc1L", "unc2L"}
OnChord(p, q, i, tolDen) ==
  LET vm == p[1].v[q]   vp == p[NPts].v[q]
      h2 == Sub(p[NPts].d, p[1].d)
      lhs == Abs(Sub(Mul(h2, Sub(p[i].v[q], vm)), Mul(Sub(vp, vm), Sub(p[i].d, p[1].d))))
  IN IsFin(p[i].v[q]) => Le(Mul(tolDen, lhs), Mul(Scale(p, q), h2))
NoKinkOfMin(p, q) == (ScaleDependent(q) /\ "log_scale" \in DOMAIN p[1].v /\ AllFinite(p, "log_scale"))
                        => \A i \in 2..(NPts - 1) : OnChord(p, "log_scale", i, TenPow(6))
Band(p, q) == (Usable(p, q) /\ Smooth(p, q) /\ NoKinkOfMin(p, q)) => \A i \in 2..(NPts - 1) : InBand(p, q, i)

\* sequence of the names of a record's domain (any order)
RECURSIVE SetToSeq(_)
SetToSeq(S) == IF S = {} THEN << >> ELSE LET x == CHOOSE x \in S : TRUE IN <<x>> \o SetToSeq(S \ {x})

RECURSIVE PathInvs(_, _)
PathInvs(p, qs) ==
  IF qs = << >> THEN << >>
  ELSE << I("Finite:" \o Head(qs), AllFinite(p, Head(qs))), I("Band:" \o Head(qs), Band(p, Head(qs))) >> \o PathInvs(p, Tail(qs))

RECURSIVE CountUsable(_, _)
CountUsable(p, qs) == IF qs = << >> THEN 0 ELSE (IF Usable(p, Head(qs)) THEN 1 ELSE 0) + CountUsable(p, Tail(qs))

TPathEnd ==
  /\ l <= NLines /\ TraceLog[l].e = "PathEnd"
  /\ LET ev == TraceLog[l]
         complete == ev.exc = "" /\ Len(pts) = NPts /\ \A i \in 1..NPts : pts[i].case = ev.case /\ pts[i].di = i - 1
         qs == IF complete THEN SetToSeq(Names(pts)) ELSE << >>
         invs == (IF ev.exc = "" THEN << I("PathComplete", complete) >> ELSE << >>) \o PathInvs(pts, qs)
     IN /\ viol' = viol \o Failed(invs, l, ev.sig) /\ nchecked' = nchecked + Len(invs)
        /\ nusable' = nusable + CountUsable(pts, qs)
  /\ pts' = << >> /\ l' = l + 1

Next == TPoint \/ TPathEnd
Spec == Init /\ [][Next]_vars
Report == l = NLines + 1 => WriteReport(l, viol, [nchecked |-> nchecked, nusable |-> nusable])
=============================================================================
