// THDM / SM driver: concretises abstract cases into real gm2calc::THDM objects and records
// what the public API returns.  No comparison is made here.
//
// usage: d_thdm <mode> <casefile> <tracefile>        (seed from VERIF_SEED)
#include "models.hpp"
#include "gm2_mf.hpp"

#include <fstream>
#include <iostream>
#include <memory>
#include <sstream>

using namespace gm2calc;
using vm::NV;
using vm::ThdmPt;

namespace {

std::vector<std::vector<std::string>> read_cases(const char* path)
{
   std::vector<std::vector<std::string>> cases;
   std::ifstream in(path);
   std::string line;
   while (std::getline(in, line)) {
      std::istringstream is(line);
      std::vector<std::string> f;
      std::string t;
      while (is >> t) f.push_back(t);
      if (!f.empty()) cases.push_back(f);
   }
   return cases;
}

struct Built {
   std::unique_ptr<THDM> model;
   std::string exc;
};

Built build(const ThdmPt& p)
{
   Built b;
   b.exc = vm::exc_class([&] {
      if (p.mass_basis) b.model.reset(new THDM(p.mb, p.sm, p.cfg));
      else b.model.reset(new THDM(p.gb, p.sm, p.cfg));
   });
   return b;
}

// ---- C18 -------------------------------------------------------------------------------
void run_c18(const std::vector<std::vector<std::string>>& cases, vt::Rng& rng)
{
   for (const auto& c : cases) {
      const std::string& id = c.at(0);
      const std::string& cls = c.at(1);
      ThdmPt p = vm::random_thdm_mass(rng, 1 + rng.below(6), rng.coin());
      if (cls == "heavy") {
         p.mb.mH = rng.logu(2000, 10000); p.mb.mA = rng.logu(2000, 10000); p.mb.mHp = rng.logu(2000, 10000);
         p.mb.m122 = p.mb.mA * p.mb.mA * p.mb.tan_beta / (1 + p.mb.tan_beta * p.mb.tan_beta);
      } else if (cls == "lightNP") {
         // new-physics scale near (and below) the muon mass: the logarithm in the 2L uncertainty changes sign
         p.mb.mA = rng.logu(0.03, 1.0);
         p.mb.m122 = rng.uni(-100, 100);
      } else if (cls == "cancel") {
         // large tan(beta) type II/X: 1L (negative from A/H) against 2L Barr-Zee (positive from A)
         p.mb.yukawa_type = rng.coin() ? thdm::Yukawa_type::type_2 : thdm::Yukawa_type::type_X;
         p.mb.tan_beta = rng.logu(20, 100);
         p.mb.mA = rng.logu(15, 80);
      }
      p.cfg.running_couplings = rng.coin();
      Built b = build(p);
      vt::Ev ev("Unc");
      ev.str("model", "thdm").str("case", id).str("sig", "thdm/" + cls).str("exc", b.exc);
      if (b.exc.empty()) {
         const THDM& m = *b.model;
         const double a1 = calculate_amu_1loop(m);
         const double a2 = calculate_amu_2loop(m);
         ev.num("a1L", a1).num("a2L", a2)
           .num("u0", calculate_uncertainty_amu_0loop(m))
           .num("u1", calculate_uncertainty_amu_1loop(m))
           .num("u2", calculate_uncertainty_amu_2loop(m))
           .num("u0h", calculate_uncertainty_amu_0loop(m, a1, a2))
           .num("u1h", calculate_uncertainty_amu_1loop(m, a1, a2))
           .num("u2h", calculate_uncertainty_amu_2loop(m, a1, a2));
      }
      ev.num("mA", p.mb.mA).num("mH", p.mb.mH).num("mHp", p.mb.mHp).num("tb", p.mb.tan_beta)
        .i("ytype", static_cast<int>(p.mb.yukawa_type));
      ev.emit();
   }
}

} // namespace

int main(int argc, char** argv)
{
   if (argc < 4) { std::fprintf(stderr, "usage: d_thdm <mode> <casefile> <tracefile>\n"); return 2; }
   const std::string mode = argv[1];
   const auto cases = read_cases(argv[2]);
   vt::open_trace(argv[3]);
   vt::install_terminate();
   vt::Rng rng(vt::env_seed());
   if (mode == "c18") run_c18(cases, rng);
   else { std::fprintf(stderr, "unknown mode %s\n", mode.c_str()); return 2; }
   vt::flush_trace();
   return 0;
}
