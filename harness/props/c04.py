"""C04 - the MSSM tree-level spectrum is the exact spectrum of the MSSM mass matrices."""
import json
import random

import build
import cases
import core
import tlc


def run(tier, seed):
    cx = core.Ctx("C04", tier, seed, "exploration")
    cs = cases.get("C04")
    rnd = random.Random(seed)
    rnd.shuffle(cs)
    reps = 1
    if tier == "quick":
        cs = cs[:176]
    else:
        reps = 3
    exe = build.driver_build("d_mssm")
    cf = cx.path("cases.txt")
    n = 0
    with open(cf, "w") as fh:
        for rep in range(reps):
            for c in cs:
                fh.write("c%d %s %s %s %s %s\n" % (n, c["tb"], c["soft"], c["signs"], c["st"], c["swap"]))
                n += 1
    tr = cx.path("trace.ndjson")
    core.run_driver(exe, ["c04", cf, tr])
    shards = tlc.split_trace(tr, 16, group_key="case")
    for rep in tlc.validate_traces("Trace_C04.tla", shards, jobs=16, heap="3g", timeout=7200):
        cx.add_report(rep)
        cx.cov["invariant_evaluations"] = cx.cov.get("invariant_evaluations", 0) + rep["extra"]["nchecked"]
    for ln in open(tr):
        ev = json.loads(ln)
        cx.evaluations += 1
        if ev["exc"] == "":
            cx.distinct.add(ev["sig"])
            if len(cx.cov["samples"]) < 3:
                cx.sample({"case": ev["sig"], "tachyons": ev["tach"], "MChi": [core.dy(ev["mass"]["MChi_%d0" % i]) for i in range(4)],
                           "MSm": [core.dy(ev["mass"]["MSm_00"]), core.dy(ev["mass"]["MSm_10"])]})
    cx.cov["abstract_classes"] = len(cs)
    cx.assumptions += ["mass matrices of sfermions, sneutrinos, charginos and neutralinos are written in Trace_C04.tla from the Lagrangian; "
                       "for the Higgs sectors (soft masses fixed internally by the tadpole equations) the tree-level identities are checked instead",
                       "1/sqrt(2) and sqrt(3/5) enter as dyadic constants correct to 1e-16; tolerance 1e-11 of the matrix norm"]
    cx.selftest_corruption("Trace_C04.tla", shards[0], lambda ev: ev["mass"].get("MCha_00") if ev["e"] == "Spectrum" and ev["exc"] == "" else None, "Cha|Reconstruct|Chargino")
    return cx.finish(rule="classes enumerated by TLC (Cases.tla: C04Cases, 2048; quick: seeded subset of 176) concretised with random "
                          "magnitudes and set through the setters of MSSMNoFV_onshell_mass_eigenstates; distinct_nontrivial = distinct "
                          "classes whose spectrum was calculated")
