SPECIFICATION Spec
CONSTANTS
  MaxCalls = 40
  Protection = "full"
  Emit = TRUE
INVARIANTS TypeOK NeverAborts EmitHist
CHECK_DEADLOCK FALSE
