------------------------------ MODULE Trace_C06 ------------------------------
(***************************************************************************)
(* C06 - invariance of every MSSM result under the joint sign flip of mu,  *)
(* M1, M2, M3 and all A_f.  Events come in pairs                           *)
(*    Eval(role = "orig", case, res, mass),  Eval(role = "flip", ...)      *)
(* for the same abstract case (a sign pattern enumerated by TLC) and the   *)
(* same magnitudes.  The spec keeps the "orig" observation and compares.   *)
(*                                                                         *)
(* Tolerance: relative 1e-9 (the property's number).  For contributions to *)
(* a_mu an absolute floor of 1e-12 |a_mu^1L| applies, so that a            *)
(* sub-contribution that cancels to ~0 is not judged relatively.           *)
(*                                                                         *)
(* The discrete part of the argument - every documented sign monomial of   *)
(* every contribution has even degree in the flipped parameters, for all   *)
(* 2^13 sign patterns - is the ASSUME below (checked by TLC at start-up).   *)
(***************************************************************************)
EXTENDS TraceBase, Dyadic, FiniteSets

VARIABLES l, orig, viol, nchecked
vars == <<l, orig, viol, nchecked>>

\* ---- sign algebra ------------------------------------------------------------------
Flipped == {"mu", "M1", "M2", "M3", "Au", "Ad", "Ae"}
\* leading mass-insertion monomials (arXiv:1311.1775 Eqs. (6)-(7), gm2_1loop.cpp amu1L*),
\* tan(beta) corrections Delta_f ~ mu * M_gaugino or mu * A_f, sfermion mixing X_f = A_f - mu tb
Monomials == [ WHnu |-> <<"mu", "M2">>, WHmuL |-> <<"mu", "M2">>, BHmuL |-> <<"mu", "M1">>,
               BHmuR |-> <<"mu", "M1">>, BmuLmuR |-> <<"mu", "M1">>,
               DeltaMuWino |-> <<"mu", "M2">>, DeltaMuBino |-> <<"mu", "M1">>,
               DeltaBGluino |-> <<"mu", "M3">>, DeltaBHiggsino |-> <<"mu", "Au">>,
               XfSquared1 |-> <<"Ae", "Ae">>, XfSquared2 |-> <<"Ae", "mu">>, XfSquared3 |-> <<"mu", "mu">>,
               XuM |-> <<"Au", "mu">>, XdM |-> <<"Ad", "mu">> ]
SignOf(pattern, mono) ==      \* pattern : Flipped -> {1,-1}
   LET RECURSIVE p(_) p(s) == IF s = << >> THEN 1 ELSE pattern[Head(s)] * p(Tail(s)) IN p(mono)
ASSUME \A pattern \in [Flipped -> {1, -1}] : \A c \in DOMAIN Monomials :
          SignOf(pattern, Monomials[c]) = SignOf([f \in Flipped |-> -pattern[f]], Monomials[c])

\* ---- trace ---------------------------------------------------------------------------
Tol9n == One
Tol9d == TenPow(9)

IsAmu(n) == \/ (Len(n) >= 3 /\ SubSeq(n, 1, 3) = "amu") \/ (Len(n) >= 3 /\ SubSeq(n, 1, 3) = "unc")

\* a_mu contributions and uncertainties: relative 1e-9, or within 1e-9 of the one-loop magnitude
\* S1 = |a^chi0| + |a^chi+-| of the point.  (The one-loop total is a difference of these two - a cancellation by a
\* factor 200 occurs on valid points - and each of them is a sum over mass eigenstates whose terms cancel when the two
\* smuons are nearly degenerate; the two mathematically equal evaluations then agree to rounding times that
\* cancellation, not to 1e-9 of the small result.  A sign error in any part changes it by O(1) of itself.)
Close(n, a, b, s1) ==
   IF ~IsFin(a) \/ ~IsFin(b) THEN a.k = b.k
   ELSE IF IsAmu(n)
        THEN \/ RelClose(a, b, Tol9n, Tol9d)
             \/ Le(Mul(TenPow(9), Abs(Sub(a, b))), s1)
        ELSE RelClose(a, b, Tol9n, Tol9d)

BadNames(ra, rb, a1L) == {n \in DOMAIN ra : ~Close(n, ra[n], rb[n], a1L)}

Init == l = 1 /\ orig = [e |-> "none"] /\ viol = << >> /\ nchecked = 0

NameViol(S, line, sig, pre) ==
   LET RECURSIVE mk(_) mk(T) == IF T = {} THEN << >>
                                ELSE LET n == CHOOSE x \in T : TRUE
                                     IN <<[l |-> line, inv |-> pre \o n, sig |-> sig]>> \o mk(T \ {n})
   IN mk(S)

TEval ==
  /\ l <= NLines /\ TraceLog[l].e = "Eval"
  /\ LET ev == TraceLog[l] IN
       IF ev.role = "orig"
       THEN orig' = ev /\ UNCHANGED <<viol, nchecked>>
       ELSE /\ orig' = [e |-> "none"]
            /\ IF orig.e = "Eval" /\ orig.case = ev.case
               THEN IF orig.exc # "" \/ ev.exc # ""
                    THEN /\ viol' = viol \o Failed(<<I("SameOutcome", orig.exc = ev.exc)>>, l, ev.sig)
                         /\ nchecked' = nchecked + 1
                    ELSE LET a1L == Add(Abs(orig.res["amu1LChi0"]), Abs(orig.res["amu1LChipm"]))
                             br == BadNames(orig.res, ev.res, a1L)
                             bm == BadNames(orig.mass, ev.mass, a1L)
                         IN /\ viol' = viol \o NameViol(br, l, ev.sig, "FlipInvariant:")
                                            \o NameViol(bm, l, ev.sig, "FlipInvariantMass:")
                            /\ nchecked' = nchecked + Cardinality(DOMAIN orig.res) + Cardinality(DOMAIN orig.mass)
               ELSE UNCHANGED <<viol, nchecked>>
  /\ l' = l + 1

Next == TEval
Spec == Init /\ [][Next]_vars
Report == l = NLines + 1 => WriteReport(l, viol, [nchecked |-> nchecked])
=============================================================================
