SPECIFICATION Spec
