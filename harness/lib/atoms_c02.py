"""Atoms for the many-variable loop functions (C02); imported by atoms.py (python3-vt, mpmath at 400 bits)."""
import mpmath
from mpmath import mp, mpf, mpc


def li2(x):
    return mpmath.polylog(2, x)


def f_ps(z):
    if z == 0:
        return mpf(0)
    if z == mpf(1) / 4:
        return mpmath.log(4)
    y = mpmath.sqrt(mpc(1 - 4 * z))
    return (2 * z / y * (li2(1 - (1 - y) / (2 * z)) - li2(1 - (1 + y) / (2 * z)))).real


def f_s(z):
    return (2 * z - 1) * f_ps(z) - 2 * z * (2 + mpmath.log(z))


def f_csl(z):
    return z * (z + z * (z - 1) * (li2(1 - 1 / z).real - mp.pi ** 2 / 6) + (z - mpf(1) / 2) * mpmath.log(z))


def phi_dt(u, v):
    """Davydychev-Tausk Phi(u, v), u, v > 0 (closed forms of Nucl. Phys. B397 (1993) 123, Eqs.(4.10), (4.15))"""
    l2 = (1 - u - v) ** 2 - 4 * u * v
    if abs(l2) < mpf(10) ** -60:            # u, v are ratios of doubles: an exact zero shows up as 1e-120
        return -(mpmath.log(u) / mpmath.sqrt(v) + mpmath.log(v) / mpmath.sqrt(u))
    if l2 < 0:
        l = mpmath.sqrt(-l2)
        return 2 * (mpmath.clsin(2, 2 * mpmath.acos((1 + u - v) / (2 * mpmath.sqrt(u))))
                    + mpmath.clsin(2, 2 * mpmath.acos((1 - u + v) / (2 * mpmath.sqrt(v))))
                    + mpmath.clsin(2, 2 * mpmath.acos((-1 + u + v) / (2 * mpmath.sqrt(u * v))))) / l
    l = mpmath.sqrt(l2)
    if u <= 1 and v <= 1:
        x = (1 - l + u - v) / 2
        y = (1 - l - u + v) / 2
        return ((-mpmath.log(u) * mpmath.log(v) + 2 * mpmath.log(x) * mpmath.log(y) - 2 * li2(x) - 2 * li2(y) + mp.pi ** 2 / 3) / l).real
    # Phi(u, v) = Phi(1/u, v/u)/u = Phi(1/v, u/v)/v
    if u >= v:
        return phi_dt(1 / u, v / u) / u
    return phi_dt(1 / v, u / v) / v


def phi_sorted(x, y, z):
    """phi_DT of the two smaller arguments over the largest, and the largest"""
    s = sorted([x, y, z])
    return phi_dt(s[0] / s[2], s[1] / s[2]), s[2]


def lim_quot(f, x):
    """lim_{y -> x} (y f(x) - x f(y))/(x - y) = x f'(x) - f(x)"""
    return x * mpmath.diff(f, x) - f(x)


def csq_atoms(xu, xd, sfx, dy):
    at = {}
    if xu > 0 and xd > 0:
        at["Lu" + sfx] = dy(mpmath.log(xu))
        at["Ld" + sfx] = dy(mpmath.log(xd))
        at["D" + sfx] = dy(li2(1 - xd / xu).real)
        ph, zmax = phi_sorted(xd, xu, mpf(1))
        at["PY" + sfx] = dy(ph / (2 * zmax))           # Phi(xd, xu, 1) / lambda^2(xd, xu, 1)
    return at


def atoms(fn, a, dy):
    at = {}
    if any(v is None for v in a):
        return at
    if fn in ("Fa", "Fb"):
        x, y = a
        if x > 0:
            at["Lx"] = dy(mpmath.log(x))
        if y > 0:
            at["Ly"] = dy(mpmath.log(y))
    elif fn == "Iabc":
        for n, v in zip(("La", "Lb", "Lc"), a):
            if v > 0:
                at[n] = dy(mpmath.log(v))
    elif fn in ("Phi", "Phi_over_lambda_2"):
        x, y, z = a
        if min(a) > 0:
            ph, zmax = phi_sorted(x, y, z)
            at["PHI"] = dy(ph)
    elif fn in ("FPZ", "FSZ", "FCWl"):
        x, y = a
        f = {"FPZ": f_ps, "FSZ": f_s, "FCWl": f_csl}[fn]
        if x > 0 and y > 0:
            at["Fx"] = dy(f(x))
            at["Fy"] = dy(f(y))
            if x == y:
                at["LIM"] = dy(lim_quot(f, x))
    elif fn in ("f_CSd", "f_CSu"):
        at = csq_atoms(a[0], a[1], "1", dy)
    elif fn in ("FCWu", "FCWd"):
        at = csq_atoms(a[0], a[1], "1", dy)
        at.update(csq_atoms(a[2], a[3], "2", dy))
    return at
