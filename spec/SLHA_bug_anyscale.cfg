SPECIFICATION Spec
CONSTANTS
  MaxLen = 4
  Formats = {"slha"}
  Bug = "anyscale"
INVARIANTS TypeOK ReaderRefinesContent TokenRule LayoutIrrelevant
CHECK_DEADLOCK FALSE
