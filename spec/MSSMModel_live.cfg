SPECIFICATION FairSpec
CONSTANT BugC = "none"
PROPERTY Terminates
CHECK_DEADLOCK FALSE
