// Loop-function driver (C01, C02): evaluates the functions of src/gm2_ffunctions.hpp and src/gm2_dilog.hpp of the
// working tree's library at the given arguments and records arguments and results losslessly.  No comparison here.
//
// usage: d_ff <casefile> <tracefile>
//   case line: <id> <fn> <cls> <hexfloat arg>...      (cdilog: re im)
#include "trace.hpp"
#include "gm2_ffunctions.hpp"
#include "gm2_dilog.hpp"

#include <fstream>
#include <map>
#include <sstream>

using namespace gm2calc;

namespace {
using F1v = double (*)(double);
using F2v = double (*)(double, double);
using F3v = double (*)(double, double, double);
using F4v = double (*)(double, double, double, double);
using F6v = double (*)(double, double, double, double, double, double);

double dilog_r(double x) { return dilog(x); }
double lambda3(double x, double y, double z) { return lambda_2(x, y, z); }

const std::map<std::string, F1v> k1 = {
   {"F1C", F1C}, {"F2C", F2C}, {"F3C", F3C}, {"F4C", F4C}, {"F1N", F1N}, {"F2N", F2N}, {"F3N", F3N}, {"F4N", F4N},
   {"G3", G3}, {"G4", G4}, {"f_PS", f_PS}, {"f_S", f_S}, {"f_sferm", f_sferm}, {"f_CSl", f_CSl},
   {"F1", F1}, {"F1t", F1t}, {"F2", F2}, {"F3", F3}, {"dilog", dilog_r}, {"clausen_2", clausen_2}};
const std::map<std::string, F2v> k2 = {{"Fa", Fa}, {"Fb", Fb}, {"FPZ", FPZ}, {"FSZ", FSZ}, {"FCWl", FCWl}};
const std::map<std::string, F3v> k3 = {{"Iabc", Iabc}, {"Phi", Phi}, {"lambda_2", lambda3}, {"Phi_over_lambda_2", Phi_over_lambda_2}};
const std::map<std::string, F4v> k4 = {{"f_CSd", f_CSd}, {"f_CSu", f_CSu}};
const std::map<std::string, F6v> k6 = {{"FCWu", FCWu}, {"FCWd", FCWd}};
} // namespace

int main(int argc, char** argv)
{
   if (argc < 3) { std::fprintf(stderr, "usage: d_ff <casefile> <tracefile>\n"); return 2; }
   std::ifstream in(argv[1]);
   vt::open_trace(argv[2]);
   vt::install_terminate();
   // the library reports negative arguments on stderr: keep the harness output clean
   if (!std::freopen("/dev/null", "w", stderr)) return 3;
   std::string line;
   while (std::getline(in, line)) {
      std::istringstream is(line);
      std::string id, fn, cls, tok;
      if (!(is >> id >> fn >> cls)) continue;
      std::vector<double> a;
      while (is >> tok) a.push_back(std::strtod(tok.c_str(), nullptr));
      vt::Ev ev("Eval");
      ev.str("id", id).str("fn", fn).str("cls", cls);
      std::string args = "[";
      for (std::size_t i = 0; i < a.size(); ++i) { if (i) args += ','; args += vt::enc(a[i]); }
      ev.raw("a", args + "]");
      double y = std::nan(""), yi = 0;
      bool known = true;
      if (fn == "cdilog" && a.size() == 2) { const auto r = dilog(std::complex<double>(a[0], a[1])); y = r.real(); yi = r.imag(); }
      else if (a.size() == 1 && k1.count(fn)) y = k1.at(fn)(a[0]);
      else if (a.size() == 2 && k2.count(fn)) y = k2.at(fn)(a[0], a[1]);
      else if (a.size() == 3 && k3.count(fn)) y = k3.at(fn)(a[0], a[1], a[2]);
      else if (a.size() == 4 && k4.count(fn)) y = k4.at(fn)(a[0], a[1], a[2], a[3]);
      else if (a.size() == 6 && k6.count(fn)) y = k6.at(fn)(a[0], a[1], a[2], a[3], a[4], a[5]);
      else known = false;
      ev.b("known", known).num("y", y);
      if (fn == "cdilog") ev.num("yi", yi);
      ev.emit();
   }
   vt::flush_trace();
   return 0;
}
