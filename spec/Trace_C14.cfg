SPECIFICATION TSpec
CONSTANTS
  MaxArgs = 3
  MaxCfg = 8
  Bug = "none"
  CfgMode = "seq"
INVARIANTS MachineInvs TraceReport
CHECK_DEADLOCK FALSE
