SPECIFICATION Spec
CONSTANTS
  MaxLen = 3
  Formats = {"slha"}
  Bug = "firstwins"
INVARIANTS TypeOK ReaderRefinesContent TokenRule LayoutIrrelevant
CHECK_DEADLOCK FALSE
