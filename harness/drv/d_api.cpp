// API driver for C15/C16: builds the model from an input file exactly as gm2calc.x's readers do
// (GM2_slha_io fill + convert_to_onshell / calculate_masses / THDM constructor) and records what
// the library API returns for it.  No comparison is made here.
//
// usage: d_api <jobfile> <tracefile>     job lines: <id> <itype> <path> <force 0|1> <running 0|1>
#include "models.hpp"
#include "gm2_slha_io.hpp"
#include "gm2_config_options.hpp"

#include <fstream>
#include <iostream>
#include <memory>
#include <sstream>

using namespace gm2calc;
using vm::NV;

int main(int argc, char** argv)
{
   if (argc < 3) { std::fprintf(stderr, "usage: d_api <jobfile> <tracefile>\n"); return 2; }
   std::ifstream jobs(argv[1]);
   vt::open_trace(argv[2]);
   vt::install_terminate();
   std::string line;
   while (std::getline(jobs, line)) {
      std::istringstream is(line);
      std::string id, itype, path;
      int force = 0, running = 1;
      if (!(is >> id >> itype >> path >> force >> running)) continue;
      vt::Ev ev("Api");
      ev.str("id", id).str("itype", itype).i("force", force).i("running", running);
      NV res;
      bool problem = false, warning = false;
      std::string exc, problems;
      std::vector<std::string> thrown;
      if (itype == "slha" || itype == "gm2calc") {
         MSSMNoFV_onshell model;
         model.do_force_output(force != 0);
         exc = vm::exc_class([&] {
            GM2_slha_io io;
            io.read_from_file(path);
            if (itype == "slha") { io.fill_slha(model); model.convert_to_onshell(); }
            else { io.fill_gm2calc(model); model.calculate_masses(); }
         });
         if (exc.empty()) {
            res = vm::mssm_results(model, &thrown);
            problem = model.get_problems().have_problem();
            warning = model.get_problems().have_warning();
            problems = model.get_problems().get_problems();
         }
      } else {
         std::unique_ptr<THDM> model;
         exc = vm::exc_class([&] {
            GM2_slha_io io;
            io.read_from_file(path);
            SM sm; thdm::Mass_basis mb; thdm::Gauge_basis gb;
            io.fill(sm); io.fill(mb); io.fill(gb);
            thdm::Config cfg;
            cfg.force_output = force != 0;
            cfg.running_couplings = running != 0;
            const bool mass_given = mb.mh != 0 || mb.mH != 0 || mb.mA != 0 || mb.mHp != 0 || mb.sin_beta_minus_alpha != 0;
            const bool lam_given = gb.lambda.head<5>().cwiseAbs().maxCoeff() != 0;
            if (mass_given && !lam_given) model.reset(new THDM(mb, sm, cfg));
            else if (!mass_given && lam_given) model.reset(new THDM(gb, sm, cfg));
            else throw EInvalidInput("Cannot distinguish between mass and gauge basis.");
         });
         if (exc.empty()) {
            res = vm::thdm_results(*model);
            for (const auto& p : vm::thdm_parts(*model)) res.push_back(p);
            problem = model->get_problems().have_problem();
            warning = model->get_problems().have_warning();
         }
      }
      ev.str("exc", exc).strs("thr", thrown).b("problem", problem).b("warning", warning).raw("res", vm::named_json(res));
      ev.emit();
   }
   vt::flush_trace();
   return 0;
}
