SPECIFICATION Spec
INVARIANT TraceReport
CHECK_DEADLOCK FALSE
