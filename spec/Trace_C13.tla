------------------------------ MODULE Trace_C13 ------------------------------
(***************************************************************************)
(* C13 - SLHA input is interpreted by content, not by layout.              *)
(*                                                                         *)
(* Trace of the in-process reader (GM2_slha_io::fill_slha / fill_gm2calc / *)
(* fill(SM, Mass_basis, Gauge_basis)) and of the whole program:            *)
(*                                                                         *)
(*  Case(id, fmt, file, den, err)   abstract file, with the denotation the *)
(*                                  case generator computed for it         *)
(*  Canon(id, exc, obs)             parameters read from the *normal form* *)
(*                                  of the denotation (one block per name, *)
(*                                  final assignments only, plain layout)  *)
(*  Layout(id, k, exc, obs)         parameters read from the k-th concrete *)
(*                                  rendering of the abstract file         *)
(*  Run(id, k, exit, out)           gm2calc.x on the k-th rendering of a   *)
(*                                  complete input (k = 0: reference)      *)
(*  Key(fmt, block, key, ...)       single documented key changed          *)
(*  Config(k, tok, n2, exc, stored) one GM2CalcConfig entry, every value   *)
(*                                  at and around the documented range     *)
(*                                                                         *)
(* Invariants                                                              *)
(*  CaseConsistent  den/err in the event = Denote/DenoteErr of SLHAContent *)
(*  ErrAsDenoted    exception class of every rendering = DenoteErr         *)
(*  ContentOnly     every rendering gives the parameters of the normal     *)
(*                  form (all documented parameters, 4 ulp; the only       *)
(*                  rounding difference allowed is that of derived         *)
(*                  parameters such as tan(beta) = vu/vd)                  *)
(*  SameRun         all renderings of a complete input give the same exit  *)
(*                  status and the same result numbers                     *)
(*  KeySetsDocumented  changing one documented key changes exactly the     *)
(*                  documented parameters (KeyTable)                       *)
(***************************************************************************)
EXTENDS TraceBase, Dyadic, SLHAContent

VARIABLES l, cas, canon, ref, viol, nchecked
vars == <<l, cas, canon, ref, viol, nchecked>>

None == [e |-> "none"]

ExcOf(err) == CASE err = "none" -> "" [] err = "ReadError" -> "EReadError" [] err = "InvalidInput" -> "EInvalidInput"

Close(a, b) == IF IsFin(a) /\ IsFin(b) THEN RelClose(a, b, One, PowTwo(48)) ELSE a.k = b.k /\ a.s = b.s

DenSet(fmt, f) == LET d == Denote(fmt, f) IN {[b |-> bk[1], k |-> bk[2], v |-> d[bk]] : bk \in {x \in BlockKey : d[x] # Unset}}
ToSet(s) == {s[i] : i \in DOMAIN s}

\* ---- documented key table for the single-key events ---------------------------------
\* Affected(fmt, block, key) = the documented parameters (names of the projection of
\* harness/drv/d_slha.cpp) that the key determines; every other parameter must not move.
Gen(i) == CASE i = 0 -> "00" [] i = 1 -> "11" [] i = 2 -> "22"
SMInMSSM == [k \in {3,4,5,6,7,8,9,11,12,13,14,21,22,23,24} |->
   CASE k = 3 -> {"g3"} [] k = 4 -> {"MVZ"} [] k = 5 -> {"MFb"} [] k = 6 -> {"MFt"} [] k = 7 -> {"MFtau"}
     [] k = 8 -> {"MFvt"} [] k = 9 -> {"MVWm"} [] k = 11 -> {"MFe"} [] k = 12 -> {"MFve"} [] k = 13 -> {"MFm"}
     [] k = 14 -> {"MFvm"} [] k = 21 -> {"MFd"} [] k = 22 -> {"MFu"} [] k = 23 -> {"MFs"} [] k = 24 -> {"MFc"}]
GM2In == [k \in 0..33 |->
   CASE k = 0 -> {"scale"} [] k = 1 -> {"EL"} [] k = 2 -> {"EL0"} [] k = 3 -> {"TB"} [] k = 4 -> {"Mu"}
     [] k = 5 -> {"MassB"} [] k = 6 -> {"MassWB"} [] k = 7 -> {"MassG"} [] k = 8 -> {"MAh_10"}
     [] k \in 9..11 -> {"ml2_" \o Gen(k - 9)} [] k \in 12..14 -> {"me2_" \o Gen(k - 12)}
     [] k \in 15..17 -> {"mq2_" \o Gen(k - 15)} [] k \in 18..20 -> {"mu2_" \o Gen(k - 18)}
     [] k \in 21..23 -> {"md2_" \o Gen(k - 21)} [] k \in 24..26 -> {"Ae_" \o Gen(k - 24)}
     [] k \in 27..29 -> {"Ad_" \o Gen(k - 27)} [] k \in 30..32 -> {"Au_" \o Gen(k - 30)} [] k = 33 -> {}]
MSoft == [k \in {1,2,3,21,22} \cup (31..36) \cup (41..49) |->
   CASE k = 1 -> {"MassB"} [] k = 2 -> {"MassWB"} [] k = 3 -> {"MassG"} [] k = 21 -> {"mHd2"} [] k = 22 -> {"mHu2"}
     [] k \in 31..33 -> {"ml2_" \o Gen(k - 31)} [] k \in 34..36 -> {"me2_" \o Gen(k - 34)}
     [] k \in 41..43 -> {"mq2_" \o Gen(k - 41)} [] k \in 44..46 -> {"mu2_" \o Gen(k - 44)}
     [] k \in 47..49 -> {"md2_" \o Gen(k - 47)}]
SMInTHDM == [k \in {1,3,4,5,6,7,8,9,11,12,13,14,21,22,23,24} |->
   CASE k = 1 -> {"sm_alpha_em_mz"} [] k = 3 -> {"sm_alpha_s_mz"} [] k = 4 -> {"sm_mz"} [] k = 5 -> {"sm_md_20"}
     [] k = 6 -> {"sm_mu_20"} [] k = 7 -> {"sm_ml_20"} [] k = 8 -> {"sm_mv_20"} [] k = 9 -> {"sm_mw"}
     [] k = 11 -> {"sm_ml_00"} [] k = 12 -> {"sm_mv_00"} [] k = 13 -> {"sm_ml_10"} [] k = 14 -> {"sm_mv_10"}
     [] k = 21 -> {"sm_md_00"} [] k = 22 -> {"sm_mu_00"} [] k = 23 -> {"sm_md_10"} [] k = 24 -> {"sm_mu_10"}]
MinPar == [k \in {3} \cup (11..18) \cup (20..24) |->
   CASE k = 3 -> {"mb_tan_beta", "gb_tan_beta"} [] k \in 11..15 -> {"gb_lambda" \o ToString(k - 10)}
     [] k = 16 -> {"gb_lambda6", "mb_lambda_6"} [] k = 17 -> {"gb_lambda7", "mb_lambda_7"}
     [] k = 18 -> {"mb_m122", "gb_m122"} [] k = 20 -> {"mb_sba"} [] k = 21 -> {"mb_zeta_u", "gb_zeta_u"}
     [] k = 22 -> {"mb_zeta_d", "gb_zeta_d"} [] k = 23 -> {"mb_zeta_l", "gb_zeta_l"}
     [] k = 24 -> {"mb_yukawa_type", "gb_yukawa_type"}]
MassTHDM == [k \in {24, 25, 35, 36, 37} |->
   CASE k = 24 -> {"sm_mw"} [] k = 25 -> {"mb_mh"} [] k = 35 -> {"mb_mH"} [] k = 36 -> {"mb_mA"} [] k = 37 -> {"mb_mHp"}]
MassSLHA == [k \in {24, 25, 35, 36, 37, 1000021, 1000022, 1000023, 1000025, 1000035, 1000024, 1000037, 1000012, 1000014, 1000016, 1000001, 2000001, 1000002, 2000002, 1000011, 2000011, 1000013, 2000013, 1000015, 2000015, 1000003, 2000003, 1000004, 2000004, 1000005, 2000005, 1000006, 2000006} |->
   CASE k = 24 -> {"MVWm"}
     [] k = 25 -> {"Mhh_00"}
     [] k = 35 -> {"Mhh_10"}
     [] k = 36 -> {"MAh_10"}
     [] k = 37 -> {"MHpm_10"}
     [] k = 1000021 -> {"MGlu"}
     [] k = 1000022 -> {"MChi_00"}
     [] k = 1000023 -> {"MChi_10"}
     [] k = 1000025 -> {"MChi_20"}
     [] k = 1000035 -> {"MChi_30"}
     [] k = 1000024 -> {"MCha_00"}
     [] k = 1000037 -> {"MCha_10"}
     [] k = 1000012 -> {"MSveL"}
     [] k = 1000014 -> {"MSvmL"}
     [] k = 1000016 -> {"MSvtL"}
     [] k = 1000001 -> {"MSd_00"}
     [] k = 2000001 -> {"MSd_10"}
     [] k = 1000002 -> {"MSu_00"}
     [] k = 2000002 -> {"MSu_10"}
     [] k = 1000011 -> {"MSe_00"}
     [] k = 2000011 -> {"MSe_10"}
     [] k = 1000013 -> {"MSm_00"}
     [] k = 2000013 -> {"MSm_10"}
     [] k = 1000015 -> {"MStau_00"}
     [] k = 2000015 -> {"MStau_10"}
     [] k = 1000003 -> {"MSs_00"}
     [] k = 2000003 -> {"MSs_10"}
     [] k = 1000004 -> {"MSc_00"}
     [] k = 2000004 -> {"MSc_10"}
     [] k = 1000005 -> {"MSb_00"}
     [] k = 2000005 -> {"MSb_10"}
     [] k = 1000006 -> {"MSt_00"}
     [] k = 2000006 -> {"MSt_10"}]
CkmNames == {"sm_ckm_re" \o i \o j : i \in {"0","1","2"}, j \in {"0","1","2"}} \cup
            {"sm_ckm_im" \o i \o j : i \in {"0","1","2"}, j \in {"0","1","2"}}

Affected(fmt, block, key) ==
  CASE fmt \in {"slha", "gm2calc"} /\ block = "SMINPUTS" -> SMInMSSM[key]
    [] fmt = "gm2calc" /\ block = "GM2CALCINPUT" -> GM2In[key]
    [] fmt = "slha" /\ block = "GM2CALCINPUT" -> (IF key = 1 THEN {"EL"} ELSE IF key = 2 THEN {"EL0"} ELSE {})
    [] fmt = "slha" /\ block = "MSOFT" -> MSoft[key]
    [] fmt = "slha" /\ block = "MASS" -> MassSLHA[key]
    [] fmt = "slha" /\ block = "HMIX" -> (CASE key = 1 -> {"Mu"} [] key = 2 -> {"TB", "BMu"} [] key = 4 -> {"BMu"} [] OTHER -> {})
    [] fmt = "thdm" /\ block = "SMINPUTS" -> SMInTHDM[key]
    [] fmt = "thdm" /\ block = "MINPAR" -> MinPar[key]
    [] fmt = "thdm" /\ block = "MASS" -> MassTHDM[key]
    [] fmt = "thdm" /\ block = "VCKMIN" -> CkmNames
    [] fmt = "thdm" /\ block = "GM2CALCINPUT" -> (IF key = 33 THEN {"sm_mh"} ELSE {})
    [] OTHER -> {"?"}

\* how the parameter is documented to follow from the value (v: the value in the file)
Relation(fmt, block, key, p, v, obs) ==
  LET x == obs[p]
      FourPiLo == [k |-> "fin", s |-> 1, q |-> -3, m |-> <<17105, 27272, 18558, 12>>]   \* floor(4 pi 2^45) 2^-45, rel. err < 3e-15
  IN CASE block = "SMINPUTS" /\ key = 3 /\ fmt # "thdm" -> RelClose(Sq(x), Mul(FourPiLo, v), One, TenPow(12))
       [] block = "GM2CALCINPUT" /\ key \in {1, 2} -> RelClose(Sq(x), Mul(FourPiLo, v), One, TenPow(12))
       [] fmt = "thdm" /\ block = "SMINPUTS" /\ key = 1 -> RelClose(Mul(x, v), One, One, PowTwo(48))
       [] block = "MSOFT" /\ key >= 31 -> Close(x, Mul(v, Abs(v)))
       [] block = "GM2CALCINPUT" /\ key \in 9..23 -> Close(x, Mul(v, Abs(v)))
       [] p = "TB" -> Close(x, v)
       [] p = "BMu" -> TRUE          \* BMu = mA^2 tan(beta)/(1+tan(beta)^2): checked through ContentOnly only
       [] block = "VCKMIN" -> TRUE   \* Wolfenstein -> CKM: owned by C20
       [] OTHER -> Eq(x, v) /\ IsFin(x)

Init == l = 1 /\ cas = None /\ canon = None /\ ref = None /\ viol = << >> /\ nchecked = 0

TCase ==
  /\ l <= NLines /\ TraceLog[l].e = "Case"
  /\ LET ev == TraceLog[l]
         ok == /\ ev.err = (IF ev.late THEN DenoteErrLate(ev.fmt, ev.file) ELSE DenoteErr(ev.fmt, ev.file))
               /\ (ev.err = "none" => ToSet(ev.den) = DenSet(ev.fmt, ev.file))
     IN /\ viol' = viol \o Failed(<<I("CaseConsistent", ok)>>, l, ev.sig)
        /\ cas' = ev /\ canon' = None /\ nchecked' = nchecked + 1
  /\ UNCHANGED ref /\ l' = l + 1

TCanon ==
  /\ l <= NLines /\ TraceLog[l].e = "Canon"
  /\ LET ev == TraceLog[l] IN
       /\ viol' = viol \o Failed(<<I("CanonReadable", ev.exc = "")>>, l, ev.sig)
       /\ canon' = ev /\ nchecked' = nchecked + 1
  /\ UNCHANGED <<cas, ref>> /\ l' = l + 1

BadParams(a, b) == {p \in DOMAIN a : ~Close(a[p], b[p])}

NameViol(S, line, sig, pre) ==
   LET RECURSIVE mk(_) mk(T) == IF T = {} THEN << >>
                                ELSE LET n == CHOOSE x \in T : TRUE
                                     IN <<[l |-> line, inv |-> pre \o n, sig |-> sig]>> \o mk(T \ {n})
   IN mk(S)

TLayout ==
  /\ l <= NLines /\ TraceLog[l].e = "Layout"
  /\ LET ev == TraceLog[l]
         expExc == ExcOf(cas.err)
         e1 == Failed(<<I("ErrAsDenoted", ev.exc = expExc)>>, l, ev.sig)
         e2 == IF cas.err = "none" /\ ev.exc = "" /\ canon # None /\ canon.exc = ""
               THEN NameViol(BadParams(canon.obs, ev.obs), l, ev.sig, "ContentOnly:") ELSE << >>
     IN /\ viol' = viol \o e1 \o e2
        /\ nchecked' = nchecked + 2
  /\ UNCHANGED <<cas, canon, ref>> /\ l' = l + 1

\* whole-program runs: k = 0 is the reference rendering
TRun ==
  /\ l <= NLines /\ TraceLog[l].e = "Run"
  /\ LET ev == TraceLog[l] IN
       IF ev.k = 0 THEN /\ ref' = ev /\ UNCHANGED <<viol, nchecked>>
       ELSE /\ UNCHANGED ref
            /\ viol' = viol \o Failed(<<I("SameRunExit", ref # None => ev.exit = ref.exit /\ ev.signal = ref.signal),
                                        I("SameRunResult", ref # None => ev.nums = ref.nums)>>, l, ev.sig)
            /\ nchecked' = nchecked + 2
  /\ UNCHANGED <<cas, canon>> /\ l' = l + 1

\* single documented key: base file vs. base file with (block, key) := v1
TKey ==
  /\ l <= NLines /\ TraceLog[l].e = "Key"
  /\ LET ev == TraceLog[l]
         aff == Affected(ev.fmt, ev.block, ev.key)
         \* "moved" = changed by more than the rounding of derived parameters (tan(beta) = vu/vd is
         \* recomputed from VEVs whose common factor depends on MW, MZ, alpha: last-bit changes)
         moved == {p \in DOMAIN ev.obs0 : ~Close(ev.obs0[p], ev.obs1[p])}
         invs == << I("KeyRead", ev.exc0 = "" /\ ev.exc1 = ""),
                    I("KeyTableKnows", aff # {"?"}),
                    I("KeySetsOnlyDocumented", moved \subseteq aff),
                    I("KeySetsDocumented", \A p \in aff : Relation(ev.fmt, ev.block, ev.key, p, ev.v1, ev.obs1)) >>
     IN /\ viol' = viol \o Failed(invs, l, ev.sig) /\ nchecked' = nchecked + 4
  /\ UNCHANGED <<cas, canon, ref>> /\ l' = l + 1

\* GM2CalcConfig: one entry with one value token; n2 = twice the value (halves are representable), tok = "num" for
\* a finite number, "nan" for a token that is not a finite number.  Documented ranges (README, GM2CalcConfig):
\* [0] 0..4, [1] 0..2, [2]..[6] 0 or 1.  Invalid: rejected with an error; valid: stored as given.
CfgRange(k) == CASE k = 0 -> 0..4 [] k = 1 -> 0..2 [] OTHER -> 0..1
CfgValid(k, tok, n2) == tok = "num" /\ n2 >= 0 /\ n2 % 2 = 0 /\ (n2 \div 2) \in CfgRange(k)
TConfig ==
  /\ l <= NLines /\ TraceLog[l].e = "Config"
  /\ LET ev == TraceLog[l]
         ok == CfgValid(ev.k, ev.tok, ev.n2)
         invs == << I("ConfigInvalidRejected", ~ok => ev.exc \in {"EInvalidInput", "EReadError"}),
                    I("ConfigValidStored", ok => ev.exc = "" /\ ev.stored = ev.n2 \div 2),
                    I("ConfigOthersDefault", ev.exc = "" => ev.others) >>
     IN /\ viol' = viol \o Failed(invs, l, ev.sig) /\ nchecked' = nchecked + 3
  /\ UNCHANGED <<cas, canon, ref>> /\ l' = l + 1

Next == TCase \/ TCanon \/ TLayout \/ TRun \/ TKey \/ TConfig
Spec == Init /\ [][Next]_vars
Report == l = NLines + 1 => WriteReport(l, viol, [nchecked |-> nchecked])
=============================================================================
