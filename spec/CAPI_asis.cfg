SPECIFICATION Spec
CONSTANTS
  MaxCalls = 8
  Protection = "asis"
  Emit = FALSE
INVARIANTS TypeOK NeverAborts
VIEW View
CHECK_DEADLOCK FALSE
