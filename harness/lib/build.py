"""Scratch builds of /repo's *current working tree* and of the C++ drivers.

Builds live under /var/tmp/gm2verif/<treehash>/<flavour> (outside /repo, /verif and /tmp).
Only one tree's builds are kept: builds that belong to other tree hashes are deleted on
entry.  A flock serialises concurrent checks that need the same flavour.
"""
import fcntl
import hashlib
import os
import shutil
import subprocess
import sys
import time

REPO = os.environ.get("GM2_REPO", "/repo")
VERIF = os.path.dirname(os.path.dirname(os.path.dirname(os.path.abspath(__file__))))
SCRATCH = os.environ.get("GM2_VERIF_SCRATCH", "/var/tmp/gm2verif")
GUARD = "GM2CALC_VERIF"

FLAVOURS = {
    # same optimisation level as the pinned test build (RelWithDebInfo: -O2 -DNDEBUG), no -g
    "plain": {"cxx": "g++", "cc": "gcc",
              "flags": "-O2 -DNDEBUG -D%s" % GUARD, "link": ""},
    "asan": {"cxx": "g++", "cc": "gcc",
             "flags": "-O1 -g -fno-omit-frame-pointer -D%s "
                      "-fsanitize=address,undefined,float-cast-overflow "
                      "-fno-sanitize-recover=all" % GUARD,
             "link": "-fsanitize=address,undefined,float-cast-overflow"},
    "tsan": {"cxx": "g++", "cc": "gcc",
             "flags": "-O1 -g -fno-omit-frame-pointer -D%s -fsanitize=thread" % GUARD,
             "link": "-fsanitize=thread"},
    # guard off: used to show that the hooks are inert
    "nohooks": {"cxx": "g++", "cc": "gcc", "flags": "-O2 -DNDEBUG", "link": ""},
}

_SRC_DIRS = ["src", "include", "cmake", "examples", "doc"]
_SRC_FILES = ["CMakeLists.txt"]


def _iter_files():
    for f in _SRC_FILES:
        p = os.path.join(REPO, f)
        if os.path.isfile(p):
            yield p
    for d in _SRC_DIRS:
        top = os.path.join(REPO, d)
        for root, dirs, files in os.walk(top):
            dirs.sort()
            for f in sorted(files):
                if f.endswith("~"):
                    continue
                yield os.path.join(root, f)


_tree_hash_cache = None


def tree_hash():
    global _tree_hash_cache
    if _tree_hash_cache is None:
        h = hashlib.sha256()
        for p in _iter_files():
            h.update(os.path.relpath(p, REPO).encode())
            h.update(b"\0")
            with open(p, "rb") as fh:
                h.update(fh.read())
            h.update(b"\0")
        _tree_hash_cache = h.hexdigest()[:16]
    return _tree_hash_cache


def _log(msg):
    sys.stderr.write("[build] %s\n" % msg)
    sys.stderr.flush()


class _Lock:
    def __init__(self, path):
        self.path = path

    def __enter__(self):
        os.makedirs(os.path.dirname(self.path), exist_ok=True)
        self.fh = open(self.path, "w")
        fcntl.flock(self.fh, fcntl.LOCK_EX)
        return self

    def __exit__(self, *a):
        fcntl.flock(self.fh, fcntl.LOCK_UN)
        self.fh.close()


def prune_other_trees():
    """delete scratch builds that belong to other tree hashes"""
    th = tree_hash()
    if not os.path.isdir(SCRATCH):
        return
    with _Lock(os.path.join(SCRATCH, ".prune.lock")):
        for d in os.listdir(SCRATCH):
            p = os.path.join(SCRATCH, d)
            if d.startswith(".") or d == th or not os.path.isdir(p):
                continue
            # do not delete a tree another process is building right now
            try:
                age = time.time() - os.path.getmtime(p)
            except OSError:
                continue
            if age < 1800 and os.path.exists(os.path.join(p, ".inuse")):
                continue
            shutil.rmtree(p, ignore_errors=True)


def clean_all():
    shutil.rmtree(SCRATCH, ignore_errors=True)


def lib_build(flavour="plain", jobs=None):
    """build libgm2calc.a and gm2calc.x of the working tree; returns the build dir"""
    fl = FLAVOURS[flavour]
    th = tree_hash()
    prune_other_trees()
    bdir = os.path.join(SCRATCH, th, flavour)
    stamp = os.path.join(bdir, ".built")
    with _Lock(os.path.join(SCRATCH, th, ".%s.lock" % flavour)):
        open(os.path.join(SCRATCH, th, ".inuse"), "w").close()
        if os.path.exists(stamp):
            return bdir
        shutil.rmtree(bdir, ignore_errors=True)
        os.makedirs(bdir)
        t0 = time.time()
        cmd = ["cmake", "-S", REPO, "-B", bdir, "-G", "Ninja",
               "-DCMAKE_BUILD_TYPE=None",
               "-DCMAKE_CXX_COMPILER=%s" % fl["cxx"], "-DCMAKE_C_COMPILER=%s" % fl["cc"],
               "-DCMAKE_CXX_FLAGS=%s" % fl["flags"], "-DCMAKE_C_FLAGS=%s" % fl["flags"],
               "-DCMAKE_EXE_LINKER_FLAGS=%s" % fl["link"],
               "-DENABLE_TESTS=OFF", "-DENABLE_EXAMPLES=OFF", "-DENABLE_MATHEMATICA=OFF",
               "-DENABLE_PYTHON=OFF", "-DBUILD_TESTING=OFF"]
        if shutil.which("ccache"):
            cmd += ["-DCMAKE_CXX_COMPILER_LAUNCHER=ccache", "-DCMAKE_C_COMPILER_LAUNCHER=ccache"]
        r = subprocess.run(cmd, stdout=subprocess.PIPE, stderr=subprocess.STDOUT, text=True)
        if r.returncode != 0:
            raise BuildError("cmake configure failed (%s):\n%s" % (flavour, r.stdout[-4000:]))
        cmd = ["cmake", "--build", bdir, "--target", "gm2calc", "gm2calc.x"]
        if jobs:
            cmd += ["-j", str(jobs)]
        r = subprocess.run(cmd, stdout=subprocess.PIPE, stderr=subprocess.STDOUT, text=True)
        if r.returncode != 0:
            raise BuildError("build failed (%s):\n%s" % (flavour, r.stdout[-6000:]))
        open(stamp, "w").close()
        _log("built %s flavour of tree %s in %.1f s" % (flavour, th, time.time() - t0))
    return bdir


class BuildError(Exception):
    pass


def _boost_eigen_includes(bdir):
    inc = []
    cache = os.path.join(bdir, "CMakeCache.txt")
    eigen = "/usr/include/eigen3"
    try:
        for line in open(cache):
            if line.startswith("Eigen3_DIR"):
                pass
            if line.startswith("Boost_INCLUDE_DIR:"):
                d = line.split("=", 1)[1].strip()
                if d not in ("/usr/include", "/usr/local/include", ""):
                    inc.append(d)
    except OSError:
        pass
    if os.path.isdir(eigen):
        inc.append(eigen)
    return inc


def driver_build(name, flavour="plain", extra_flags="", extra_libs=""):
    """compile /verif/harness/drv/<name>.cpp against the working tree's library"""
    bdir = lib_build(flavour)
    fl = FLAVOURS[flavour]
    drv_dir = os.path.join(VERIF, "harness", "drv")
    src = os.path.join(drv_dir, name + ".cpp")
    h = hashlib.sha256()
    for f in sorted(os.listdir(drv_dir)):
        if f.endswith(".hpp") or f == name + ".cpp":
            h.update(open(os.path.join(drv_dir, f), "rb").read())
    h.update(extra_flags.encode())
    h.update(extra_libs.encode())
    out = os.path.join(bdir, "drv_%s_%s" % (name, h.hexdigest()[:12]))
    with _Lock(os.path.join(bdir, ".drv_%s.lock" % name)):
        if os.path.exists(out):
            return out
        t0 = time.time()
        incs = ["-I" + os.path.join(REPO, "include"), "-I" + os.path.join(REPO, "src"),
                "-I" + drv_dir] + ["-isystem" + i for i in _boost_eigen_includes(bdir)]
        cmd = [fl["cxx"], "-std=c++14"] + fl["flags"].split() + extra_flags.split() + incs + \
              [src, "-o", out + ".tmp", os.path.join(bdir, "lib", "libgm2calc.a")] + \
              fl["link"].split() + extra_libs.split() + ["-lpthread"]
        if shutil.which("ccache"):
            cmd = ["ccache"] + cmd
        r = subprocess.run(cmd, stdout=subprocess.PIPE, stderr=subprocess.STDOUT, text=True)
        if r.returncode != 0:
            raise BuildError("driver %s (%s) failed to compile:\n%s" % (name, flavour, r.stdout[-6000:]))
        os.rename(out + ".tmp", out)
        _log("built driver %s (%s) in %.1f s" % (name, flavour, time.time() - t0))
    return out


def gm2calc_x(flavour="plain"):
    return os.path.join(lib_build(flavour), "bin", "gm2calc.x")


if __name__ == "__main__":
    if len(sys.argv) > 1 and sys.argv[1] == "clean":
        clean_all()
    else:
        for fl in sys.argv[1:] or ["plain"]:
            print(lib_build(fl))
