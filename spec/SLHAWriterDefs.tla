--------------------------- MODULE SLHAWriterDefs -----------------------------
(***************************************************************************)
(* The SLHA output document of gm2calc.x as a state machine.               *)
(*                                                                         *)
(* The program reads the input into an ordered collection of blocks, adds  *)
(* its results with GM2_slha_io::fill_block_entry and prints the whole     *)
(* collection (gm2calc.cpp: SLHA_writer, set_to_slha_output; the error     *)
(* path fills SPINFO).  Transcribed from gm2_slha_io.cpp:252-290 and       *)
(* slhaea.h (Coll::find / operator[], Block::operator[], key_matches):     *)
(*                                                                         *)
(*   * the block addressed is the FIRST block whose name equals the given  *)
(*     name case-insensitively; if there is none a new block is appended   *)
(*     (value form) or prepended (text form, used for SPINFO);             *)
(*   * inside it the line addressed is the FIRST line whose first field    *)
(*     equals the decimal spelling of the entry number (string comparison: *)
(*     "06" is not "6"); if there is none a line is appended to the block; *)
(*   * the line is replaced as a whole (value and comment);                *)
(*   * nothing else is touched.                                            *)
(*                                                                         *)
(* The reader of the same library (SLHA.tla) takes the LAST assignment of  *)
(* a key over all same-named blocks.  ReaderSeesResult states when the two *)
(* conventions meet; the deviation (an input that already carries the      *)
(* result key twice, or spelled differently, after the first occurrence)   *)
(* is what the code does and is named Shadowed here.                       *)
(***************************************************************************)
EXTENDS Naturals, Sequences, FiniteSets, TLC

CONSTANT Variant       \* "asis" | "erase_following" | "append_always" | "last_block" : wrong variants for non-vacuity

Names    == {"RES", "res", "OTH", "SPINFO"}
Canon(n) == IF n = "res" THEN "RES" ELSE n
KeyToks  == {"6", "06", "7", "#"}                 \* "#": a comment-only line; "06" reads as key 6 but is spelled differently
NumOf(k) == IF k \in {"6", "06"} THEN 6 ELSE IF k = "7" THEN 7 ELSE 0
Spell(e) == IF e = 6 THEN "6" ELSE "7"
Vals     == {"a", "b", "x", "y"}                  \* a, b: values of the input; x, y: values written by the program
Cmts     == {"none", "ca", "cx"}

Line  == [k : KeyToks, v : Vals, c : Cmts]
Block == [name : Names, lines : Seq(Line)]

Ops == [form : {"value"}, name : {"RES", "OTH"}, entry : {6, 7}, v : {"x", "y"}]
       \cup [form : {"text"}, name : {"SPINFO"}, entry : {6}, v : {"x"}]

FirstIdx(s, P(_)) == IF \E i \in 1..Len(s) : P(s[i]) THEN CHOOSE i \in 1..Len(s) : P(s[i]) /\ \A j \in 1..(i - 1) : ~P(s[j]) ELSE 0
LastIdx(s, P(_))  == IF \E i \in 1..Len(s) : P(s[i]) THEN CHOOSE i \in 1..Len(s) : P(s[i]) /\ \A j \in (i + 1)..Len(s) : ~P(s[j]) ELSE 0

NewLine(op) == [k |-> Spell(op.entry), v |-> op.v, c |-> IF op.form = "value" THEN "cx" ELSE "none"]

\* the block addressed by an operation (0: none yet)
Addressed(doc, op) ==
   LET M(b) == Canon(b.name) = Canon(op.name)
   IN IF Variant = "last_block" THEN LastIdx(doc, M) ELSE FirstIdx(doc, M)

WithBlock(doc, op) ==
   IF Addressed(doc, op) # 0 THEN doc
   ELSE IF op.form = "value" THEN Append(doc, [name |-> op.name, lines |-> <<>>])
        ELSE <<[name |-> op.name, lines |-> <<>>]>> \o doc

SetLine(lines, op) ==
   LET j == IF Variant = "append_always" THEN 0 ELSE FirstIdx(lines, LAMBDA l : l.k = Spell(op.entry))
   IN IF j = 0 THEN Append(lines, NewLine(op))
      ELSE IF Variant = "erase_following" THEN Append(SubSeq(lines, 1, j - 1), NewLine(op))
      ELSE [lines EXCEPT ![j] = NewLine(op)]

Apply(doc, op) ==
   LET d1 == WithBlock(doc, op)
       i  == Addressed(d1, op)
   IN [d1 EXCEPT ![i].lines = SetLine(d1[i].lines, op)]

-----------------------------------------------------------------------------
(* Readers of a document *)

\* what the writer itself finds again (first block, first line)
FirstRead(doc, name, e) ==
   LET i == FirstIdx(doc, LAMBDA b : Canon(b.name) = Canon(name))
   IN IF i = 0 THEN "unset"
      ELSE LET j == FirstIdx(doc[i].lines, LAMBDA l : l.k = Spell(e))
           IN IF j = 0 THEN "unset" ELSE doc[i].lines[j].v

\* what GM2_slha_io::read_block finds (SLHA.tla: every same-named block in order, the last assignment of the
\* numeric key wins)
Flat(doc, name) ==
   LET F[i \in 0..Len(doc)] == IF i = 0 THEN <<>>
                                ELSE IF Canon(doc[i].name) = Canon(name) THEN F[i - 1] \o doc[i].lines ELSE F[i - 1]
   IN F[Len(doc)]
LastRead(doc, name, e) ==
   LET f == Flat(doc, name)
       j == LastIdx(f, LAMBDA l : NumOf(l.k) = e)
   IN IF j = 0 THEN "unset" ELSE f[j].v

\* the input carries another assignment of the result key behind the line the writer addresses
Shadowed(doc, op) ==
   LET d1 == WithBlock(doc, op)
       f  == Flat(d1, op.name)
       M(l) == l.k = Spell(op.entry)
       first == FirstIdx(f, M)
   IN /\ first # 0
      /\ \E j \in (first + 1)..Len(f) : NumOf(f[j].k) = op.entry
\* ... or spells the key differently anywhere in a same-named block
Respelled(doc, op) == \E l \in {Flat(doc, op.name)[j] : j \in 1..Len(Flat(doc, op.name))} :
                          NumOf(l.k) = op.entry /\ l.k # Spell(op.entry)
\* ... or has a second block of that name (the appended line then precedes the second block's lines)
TwoBlocks(doc, op) == Cardinality({i \in 1..Len(doc) : Canon(doc[i].name) = Canon(op.name)}) > 1

-----------------------------------------------------------------------------
(* Input documents of the bounded model: up to two blocks of up to two lines *)
Line0   == {[k |-> "6", v |-> "a", c |-> "ca"], [k |-> "06", v |-> "b", c |-> "none"], [k |-> "7", v |-> "b", c |-> "ca"],
            [k |-> "#", v |-> "a", c |-> "ca"]}
Blocks0 == {[name |-> nm, lines |-> ls] : nm \in {"RES", "res", "OTH"}, ls \in UNION {[1..m -> Line0] : m \in 0..2}}
Docs0   == UNION {[1..m -> Blocks0] : m \in 0..2}

-----------------------------------------------------------------------------
\* removing line j of block i
DropLine(d, i, j) == [d EXCEPT ![i].lines = SubSeq(d[i].lines, 1, j - 1) \o SubSeq(d[i].lines, j + 1, Len(d[i].lines))]

\* Echo: everything but the addressed line is kept, in place and in order
EchoStep(d, op, d2) ==
   LET d1 == WithBlock(d, op)
       i  == FirstIdx(d1, LAMBDA b : Canon(b.name) = Canon(op.name))
       j1 == FirstIdx(d1[i].lines, LAMBDA l : l.k = Spell(op.entry))
       j2 == IF j1 # 0 THEN j1 ELSE Len(d1[i].lines) + 1
   IN /\ Len(d2) = Len(d1)
      /\ j2 <= Len(d2[i].lines)
      /\ d2[i].lines[j2] = NewLine(op)
      /\ DropLine(d2, i, j2) = (IF j1 # 0 THEN DropLine(d1, i, j1) ELSE d1)
=============================================================================
