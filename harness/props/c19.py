"""C19 - calculations are pure: deterministic, argument-preserving and thread-safe."""
import json
import os
import random
import re

import build
import cases
import core
import tlc


def run(tier, seed):
    cx = core.Ctx("C19", tier, seed, "model_checking")
    r = tlc.model_check("Purity.tla", "Purity_q.cfg" if tier == "quick" else "Purity_none.cfg", workers=16, heap="10g", timeout=3000)
    cx.add_model(r, "Purity.tla: all interleavings of %d threads x 2 operations each: NoConflict, SharedUnchanged, Pure, Deterministic"
                 % (2 if tier == "quick" else 3))
    for bug, inv in (("memo", "NoConflict"), ("mutatecaller", "SharedUnchanged")):
        r = tlc.model_check("Purity.tla", "Purity_%s.cfg" % bug, expect_violation=inv, workers=8, heap="4g")
        cx.add_model(r, "non-vacuity: variant '%s' must violate %s" % (bug, inv))
    scheds = cases.get("C19")
    rnd = random.Random(seed)
    rnd.shuffle(scheds)
    n_plain, n_tsan = (40, 12) if tier == "quick" else (len(scheds), 120)
    traces = []
    for flavour, n in (("plain", n_plain), ("tsan", n_tsan)):
        exe = build.driver_build("d_pure", flavour=flavour)
        sf = cx.path("sched_%s.txt" % flavour)
        with open(sf, "w") as fh:
            for k, s in enumerate(scheds[:n]):
                fh.write("SCHED %s%04d %d\n" % (flavour[0], k, s["nt"]))
                for t, lst in enumerate(s["lists"]):
                    fh.write("T %d %s\n" % (t, " ".join(lst)))
                fh.write("END\n")
        tr = cx.path("trace_%s.ndjson" % flavour)
        res = core.run_driver(exe, [sf, tr], timeout=7200, allow_rc=(0, 66),
                              env={"TSAN_OPTIONS": "exitcode=66 halt_on_error=0 report_signal_unsafe=0"})
        err = res.stderr.decode("utf-8", "replace")
        reports = re.findall(r"WARNING: ThreadSanitizer: ([^\n]*)\n((?:.*\n){0,12})", err)
        if reports:
            with open(tr, "a") as fh:
                seen = set()
                for title, body in reports:
                    m = re.search(r"#0 (\S+) (\S+)", body)
                    sig = "tsan/%s/%s" % (title.split("(")[0].strip(), m.group(1) if m else "?")
                    if sig not in seen:
                        seen.add(sig)
                        fh.write(json.dumps({"e": "Race", "sig": sig, "report": (title + "\n" + body)[:1500]}) + "\n")
            open(cx.path("tsan_stderr.txt"), "w").write(err[-20000:])
        cx.cov["tsan_reports" if flavour == "tsan" else "plain_reports"] = len(reports)
        traces += tlc.split_trace(tr, 8, group_key="sched")
    for rep in tlc.validate_traces("Trace_C19.tla", traces, jobs=16, heap="3g"):
        cx.add_report(rep)
    for t in traces:
        for ln in open(t):
            ev = json.loads(ln)
            if ev["e"] == "Op":
                cx.evaluations += 1
                cx.distinct.add((ev["sched"], ev["phase"]))
    cx.sample({"schedule": scheds[0]})
    cx.assumptions += ["data-race freedom is observed with ThreadSanitizer during the concurrent replay, not derived from the model",
                       "the complete-state projection (harness/drv/models.hpp: mssm_state / thdm_state) covers every public getter used",
                       "Purity.tla read/write sets transcribed from the sources (const references, local copies, RAII save/restore)"]
    return cx.finish(rule="schedules sampled by TLC (Cases.tla: C19Scheds, 2..16 threads, 2-4 operations per thread over the "
                          "alphabet of Purity.tla) replayed sequentially, in reverse order and concurrently (plain build and "
                          "ThreadSanitizer build); evaluations = operations executed; distinct_nontrivial = (schedule, phase) pairs")
