SPECIFICATION Spec
CONSTANTS
  N = 3
  VMax = 2
  Bug = "no_transpose"
INVARIANTS Contract Ordered NonNegative ScaledUnitary
CHECK_DEADLOCK FALSE
