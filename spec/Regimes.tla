------------------------------- MODULE Regimes -------------------------------
(***************************************************************************)
(* Where the analytic formulas of the loop functions have removable        *)
(* singularities / change their evaluation regime - the enumerated part of *)
(* the quantifiers of C01, C02 and C11.                                    *)
(*                                                                         *)
(* Part 1 (C11): coincidences of the masses of a THDM point.  The loop     *)
(* functions of gm2_ffunctions.cpp and gm2_2loop_B.cpp are special-cased   *)
(* at mass ratios 1 and 1/4, at a vanishing Kaellen function               *)
(* lambda(x,y,z) = 0 (i.e. sqrt(x) = sqrt(y) +- sqrt(z)) and at arguments  *)
(* equal to 1 after scaling with MW or MZ; every relation                  *)
(*   m = a,  m = 2a,  m = a/2,  m = a + b,  m = |a - b|                    *)
(* between a Higgs mass m and the other masses a, b of the point is        *)
(* therefore a candidate (a superset of the special cases in the code).    *)
(*                                                                         *)
(* Part 2 (C01/C02): argument classes of the one- and many-variable loop   *)
(* functions (thresholds transcribed from gm2_ffunctions.cpp, DESIGN A.7). *)
(***************************************************************************)
EXTENDS Integers, Sequences, FiniteSets

Higgs == {"mh", "mH", "mA", "mHp"}
BosonSet == Higgs \cup {"mw", "mz", "mhSM"}
FermionSet == {"mt", "mb", "mtau"}

\* components: B, F, L = the bosonic / fermionic two-loop and the one-loop parameter structs (any mass is movable
\* independently); M = the public path (mass-basis input moved, model rebuilt, calculate_amu_* and uncertainties)
Others(comp, m) == (IF comp = "B" THEN BosonSet ELSE IF comp \in {"F", "M"} THEN BosonSet \cup FermionSet
                    ELSE BosonSet \cup {"mtau", "mm"}) \ {m}

Coincidences(comp) ==
   {[comp |-> comp, moving |-> m, rel |-> r, a |-> a, b |-> "-"] :
        m \in Higgs, r \in {"eq", "twice", "half"}, a \in BosonSet \cup FermionSet \cup {"mm"}}
   \cup {[comp |-> comp, moving |-> m, rel |-> r, a |-> a, b |-> b] :
        m \in Higgs, r \in {"sum", "diff"}, a \in BosonSet \cup FermionSet, b \in BosonSet \cup FermionSet}

MassOrder == <<"mh", "mH", "mA", "mHp", "mw", "mz", "mhSM", "mt", "mb", "mtau", "mm">>
Rank(n) == CHOOSE i \in DOMAIN MassOrder : MassOrder[i] = n

Valid(c) == /\ c.a \in Others(c.comp, c.moving)
            /\ (c.b # "-" => (c.b \in Others(c.comp, c.moving) /\ Rank(c.a) < Rank(c.b)))      \* unordered pairs once
            /\ (c.comp = "L" => c.rel \in {"eq", "twice", "half"})

AllCoincidences == {c \in Coincidences("B") \cup Coincidences("F") \cup Coincidences("L") \cup Coincidences("M") : Valid(c)}

\* ---- Part 1b (C11): MSSM.  Masses are not independent inputs there: a Lagrangian parameter is moved and the
\* coincidence  A = B, A = 2B, A = B/2  between two masses (or parameter magnitudes, for the mass-insertion
\* approximations Fa, Fb, Iabc) is located on the parameter axis by the driver (component "S").
Gauginos == {"MChi_00", "MChi_10", "MChi_20", "MChi_30", "MCha_00", "MCha_10"}
Sleptons == {"MSm_00", "MSm_10", "MSvmL"}
ParamMags == {"absM1", "absM2", "absMu", "mslL", "mslR"}
MagOf(par) == CASE par = "M1" -> "absM1" [] par = "M2" -> "absM2" [] par = "Mu" -> "absMu" [] par = "ml2_1" -> "mslL"
                [] par = "me2_1" -> "mslR" [] OTHER -> "-"
ThresholdHeavy == {"Mhh_00", "Mhh_10", "MAh_10"}
ThresholdLight == {"MCha_00", "MCha_10", "MSt_00", "MSt_10", "MSb_00", "MSb_10", "MStau_00", "MStau_10", "MSm_00", "MSm_10"}
C(par, r, a, b) == [comp |-> "S", moving |-> par, rel |-> r, a |-> a, b |-> b]
MSSMCoincidences ==
   \* one-loop: x = m_chi^2 / m_slepton^2 = 1 (Taylor windows of F1C..F4N)
   {C(par, "eq", a, b) : par \in {"M1", "M2", "Mu", "ml2_1", "me2_1"}, a \in Gauginos, b \in Sleptons}
   \* equal arguments of Fa, Fb, Iabc (tan(beta) resummation, one-loop approximations)
   \cup {C(par, "eq", MagOf(par), b) : par \in {"M1", "M2", "Mu", "ml2_1", "me2_1"}, b \in ParamMags}
   \* two-loop Barr-Zee: mass ratio 1/4 and 1 of f_PS, f_S, f_sferm
   \cup {C(par, r, a, b) : par \in {"MA0", "M2", "Mu", "mq2_2", "mu2_2", "md2_2", "ml2_2", "me2_2"}, r \in {"half", "eq"},
                           a \in ThresholdLight, b \in ThresholdHeavy}
   \* a Higgs mass equal to MZ or MW: tan(2 alpha) of the tree-level CP-even mixing has its pole at MA0 = MZ
   \cup {C("MA0", "eq", a, b) : a \in {"MAh_10", "Mhh_10", "MHpm_10"}, b \in {"MVZ", "MVWm"}}

AllCoincidencesC11 == AllCoincidences \cup {c \in MSSMCoincidences : c.a # c.b}

\* ---- Part 2 (C01): evaluation regimes of the one-variable functions ------------------------------------------
\* Transcribed from src/gm2_ffunctions.cpp / gm2_dilog.cpp: per function the Taylor window around 1 (relative
\* closeness is_equal_rel(x, 1, eps), i.e. |x - 1| < eps (1 + max(x, 1)): the window is 1 - 2 eps < x < (1 + eps)/(1 - eps)), the threshold of the large-argument expansion, whether
\* 1/4 is special-cased, the kind of value documented at exactly 0 and whether a negative argument must give NaN.
\* Every regime and both sides of every regime boundary is an argument class; the harness concretises each class.
NoWin == <<0, 1>>
FSpec(win, hi, quarter, zero, tinyps) == [win |-> win, hi |-> hi, quarter |-> quarter, zero |-> zero, tinyps |-> tinyps]
OneVar == [f \in {"F1C", "F2C", "F3C", "F4C", "F1N", "F2N", "F3N", "F4N", "G3", "G4", "f_PS", "f_S", "f_sferm", "f_CSl",
                  "F1", "F1t", "F2", "F3"} |->
   CASE f = "F1C" -> FSpec(<<3, 100>>, 0, FALSE, "limit", FALSE)          \* F1C(0) = 4
     [] f = "F2C" -> FSpec(<<3, 100>>, 0, FALSE, "conv0", FALSE)          \* log-divergent, 0 by convention
     [] f = "F3C" -> FSpec(<<3, 100>>, 0, FALSE, "none", FALSE)
     [] f = "F4C" -> FSpec(<<3, 100>>, 0, FALSE, "conv0", FALSE)
     [] f = "F1N" -> FSpec(<<3, 100>>, 0, FALSE, "limit", FALSE)          \* 2
     [] f = "F2N" -> FSpec(<<4, 100>>, 0, FALSE, "limit", FALSE)          \* 3
     [] f = "F3N" -> FSpec(<<3, 100>>, 0, FALSE, "limit", FALSE)          \* 8/105
     [] f = "F4N" -> FSpec(<<3, 100>>, 0, FALSE, "limit", FALSE)          \* -3/4 (pi^2 - 9)
     [] f = "G3"  -> FSpec(<<1, 100>>, 0, FALSE, "none", FALSE)
     [] f = "G4"  -> FSpec(<<1, 100>>, 0, FALSE, "none", FALSE)
     [] f = "f_PS" -> FSpec(NoWin, 0, TRUE, "limit", TRUE)                \* 0; z < DBL_EPSILON: z (pi^2/3 + log^2 z)
     [] f = "f_S" -> FSpec(NoWin, 100, FALSE, "limit", TRUE)
     [] f = "f_sferm" -> FSpec(NoWin, 0, FALSE, "limit", TRUE)
     [] f = "f_CSl" -> FSpec(NoWin, 0, FALSE, "limit", FALSE)
     [] f = "F1" -> FSpec(NoWin, 0, TRUE, "limit", TRUE)
     [] f = "F1t" -> FSpec(NoWin, 0, TRUE, "limit", TRUE)
     [] f = "F2" -> FSpec(NoWin, 0, TRUE, "none", TRUE)                   \* -> -inf
     [] f = "F3" -> FSpec(NoWin, 100, TRUE, "none", TRUE)]

BaseClasses == {"tiny", "small", "belowQuarter", "aboveQuarter", "mid", "nearOneLo", "nearOneHi", "one", "above", "hundredLo", "hundredHi",
                "large", "huge", "negative"}
ClassesOf(f) == BaseClasses
   \cup (IF OneVar[f].zero # "none" THEN {"zero"} ELSE {})
   \cup (IF OneVar[f].win # NoWin THEN {"winLoOut", "winLoIn", "winHiIn", "winHiOut", "winDeep"} ELSE {})
   \cup (IF OneVar[f].quarter THEN {"quarter", "quarterLo", "quarterHi"} ELSE {})
   \cup (IF OneVar[f].hi # 0 THEN {"hiEdgeLo", "hiEdgeHi"} ELSE {})
   \cup (IF OneVar[f].tinyps THEN {"epsEdgeLo", "epsEdgeHi"} ELSE {})
OneVarCases == UNION {{[fn |-> f, cls |-> c, win |-> OneVar[f].win, hi |-> OneVar[f].hi, zero |-> OneVar[f].zero] : c \in ClassesOf(f)} : f \in DOMAIN OneVar}

\* real dilogarithm (range reduction at -1, 0, 1/2, 1, 2), Clausen function (period 2 pi, symmetry at pi),
\* complex dilogarithm (unit disc, |z| < 1/2 vs. log-series near 1, inversion outside, the cut re > 1)
DilogClasses == {"negHuge", "negLarge", "negOneLo", "negOne", "negOneHi", "negSmall", "zero", "posSmall", "halfLo", "half", "halfHi",
                 "oneLo", "one", "oneHi", "twoLo", "two", "twoHi", "large", "huge"}
Cl2Classes == {"zero", "tiny", "small", "piLo", "pi", "piHi", "twoPiLo", "twoPi", "twoPiHi", "neg", "negPi", "large", "huge", "generic"}
CDilogClasses == {"zero", "tinyMod", "smallMod", "insideHalf", "halfCircle", "unitCircle", "nearOne", "one", "outside", "farOutside", "realAxisLeft",
                  "cutAbove", "cutBelow", "imagAxis", "negReal", "generic"}
SpecialCases == {[fn |-> "dilog", cls |-> c, win |-> NoWin, hi |-> 0, zero |-> "limit"] : c \in DilogClasses}
          \cup {[fn |-> "clausen_2", cls |-> c, win |-> NoWin, hi |-> 0, zero |-> "limit"] : c \in Cl2Classes}
          \cup {[fn |-> "cdilog", cls |-> c, win |-> NoWin, hi |-> 0, zero |-> "limit"] : c \in CDilogClasses}
C01Cases == OneVarCases \cup SpecialCases

\* ---- Part 3 (C02): argument classes of the many-variable functions ------------------------------------------
\* Case analysis transcribed from gm2_ffunctions.cpp:381-610 (sorting, zero, all-equal, pairwise-equal within
\* 1e-5 / 1e-4, an argument equal to 1 within 1e-4 / 1e-2), :62-222 (Phi: sign of lambda^2, inversion, small u, v),
\* :809-957 (difference quotients: equal within 1e-8, 1/4, large).  nearK = relative distance 10^-K.
NearClasses == {"near12", "near10", "near8", "near6", "near5", "near4", "near3", "near2", "near1"}
PairClassesFab == {"generic", "equal", "bothOne", "winOneIn", "winOneEdge", "xOne", "xNearOne", "bothSmall", "smallApart", "hier", "zeroLarge"}
                  \cup NearClasses
QuotClasses == {"generic", "equal", "equalQuarter", "equalNearQuarter", "equalLarge", "equalSmall", "xZero", "apart3", "crossQuarter", "large", "small"}
TripleClassesI == {"generic", "allEqual", "twoEqualLo", "twoEqualHi", "allNear", "oneIsMax", "oneZero", "twoZero", "allZero", "hier"} \cup NearClasses
\* oneTiny: one ratio below qdrt_eps (2.2e-4, small-argument expansions l0v / lv0) and the other of order one
TripleClassesPhi == {"generic", "kallenPos", "kallenNeg", "kallenZero", "pairEqual", "pairNear", "uOne", "allEqual", "smallUV", "hier", "oneTiny",
                     "kallenNear12", "kallenNear10", "kallenNear8", "kallenNear6", "kallenNear4", "kallenNear3"}
CSClasses == {"generic", "physical", "kallenNear", "xdZero"}
FCWClasses == {"physical", "equalScales", "generic"}
Cls(fs, cs) == {[fn |-> f, cls |-> c] : f \in fs, c \in cs}
C02Cases == Cls({"Fa", "Fb"}, PairClassesFab) \cup Cls({"FPZ", "FSZ", "FCWl"}, QuotClasses) \cup Cls({"Iabc"}, TripleClassesI)
            \cup Cls({"Phi", "lambda_2", "Phi_over_lambda_2"}, TripleClassesPhi) \cup Cls({"f_CSd", "f_CSu"}, CSClasses \ {"xdZero"}) \cup Cls({"f_CSd"}, {"xdZero"})   \* only f_CSd documents xd = 0
            \cup Cls({"FCWu", "FCWd"}, FCWClasses)
=============================================================================
