SPECIFICATION Spec
CONSTANT BugC = "none"
INVARIANTS ConvergedOrWarned WarnOnlyIfNotConverged LoopBound
PROPERTY FlagsIndependent
CHECK_DEADLOCK FALSE
