// Linear-algebra driver (C12): calls the decomposition templates of src/gm2_linalg.hpp (header only,
// compiled from the working tree) on matrices concretised from abstract classes and records input,
// factors and error bounds losslessly.  No comparison is made here.
//
// usage: d_linalg <casefile> <tracefile>
//   case line: <id> <routine> <real|complex> <n> <pattern> <basis>
#include "trace.hpp"
#include "gm2_linalg.hpp"

#include <Eigen/Dense>
#include <fstream>
#include <sstream>

using cd = std::complex<double>;

namespace {

template <int N> using RMat = Eigen::Matrix<double, N, N>;
template <int N> using CMat = Eigen::Matrix<cd, N, N>;

template <class M>
std::string mat_json(const M& a)
{
   std::string s = "[";
   for (int i = 0; i < a.rows(); ++i)
      for (int k = 0; k < a.cols(); ++k) {
         if (i || k) s += ',';
         s += "[" + vt::enc(std::real(a(i, k))) + "," + vt::enc(std::imag(a(i, k))) + "]";
      }
   return s + "]";
}

template <class A>
std::string arr_json(const A& a)
{
   std::string s = "[";
   for (int i = 0; i < a.size(); ++i) { if (i) s += ','; s += vt::enc(a(i)); }
   return s + "]";
}

// eigen/singular values for an abstract pattern
template <int N>
Eigen::Array<double, N, 1> spectrum(const std::string& pat, vt::Rng& r, bool allow_neg)
{
   Eigen::Array<double, N, 1> d;
   for (int i = 0; i < N; ++i) d(i) = r.logu(0.5, 50) * (allow_neg && r.coin() ? -1 : 1);
   if (pat == "allpos") d = d.abs();
   if (pat == "allneg" && allow_neg) d = -d.abs();
   if (pat == "double") d(1) = d(0);
   if (pat == "triple") for (int i = 1; i < N && i < 3; ++i) d(i) = d(0);
   if (pat == "allequal") for (int i = 1; i < N; ++i) d(i) = d(0);
   if (pat == "zero") d(r.below(N)) = 0;
   if (pat == "zero2") { d(0) = 0; d(N - 1) = 0; }
   if (pat == "negpair" && allow_neg) d(1) = -d(0);                 // equal magnitude, opposite sign
   if (pat == "hier") for (int i = 0; i < N; ++i) d(i) = std::pow(10.0, -12.0 * i / (N - 1)) * r.uni(1, 9) * (allow_neg && r.coin() ? -1 : 1);
   // an exactly degenerate pair of the largest magnitude (negative resp. positive), smaller magnitudes of either sign behind it
   if (pat == "negdouble" || pat == "posdouble") {
      const double a = r.logu(5, 50) * (pat == "negdouble" && allow_neg ? -1 : 1);
      d(0) = a; d(1) = a;
      for (int i = 2; i < N; ++i) d(i) = std::abs(a) * r.uni(0.05, 0.9) * (allow_neg && r.coin() ? -1 : 1);
   }
   if (pat == "int") for (int i = 0; i < N; ++i) d(i) = double(r.below(5) - (allow_neg ? 2 : 0));
   return d;
}

template <int N>
RMat<N> rand_orth(vt::Rng& r)
{
   RMat<N> a;
   for (int i = 0; i < N; ++i) for (int k = 0; k < N; ++k) a(i, k) = r.uni(-1, 1);
   Eigen::HouseholderQR<RMat<N>> qr(a);
   return qr.householderQ();
}

template <int N>
CMat<N> rand_unit(vt::Rng& r)
{
   CMat<N> a;
   for (int i = 0; i < N; ++i) for (int k = 0; k < N; ++k) a(i, k) = cd(r.uni(-1, 1), r.uni(-1, 1));
   Eigen::HouseholderQR<CMat<N>> qr(a);
   return qr.householderQ();
}

template <int N>
RMat<N> signed_perm(vt::Rng& r)
{
   int idx[N];
   for (int i = 0; i < N; ++i) idx[i] = i;
   for (int i = N - 1; i > 0; --i) std::swap(idx[i], idx[r.below(i + 1)]);
   RMat<N> p = RMat<N>::Zero();
   for (int i = 0; i < N; ++i) p(i, idx[i]) = r.coin() ? 1.0 : -1.0;
   return p;
}

template <int N>
RMat<N> basis_real(const std::string& b, vt::Rng& r)
{
   if (b == "diag") return RMat<N>::Identity();
   if (b == "perm") return signed_perm<N>(r);
   return rand_orth<N>(r);
}

template <int N>
CMat<N> basis_cplx(const std::string& b, vt::Rng& r)
{
   if (b == "diag") return CMat<N>::Identity();
   if (b == "perm") { CMat<N> p = signed_perm<N>(r).template cast<cd>(); for (int i = 0; i < N; ++i) if (r.coin()) p.row(i) *= cd(0, 1); return p; }
   return rand_unit<N>(r);
}

template <int N>
void run_n(const std::string& id, const std::string& routine, bool cplx, const std::string& pat, const std::string& bas, vt::Rng& r)
{
   using namespace gm2calc;
   vt::Ev ev("Decomp");
   ev.str("case", id).str("routine", routine).str("scalar", cplx ? "complex" : "real").i("n", N).str("pattern", pat).str("basis", bas)
     .str("sig", routine + "/" + (cplx ? "complex" : "real") + "/" + std::to_string(N) + "/" + pat + "/" + bas);
   Eigen::Array<double, N, 1> s;
   double s_errbd = -1;
   Eigen::Array<double, N, 1> u_errbd = Eigen::Array<double, N, 1>::Constant(-1), v_errbd = Eigen::Array<double, N, 1>::Constant(-1);
   const bool herm = routine.find("hermitian") != std::string::npos;
   const bool symm = routine.find("symmetric") != std::string::npos;
   const Eigen::Array<double, N, 1> d = spectrum<N>(pat, r, herm || symm);
   if (!cplx) {
      RMat<N> m;
      if (herm || symm) { const RMat<N> q = basis_real<N>(bas, r); m = q.transpose() * d.matrix().asDiagonal() * q; m = (0.5 * (m + m.transpose())).eval(); }
      else { const RMat<N> a = basis_real<N>(bas, r), b = basis_real<N>(bas == "rot" ? "rot" : (bas == "perm" ? "perm" : "diag"), r); m = a * d.matrix().asDiagonal() * b; }
      if (pat == "zerorow") { m.row(0).setZero(); if (herm || symm) m.col(0).setZero(); }
      ev.raw("m", mat_json(m));
      if (routine == "fs_svd") { RMat<N> u, v; fs_svd<double, double, N, N>(m, s, u, v, s_errbd, u_errbd, v_errbd); ev.raw("u", mat_json(u)).raw("v", mat_json(v)); }
      else if (routine == "fs_svd_rc") { CMat<N> u, v; fs_svd<double, N, N>(m, s, u, v, s_errbd, u_errbd, v_errbd); ev.raw("u", mat_json(u)).raw("v", mat_json(v)); }   // real m, complex u, v (chargino)
      else if (routine == "svd") { RMat<N> u, v; svd<double, double, N, N>(m, s, u, v, s_errbd, u_errbd, v_errbd); ev.raw("u", mat_json(u)).raw("v", mat_json(v)); }
      else if (routine == "reorder_svd") { RMat<N> u, v; reorder_svd<double, double, N, N>(m, s, u, v, s_errbd, u_errbd, v_errbd); ev.raw("u", mat_json(u)).raw("v", mat_json(v)); }
      else if (routine == "fs_diagonalize_hermitian") { RMat<N> z; fs_diagonalize_hermitian<double, double, N>(m, s, z, s_errbd, u_errbd); ev.raw("u", mat_json(z)); }
      else if (routine == "diagonalize_hermitian") { RMat<N> z; diagonalize_hermitian<double, double, N>(m, s, z, s_errbd, u_errbd); ev.raw("u", mat_json(z)); }
      else if (routine == "fs_diagonalize_symmetric") { CMat<N> u; fs_diagonalize_symmetric<double, double, N>(m, s, u, s_errbd, u_errbd); ev.raw("u", mat_json(u)); }
      else if (routine == "reorder_diagonalize_symmetric") { CMat<N> u; reorder_diagonalize_symmetric<double, double, N>(m, s, u, s_errbd, u_errbd); ev.raw("u", mat_json(u)); }
      else if (routine == "diagonalize_symmetric") { CMat<N> u; diagonalize_symmetric<double, N>(m, s, u, s_errbd, u_errbd); ev.raw("u", mat_json(u)); }
   } else {
      CMat<N> m;
      const CMat<N> q = basis_cplx<N>(bas, r);
      if (herm) { m = q.adjoint() * d.matrix().asDiagonal() * q; m = (0.5 * (m + m.adjoint())).eval(); }
      else if (symm) { m = q.transpose() * d.abs().matrix().asDiagonal() * q; m = (0.5 * (m + m.transpose())).eval(); }
      else { const CMat<N> b = basis_cplx<N>(bas, r); m = q * d.matrix().asDiagonal() * b; }
      if (pat == "zerorow") { m.row(0).setZero(); if (herm) m.col(0).setZero(); if (symm) m.col(0).setZero(); }
      ev.raw("m", mat_json(m));
      if (routine == "fs_svd") { CMat<N> u, v; fs_svd<double, cd, N, N>(m, s, u, v, s_errbd, u_errbd, v_errbd); ev.raw("u", mat_json(u)).raw("v", mat_json(v)); }
      else if (routine == "svd") { CMat<N> u, v; svd<double, cd, N, N>(m, s, u, v, s_errbd, u_errbd, v_errbd); ev.raw("u", mat_json(u)).raw("v", mat_json(v)); }
      else if (routine == "reorder_svd") { CMat<N> u, v; reorder_svd<double, cd, N, N>(m, s, u, v, s_errbd, u_errbd, v_errbd); ev.raw("u", mat_json(u)).raw("v", mat_json(v)); }
      else if (routine == "fs_diagonalize_hermitian") { CMat<N> z; fs_diagonalize_hermitian<double, cd, N>(m, s, z, s_errbd, u_errbd); ev.raw("u", mat_json(z)); }
      else if (routine == "diagonalize_hermitian") { CMat<N> z; diagonalize_hermitian<double, cd, N>(m, s, z, s_errbd, u_errbd); ev.raw("u", mat_json(z)); }
      else if (routine == "fs_diagonalize_symmetric") { CMat<N> u; fs_diagonalize_symmetric<double, cd, N>(m, s, u, s_errbd, u_errbd); ev.raw("u", mat_json(u)); }
      else if (routine == "reorder_diagonalize_symmetric") { CMat<N> u; reorder_diagonalize_symmetric<double, cd, N>(m, s, u, s_errbd, u_errbd); ev.raw("u", mat_json(u)); }
      else if (routine == "diagonalize_symmetric") { CMat<N> u; diagonalize_symmetric<double, N>(m, s, u, s_errbd, u_errbd); ev.raw("u", mat_json(u)); }
   }
   ev.raw("s", arr_json(s)).num("s_errbd", s_errbd).raw("u_errbd", arr_json(u_errbd)).raw("v_errbd", arr_json(v_errbd));
   ev.emit();
}

} // namespace

int main(int argc, char** argv)
{
   if (argc < 3) { std::fprintf(stderr, "usage: d_linalg <casefile> <tracefile>\n"); return 2; }
   std::ifstream in(argv[1]);
   vt::open_trace(argv[2]);
   vt::install_terminate();
   vt::Rng rng(vt::env_seed());
   std::string line;
   while (std::getline(in, line)) {
      std::istringstream is(line);
      std::string id, routine, scalar, pat, bas;
      int n = 0;
      if (!(is >> id >> routine >> scalar >> n >> pat >> bas)) continue;
      const bool c = scalar == "complex";
      if (n == 2) run_n<2>(id, routine, c, pat, bas, rng);
      else if (n == 3) run_n<3>(id, routine, c, pat, bas, rng);
      else run_n<4>(id, routine, c, pat, bas, rng);
   }
   vt::flush_trace();
   return 0;
}
