SPECIFICATION Spec
CONSTANTS
  Variant = "asis"
  MaxOps = 2
INVARIANTS TypeOK WriterSeesResult Idempotent
PROPERTIES EchoOthers ReaderSeesResult BlockPlacement
CHECK_DEADLOCK FALSE
