SPECIFICATION Spec
CONSTANTS
  Variant = "last_block"
  MaxOps = 2
INVARIANTS TypeOK WriterSeesResult Idempotent
PROPERTIES EchoOthers ReaderSeesResult BlockPlacement
CHECK_DEADLOCK FALSE
