"""Common flow of every check: work dir, violations vs. known findings, evidence, exit code."""
import json
import os
import re
import shutil
import subprocess
import sys
import time

VERIF = os.path.dirname(os.path.dirname(os.path.dirname(os.path.abspath(__file__))))
EVID = os.path.join(VERIF, "evidence")
REPLAYS = os.path.join(VERIF, "replays")
KNOWN = os.path.join(VERIF, "known_findings.json")


def load_known(pid):
    try:
        data = json.load(open(KNOWN))
    except (OSError, ValueError):
        return []
    return [e for e in data.get("findings", []) if e.get("property") == pid]


class Ctx:
    def __init__(self, pid, tier, seed, level):
        self.pid, self.tier, self.seed, self.level = pid, tier, seed, level
        self.t0 = time.time()
        self.work = os.path.join(os.environ.get("GM2_VERIF_WORKROOT", "/var/tmp/gm2verif/.work"),
                                 "%s_%d" % (pid, os.getpid()))
        shutil.rmtree(self.work, ignore_errors=True)
        root = os.path.dirname(self.work)
        if os.path.isdir(root):             # work dirs of dead processes
            for d in os.listdir(root):
                m = re.match(r"^(C\d+)_(\d+)$", d)
                if m and not os.path.exists("/proc/%s" % m.group(2)):
                    shutil.rmtree(os.path.join(root, d), ignore_errors=True)
        os.makedirs(self.work)
        self.viol = []          # dicts: inv, sig, detail, files
        self.cov = {"samples": []}
        self.assumptions = []
        self.notes = []
        self.states = 0
        self.transitions = 0
        self.traces = 0
        self.evaluations = 0
        self.distinct = set()

    # ---- bookkeeping ---------------------------------------------------------------------
    def path(self, name):
        return os.path.join(self.work, name)

    def add_model(self, r, label):
        """account a TLC model-checking run"""
        self.states += r.get("distinct", 0)
        self.transitions += r.get("generated", 0)
        self.cov.setdefault("model_runs", []).append(
            {"config": label, "distinct_states": r.get("distinct", 0),
             "states_generated": r.get("generated", 0), "depth": r.get("depth"),
             "wall_s": round(r.get("wall_s", 0), 1), "expected_violation": r.get("violated")})

    def sample(self, s):
        if len(self.cov["samples"]) < 6:
            self.cov["samples"].append(s)

    def note(self, s):
        self.notes.append(s)

    def violation(self, inv, sig, detail, files=()):
        self.viol.append({"inv": inv, "sig": sig, "detail": detail, "files": list(files)})

    def add_report(self, rep, trace_label=None):
        """account a trace-validation report written by a trace spec"""
        self.traces += 1
        self.states += rep.get("states", 0)
        self.transitions += rep.get("states", 0)
        for v in rep.get("viol", []):
            self.violation(v["inv"], v.get("sig", ""), "line %s of %s" % (v.get("l"), rep.get("trace")),
                           [rep.get("trace")])

    # ---- binding self-test ----------------------------------------------------------------
    def selftest_corruption(self, spec, trace, pick, expect_inv, cfg="Trace.cfg", heap="3g", every=False, big=False):
        """Corrupt one logged number of a recorded trace and require the trace specification to reject it.
        pick(ev) returns the Dyadic record (a dict inside ev) to corrupt, or None to skip the event.  The first
        event for which pick returns a record is corrupted (its value roughly doubled or halved).  A trace specification that
        still accepts is blind to that field: that is a failure of the machinery (exit 2), never a verdict."""
        import tlc
        lines = open(trace).read().splitlines()
        done = None
        for i, ln in enumerate(lines):
            ev = json.loads(ln)
            d = pick(ev)
            if d is not None and d.get("k") == "fin" and d.get("m"):
                t = d["m"][-1]
                if big:
                    d["q"] += 1                                                   # times 2^15
                else:
                    d["m"][-1] = t * 2 if t * 2 < 32768 else max(1, t // 2)      # top limb: the value changes by about a factor 2
                if "b" in d:
                    d["b"][1] = (d["b"][1] + 1) % 65536
                lines[i] = json.dumps(ev)
                done = done or i + 1
                if not every:
                    break
        rec = {"spec": spec, "corrupted_line": done, "expected": expect_inv}
        if done is None:
            rec["result"] = "skipped (no applicable event)"
            self.cov.setdefault("binding_selftests", []).append(rec)
            return
        out = trace + ".corrupt"
        open(out, "w").write("\n".join(lines) + "\n")
        rep = tlc.validate_trace(spec, out, cfg=cfg, heap=heap)
        hits = [v for v in rep.get("viol", []) if done <= v.get("l", 0) <= done + 3 or re.search(expect_inv, v["inv"])]
        rec["result"] = "rejected: " + ", ".join(sorted({v["inv"] for v in hits})) if hits else "ACCEPTED"
        self.cov.setdefault("binding_selftests", []).append(rec)
        if not hits:
            raise RuntimeError("binding self-test failed: %s accepts a trace whose line %d was corrupted" % (spec, done))

    # ---- finish ----------------------------------------------------------------------------
    def finish(self, rule, extra_cov=None, exhaustive=None):
        known = load_known(self.pid)
        hit = {}
        fresh = []
        for v in self.viol:
            m = None
            for k in known:
                if k.get("kind") != "known":
                    continue
                mt = k.get("match", {})
                if re.search(mt.get("inv", ""), v["inv"]) and re.search(mt.get("sig", ""), v["sig"] or ""):
                    m = k
                    break
            if m is not None:
                hit.setdefault(m["id"], [m, 0])[1] += 1
            else:
                fresh.append(v)
        for kid, (k, n) in sorted(hit.items()):
            print("KNOWN-FINDING: property=%s %s: %s (%d occurrences in this run)"
                  % (self.pid, kid, k.get("what", ""), n))
        rc = 0
        if fresh:
            rc = 1
            # one replay directory per distinct (inv, sig)
            seen = {}
            for v in fresh:
                key = (v["inv"], v["sig"])
                seen.setdefault(key, []).append(v)
            n = 0
            # replays of earlier runs of this property and tier are superseded (disk space is limited)
            pdir = os.path.join(REPLAYS, self.pid)
            if os.path.isdir(pdir):
                for d in os.listdir(pdir):
                    if d.startswith(self.tier + "_"):
                        shutil.rmtree(os.path.join(pdir, d), ignore_errors=True)
            for (inv, sig), vs in sorted(seen.items()):
                n += 1
                rdir = os.path.join(REPLAYS, self.pid, "%s_%03d" % (self.tier, n))
                shutil.rmtree(rdir, ignore_errors=True)
                os.makedirs(rdir)
                for f in vs[0]["files"]:
                    if f and os.path.exists(f) and n <= 40:
                        try:
                            if os.path.getsize(f) < (1 << 20):
                                shutil.copy(f, rdir)
                            else:
                                # large trace: the 400 lines up to the violating line (the events of its case / family)
                                m = re.search(r"line (\d+) of", vs[0]["detail"] or "")
                                ln = int(m.group(1)) if m else 1
                                with open(f) as fi, open(os.path.join(rdir, os.path.basename(f) + ".excerpt"), "w") as fo:
                                    fo.write("# lines %d..%d of %s\n" % (max(1, ln - 400), ln + 5, f))
                                    for i, line in enumerate(fi, 1):
                                        if i > ln + 5:
                                            break
                                        if i >= ln - 400:
                                            fo.write(line)
                        except OSError:
                            pass
                with open(os.path.join(rdir, "violation.json"), "w") as fh:
                    json.dump({"property": self.pid, "invariant": inv, "signature": sig, "seed": self.seed,
                               "tier": self.tier, "occurrences": len(vs), "first": vs[0]["detail"],
                               "replay": "VERIF_SEED=%d python3 harness/check.py %s --tier %s"
                                         % (self.seed, self.pid, self.tier)}, fh, indent=1)
                print("VIOLATION property=%s replay=%s  (invariant %s, case %s, %d occurrences; %s)"
                      % (self.pid, rdir, inv, sig, len(vs), vs[0]["detail"]))
        cov = dict(self.cov)
        cov["evaluations"] = int(self.evaluations)
        cov["distinct_nontrivial"] = len(self.distinct)
        cov["rule"] = rule
        cov["states"] = int(self.states)
        cov["transitions"] = int(self.transitions)
        cov["traces_validated_against_impl"] = int(self.traces)
        if exhaustive is not None:
            cov["exhaustive"] = exhaustive
        if self.notes:
            cov["notes"] = self.notes
        cov["known_findings_hit"] = {k: v[1] for k, v in hit.items()}
        if extra_cov:
            cov.update(extra_cov)
        if not cov.get("samples"):
            raise RuntimeError("evidence without samples: the check must record at least one explored case")
        ev = {"property_id": self.pid, "tier": self.tier, "seed": int(self.seed), "level": self.level,
              "coverage": cov, "assumptions": self.assumptions,
              "wall_s": round(time.time() - self.t0, 2), "violations": len(fresh)}
        os.makedirs(EVID, exist_ok=True)
        tmp = os.path.join(EVID, ".%s.json.tmp" % self.pid)
        with open(tmp, "w") as fh:
            json.dump(ev, fh, indent=1, default=str)
        os.replace(tmp, os.path.join(EVID, "%s.json" % self.pid))
        if rc == 0 and not os.environ.get("VERIF_KEEP"):
            shutil.rmtree(self.work, ignore_errors=True)
        print("%s %s: %s  evaluations=%d distinct=%d states=%d traces=%d wall=%.1fs"
              % (self.pid, self.tier, "PASS" if rc == 0 else "FAIL", self.evaluations, len(self.distinct),
                 self.states, self.traces, time.time() - self.t0))
        return rc


def run_driver(exe, args, timeout=1800, env=None, cwd=None, allow_rc=(0,)):
    e = dict(os.environ)
    if env:
        e.update({k: str(v) for k, v in env.items()})
    r = subprocess.run([exe] + [str(a) for a in args], stdout=subprocess.PIPE, stderr=subprocess.PIPE,
                       env=e, timeout=timeout, cwd=cwd)
    if r.returncode not in allow_rc:
        raise RuntimeError("driver %s %s exited with %d\n%s" % (exe, args, r.returncode,
                                                                 r.stderr.decode("utf-8", "replace")[-3000:]))
    return r


def dy(d):
    """python float of a logged dyadic (for reporting only, never for verdicts)"""
    if d.get("k") == "nan":
        return float("nan")
    if d.get("k") == "inf":
        return d["s"] * float("inf")
    m = 0
    for i, limb in enumerate(d["m"]):
        m += limb << (15 * i)
    try:
        return d["s"] * m * 2.0 ** (15 * d["q"])
    except OverflowError:
        import fractions
        return float(d["s"] * fractions.Fraction(m) * fractions.Fraction(2) ** (15 * d["q"]))


def dyadic_of(x):
    """exact Dyadic.tla record of a Python float"""
    import math
    import struct
    bits = struct.unpack("<Q", struct.pack("<d", x))[0]
    b = [bits & 0xffff, (bits >> 16) & 0xffff, (bits >> 32) & 0xffff, (bits >> 48) & 0xffff]
    if math.isnan(x):
        return {"k": "nan", "s": 0, "q": 0, "m": [], "b": b}
    if math.isinf(x):
        return {"k": "inf", "s": 1 if x > 0 else -1, "q": 0, "m": [], "b": b}
    if x == 0:
        return {"k": "fin", "s": 0, "q": 0, "m": [], "b": b}
    fr, e = math.frexp(abs(x))
    n, e2 = int(fr * (1 << 53)), e - 53
    q = e2 // 15
    n <<= e2 - 15 * q
    m = []
    while n:
        m.append(n & 0x7fff)
        n >>= 15
    while m and m[0] == 0:
        m.pop(0)
        q += 1
    return {"k": "fin", "s": 1 if x > 0 else -1, "q": q, "m": m, "b": b}
