------------------------------ MODULE Trace_C17 ------------------------------
(***************************************************************************)
(* C17 - the C interface is a faithful, exception-tight mirror of the C++  *)
(* interface.  Call sequences generated from CAPI.tla histories are        *)
(* replayed on a C handle and on a mirrored C++ object; events:            *)
(*   Call(seq, i, c, p, [v], [cret, mret], [code, mcode], [cint, mint],    *)
(*        mexc, ...)       one per C call, written after it returned       *)
(*   Terminated            written by std::terminate (escaped exception)   *)
(*   SeqEnd(seq, planned, exited, status, signal)   by the parent process  *)
(* Invariants: NeverAborts, Mirror (bit-for-bit), ErrCode, GetSet,         *)
(* Bounded (string getters).                                               *)
(***************************************************************************)
EXTENDS TraceBase, Dyadic

VARIABLES l, lastSet, count, terminated, viol, nchecked
vars == <<l, lastSet, count, terminated, viol, nchecked>>

Empty == [x \in {} |-> 0]
Upd(f, k, v) == [x \in DOMAIN f \cup {k} |-> IF x = k THEN v ELSE f[x]]

\* setter name -> name of the matching getter ("returns the value set")
Getter(p) == CASE p = "MZ_pole" -> "MZ" [] p = "MW_pole" -> "MW" [] p = "MT_pole" -> "MT" [] p = "MB_running" -> "MBMB"
               [] p = "ML_pole" -> "ML" [] p = "MM_pole" -> "MM"
               [] p \in {"MassB", "MassWB", "MassG", "Mu", "g3", "scale", "TB", "Ae", "Au", "Ad", "mq2", "mu2", "md2", "ml2", "me2"} -> p
               [] OTHER -> "-"
Key(ev) == IF Has(ev, "i2") THEN ev.p \o "_" \o ToString(ev.i1) \o "_" \o ToString(ev.i2)
           ELSE IF Has(ev, "i1") THEN ev.p \o "_" \o ToString(ev.i1) ELSE ev.p
SetKey(ev) == IF Has(ev, "i2") THEN Getter(ev.p) \o "_" \o ToString(ev.i1) \o "_" \o ToString(ev.i2) ELSE Getter(ev.p)

\* (tan(beta) is stored as a ratio of two numbers: a denormal value reads back to a few denormal quanta 2^-1074)
Close4(a, b) == IF IsFin(a) /\ IsFin(b) THEN RelClose(a, b, One, PowTwo(50)) \/ Le(Abs(Sub(a, b)), PowTwo(-1070)) ELSE a.k = b.k

Min(a, b) == IF a < b THEN a ELSE b

CallInvs(ev) ==
  << I("Mirror", Has(ev, "cret") => /\ (ev.mexc = "" => ev.cret.b = ev.mret.b)
                                   /\ (ev.mexc # "" => IsNaN(ev.cret))
                                   /\ (Has(ev, "cim") => ev.cim.b = ev.mim.b)
                                   /\ (Has(ev, "c2") => ev.c2.b = ev.m2.b)),
     I("ErrCode", Has(ev, "code") => /\ ev.code = ev.mcode
                                     /\ (Has(ev, "handle") => (ev.handle <=> ev.code = 0))),
     I("MirrorInt", (Has(ev, "cint") /\ ev.mexc = "") => ev.cint = ev.mint),
     I("GetSet", (ev.c \in {"get", "getm"} /\ Key(ev) \in DOMAIN lastSet /\ ev.mexc = "") =>
                    \* tan(beta) is stored as the ratio of two VEVs whose common factor comes from MW, MZ and alpha:
                    \* it reads back to rounding, and not at all while those are unset or unphysical (NaN)
                    IF ev.p = "TB" THEN (IsFin(ev.cret) /\ IsFin(lastSet[Key(ev)]) => Close4(ev.cret, lastSet[Key(ev)]))
                    ELSE ev.cret.b = lastSet[Key(ev)].b),
     I("Bounded", ev.c = "strget" =>
                    IF ev.nullbuf THEN ev.written = 0
                    ELSE /\ ev.written <= ev.len
                         /\ (ev.len >= 1 => /\ ev.term >= 0 /\ ev.prefix
                                            /\ ev.gotlen = Min(ev.wantlen, ev.len - 1))) >>

Init == l = 1 /\ lastSet = Empty /\ count = 0 /\ terminated = FALSE /\ viol = << >> /\ nchecked = 0

TCall ==
  /\ l <= NLines /\ TraceLog[l].e = "Call"
  /\ LET ev == TraceLog[l]
         invs == CallInvs(ev)
     IN /\ viol' = viol \o Failed(invs, l, ev.c \o ":" \o ev.p)
        /\ nchecked' = nchecked + Len(invs)
        /\ lastSet' = CASE ev.c \in {"new", "free", "convert", "convertp"} -> Empty
                        [] ev.c \in {"set", "setm"} /\ Getter(ev.p) # "-" -> Upd(lastSet, SetKey(ev), ev.v)
                        [] OTHER -> lastSet
  /\ count' = count + 1 /\ l' = l + 1 /\ UNCHANGED terminated

TTerminated ==
  /\ l <= NLines /\ TraceLog[l].e = "Terminated"
  /\ terminated' = TRUE /\ l' = l + 1 /\ UNCHANGED <<lastSet, count, viol, nchecked>>

TSeqEnd ==
  /\ l <= NLines /\ TraceLog[l].e = "SeqEnd"
  /\ LET ev == TraceLog[l]
         invs == << I("NeverAborts", ev.exited /\ ev.status = 0 /\ ev.signal = 0 /\ ~terminated /\ count = ev.planned) >>
     IN /\ viol' = viol \o Failed(invs, l, "died in: " \o ev.next)
        /\ nchecked' = nchecked + 1
  /\ lastSet' = Empty /\ count' = 0 /\ terminated' = FALSE /\ l' = l + 1

Next == TCall \/ TTerminated \/ TSeqEnd
Spec == Init /\ [][Next]_vars
Report == l = NLines + 1 => WriteReport(l, viol, [nchecked |-> nchecked])
=============================================================================
