// Purity / thread-safety driver (C19).  Replays schedules (per-thread lists of operations on a
// shared const model or on the thread's private model) three times on identical objects:
//   "seq"  sequentially, thread after thread      (reference)
//   "perm" sequentially, in reverse thread order  (history independence)
//   "par"  all threads released from a barrier    (run this binary under ThreadSanitizer)
// and records, per operation, the bit-exact hash of the complete public state of the argument
// before and after, and the bits of every returned value.  No comparison is made here.
//
// usage: d_pure <schedfile> <tracefile>
#include "models.hpp"

#include <atomic>
#include <fstream>
#include <memory>
#include <sstream>
#include <thread>

using namespace gm2calc;
using vm::NV;

namespace {

struct OpRec {
   std::string phase, op, model, arg;
   int t{0}, i{0};
   std::vector<long> hb, ha;
   std::vector<double> res, copyres;
   std::string exc;
};

struct World {
   std::unique_ptr<MSSMNoFV_onshell> ms;               // shared MSSM (const after construction)
   std::unique_ptr<THDM> ts;                            // shared THDM
   std::vector<std::unique_ptr<MSSMNoFV_onshell>> mp;   // private per thread
   std::vector<std::unique_ptr<THDM>> tp;
};

// The models of one world are "near twins" in their Standard Model inputs: each input is the default value times
// (1 + u) with u = 0, a few 1e-12 .. 1e-10, or 1e-3.  Results of twins differ in their last bits, so that a value
// memoised across models (exactly or within a tolerance) or shared scratch state shows up as a changed bit pattern
// in another evaluation order, and every evaluation writes to such state (visible to ThreadSanitizer).
double twin(vt::Rng& r, double x)
{
   const int c = r.below(4);
   if (c == 0) return x;
   if (c == 1) return x * (1 + (1 + r.below(9)) * 1e-12);
   if (c == 2) return x * (1 - (1 + r.below(9)) * 1e-11);
   return x * (1 + r.uni(-1e-3, 1e-3));
}

MSSMNoFV_onshell make_mssm(std::uint64_t seed)
{
   vt::Rng r(seed);
   for (int k = 0; k < 50; ++k) {
      MSSMNoFV_onshell m;
      vm::MssmPt p = vm::random_mssm(r, 300, 2000, 3, 50);
      p.as = twin(r, p.as); p.MZ = twin(r, p.MZ); p.Mb = twin(r, p.Mb); p.Mt = twin(r, p.Mt); p.aMZ = twin(r, p.aMZ);
      p.Mtau = twin(r, p.Mtau); p.MW = twin(r, p.MW);
      if (r.below(4) == 0) {
         // a model with force-output whose spectrum is close to a tachyon: large tan(beta), large positive mu, light
         // third-generation squarks (the spectrum with tree-level Yukawa couplings differs most from the resummed one)
         m.do_force_output(true);
         p.TB = r.uni(40, 60); p.Mu = r.uni(1500, 3000); p.M3 = r.uni(2000, 3000);
         const double mq = r.uni(400, 900);
         p.mq2[2] = p.md2[2] = mq * mq;
      }
      if (vm::exc_class([&] { vm::apply(m, p); m.calculate_masses(); }).empty()) return m;
   }
   MSSMNoFV_onshell m; vm::apply(m, vm::MssmPt()); m.calculate_masses(); return m;
}

std::unique_ptr<THDM> make_thdm(std::uint64_t seed)
{
   vt::Rng r(seed);
   for (int k = 0; k < 50; ++k) {
      vm::ThdmPt p = vm::random_thdm_mass(r, 1 + r.below(6), r.coin());
      p.sm.set_alpha_s_mz(twin(r, p.sm.get_alpha_s_mz())); p.sm.set_mz(twin(r, p.sm.get_mz())); p.sm.set_mw(twin(r, p.sm.get_mw()));
      p.sm.set_md(2, twin(r, p.sm.get_md(2))); p.sm.set_mu(2, twin(r, p.sm.get_mu(2))); p.sm.set_ml(2, twin(r, p.sm.get_ml(2)));
      p.sm.set_alpha_em_mz(twin(r, p.sm.get_alpha_em_mz())); p.sm.set_mh(twin(r, p.sm.get_mh()));
      std::unique_ptr<THDM> m;
      if (vm::exc_class([&] { m.reset(new THDM(p.mb, p.sm, p.cfg)); }).empty()) return m;
   }
   vm::ThdmPt p; p.sm = vm::default_sm();
   p.mb.mh = 125; p.mb.mH = 400; p.mb.mA = 420; p.mb.mHp = 440; p.mb.sin_beta_minus_alpha = 0.999; p.mb.tan_beta = 3; p.mb.m122 = 40000;
   return std::unique_ptr<THDM>(new THDM(p.mb, p.sm, p.cfg));
}

World make_world(std::uint64_t seed, int nt)
{
   World w;
   w.ms.reset(new MSSMNoFV_onshell(make_mssm(seed * 7 + 1)));
   w.ts = make_thdm(seed * 7 + 2);
   for (int t = 0; t < nt; ++t) {
      w.mp.emplace_back(new MSSMNoFV_onshell(make_mssm(seed * 7 + 100 + t)));
      w.tp.emplace_back(make_thdm(seed * 7 + 200 + t));
   }
   return w;
}

std::vector<double> values(const NV& v) { std::vector<double> r; for (const auto& p : v) r.push_back(p.second); return r; }

std::vector<double> eval_mssm(const std::string& op, const MSSMNoFV_onshell& m)
{
   std::vector<double> r;
   if (op == "amu") {
      r = {calculate_amu_1loop(m), calculate_amu_2loop(m), amu1LChi0(m), amu1LChipm(m), amu2LFSfapprox(m), amu2LChipmPhotonic(m),
           amu2LChi0Photonic(m), amu2LaSferm(m), amu2LaCha(m), amu1Lapprox(m), tan_beta_cor(m), amu2LWHnu(m), amu2LBmuLmuR(m),
           delta_g1(m), delta_tan_beta(m)};
   } else if (op == "amu_nr") {
      r = {calculate_amu_1loop_non_tan_beta_resummed(m), calculate_amu_2loop_non_tan_beta_resummed(m), amu1Lapprox_non_tan_beta_resummed(m)};
   } else {
      r = {calculate_uncertainty_amu_0loop(m), calculate_uncertainty_amu_1loop(m), calculate_uncertainty_amu_2loop(m)};
   }
   return r;
}

std::vector<double> eval_thdm(const std::string& op, const THDM& m)
{
   if (op == "unc") return {calculate_uncertainty_amu_0loop(m), calculate_uncertainty_amu_1loop(m), calculate_uncertainty_amu_2loop(m)};
   return {calculate_amu_1loop(m), calculate_amu_2loop(m), calculate_amu_2loop_fermionic(m), calculate_amu_2loop_bosonic(m)};
}

// one operation of thread t on world w
OpRec do_op(World& w, const std::string& phase, const std::string& model, int t, int i, const std::string& oparg,
            std::uint64_t seed, bool with_copy)
{
   OpRec r;
   r.phase = phase; r.model = model; r.t = t; r.i = i;
   const auto c = oparg.find(':');
   r.op = oparg.substr(0, c); r.arg = oparg.substr(c + 1);
   r.exc = vm::exc_class([&] {
      if (model == "mssm") {
         MSSMNoFV_onshell& mine = *w.mp[t];
         if (r.op == "construct") {
            r.hb = vm::bits_hash(vm::mssm_state(mine));
            mine = make_mssm(seed);
            r.ha = vm::bits_hash(vm::mssm_state(mine));
         } else if (r.op == "spectrum") {
            r.hb = vm::bits_hash(vm::mssm_state(mine));
            mine.calculate_masses();
            r.ha = vm::bits_hash(vm::mssm_state(mine));
            r.res = values(vm::mssm_masses(mine));
         } else {
            const MSSMNoFV_onshell& a = r.arg == "shared" ? *w.ms : mine;
            r.hb = vm::bits_hash(vm::mssm_state(a));
            r.res = eval_mssm(r.op, a);
            r.ha = vm::bits_hash(vm::mssm_state(a));
            if (with_copy) { const MSSMNoFV_onshell cp(a); r.copyres = eval_mssm(r.op, cp); }
         }
      } else {
         if (r.op == "construct" || r.op == "spectrum") {
            r.hb = vm::bits_hash(vm::thdm_state(*w.tp[t]));
            w.tp[t] = make_thdm(seed);
            r.ha = vm::bits_hash(vm::thdm_state(*w.tp[t]));
         } else {
            const THDM& a = r.arg == "shared" ? *w.ts : *w.tp[t];
            r.hb = vm::bits_hash(vm::thdm_state(a));
            r.res = eval_thdm(r.op, a);
            r.ha = vm::bits_hash(vm::thdm_state(a));
            if (with_copy) { const THDM cp(a); r.copyres = eval_thdm(r.op, cp); }
         }
      }
   });
   return r;
}

std::string bits_json(const std::vector<double>& v)
{
   std::string s = "[";
   for (std::size_t k = 0; k < v.size(); ++k) {
      std::uint64_t b; std::memcpy(&b, &v[k], 8);
      char buf[64];
      std::snprintf(buf, sizeof buf, "%s[%u,%u,%u,%u]", k ? "," : "", unsigned(b & 0xffff), unsigned((b >> 16) & 0xffff),
                    unsigned((b >> 32) & 0xffff), unsigned((b >> 48) & 0xffff));
      s += buf;
   }
   return s + "]";
}

void emit(const std::string& sched, const OpRec& r)
{
   vt::Ev ev("Op");
   ev.str("sched", sched).str("phase", r.phase).str("model", r.model).i("t", r.t).i("i", r.i).str("op", r.op).str("arg", r.arg)
     .ints("hb", r.hb).ints("ha", r.ha).raw("res", bits_json(r.res)).raw("copyres", bits_json(r.copyres)).b("hascopy", !r.copyres.empty())
     .str("exc", r.exc).str("sig", r.model + "/" + r.op + ":" + r.arg + "/" + r.phase);
   ev.emit();
}

} // namespace

int main(int argc, char** argv)
{
   if (argc < 3) { std::fprintf(stderr, "usage: d_pure <schedfile> <tracefile>\n"); return 2; }
   std::ifstream in(argv[1]);
   vt::open_trace(argv[2]);
   vt::install_terminate();
   const std::uint64_t base = vt::env_seed();
   std::string line, id;
   int nt = 0;
   std::vector<std::vector<std::string>> lists;
   std::uint64_t ns = 0;
   while (std::getline(in, line)) {
      std::istringstream is(line);
      std::vector<std::string> f; std::string tk;
      while (is >> tk) f.push_back(tk);
      if (f.empty()) continue;
      if (f[0] == "SCHED") { id = f.at(1); nt = std::stoi(f.at(2)); lists.assign(nt, {}); continue; }
      if (f[0] == "T") { lists.at(std::stoi(f.at(1))).assign(f.begin() + 2, f.end()); continue; }
      if (f[0] != "END") continue;
      ++ns;
      const std::uint64_t seed = base * 1000003ULL + ns;
      for (const std::string model : {"mssm", "thdm"}) {
         // --- sequential reference
         {
            World w = make_world(seed, nt);
            for (int t = 0; t < nt; ++t)
               for (std::size_t i = 0; i < lists[t].size(); ++i)
                  emit(id, do_op(w, "seq", model, t, int(i), lists[t][i], seed * 31 + t * 7 + i, true));
         }
         // --- reverse thread order (what was computed before must not matter)
         {
            World w = make_world(seed, nt);
            for (int t = nt - 1; t >= 0; --t)
               for (std::size_t i = 0; i < lists[t].size(); ++i)
                  emit(id, do_op(w, "perm", model, t, int(i), lists[t][i], seed * 31 + t * 7 + i, false));
         }
         // --- concurrent
         {
            World w = make_world(seed, nt);
            std::vector<std::vector<OpRec>> recs(nt);
            std::atomic<int> ready{0};
            std::atomic<bool> go{false};
            std::vector<std::thread> th;
            for (int t = 0; t < nt; ++t) {
               th.emplace_back([&, t] {
                  vt::Rng yr(seed * 131 + t);
                  ++ready;
                  while (!go.load()) std::this_thread::yield();
                  for (std::size_t i = 0; i < lists[t].size(); ++i) {
                     for (int y = yr.below(4); y > 0; --y) std::this_thread::yield();
                     recs[t].push_back(do_op(w, "par", model, t, int(i), lists[t][i], seed * 31 + t * 7 + i, false));
                  }
               });
            }
            while (ready.load() < nt) std::this_thread::yield();
            go.store(true);
            for (auto& x : th) x.join();
            for (int t = 0; t < nt; ++t) for (const auto& r : recs[t]) emit(id, r);
         }
      }
      vt::Ev("SchedEnd").str("sched", id).emit();
   }
   vt::flush_trace();
   return 0;
}
