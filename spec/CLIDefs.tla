------------------------------- MODULE CLIDefs -------------------------------
(***************************************************************************)
(* Constant-level part of the specification of gm2calc.x: option vectors,  *)
(* symbolic quantities, writer output per option vector (README "Block     *)
(* GM2CalcConfig"), and the declarative predicate Allowed describing the   *)
(* observations one execution may produce.  Used by CLI.tla (the machine)  *)
(* and by the trace specifications of C14, C15, C16.                       *)
(***************************************************************************)
EXTENDS Integers, Sequences, FiniteSets, TLC

ArgTok   == {"slha", "gm2calc", "thdm", "help", "version", "unknown"}
InTypes  == {"slha", "gm2calc", "thdm"}

\* GM2CalcConfig entries: key 0..6, 7 = unknown key; value classes
CfgKeys  == 0..7
\* abstract values: valid values of each key, "bad" (out of range / non-integer), "nan" (token not a number)
CfgVals(k) == CASE k = 0 -> {0, 1, 2, 3, 4} [] k = 1 -> {0, 1, 2} [] k \in 2..6 -> {0, 1} [] OTHER -> {0}
CfgEntry == {[k |-> k, v |-> v, c |-> "ok"] : k \in CfgKeys, v \in 0..4} \cup
            {[k |-> k, v |-> 0, c |-> c] : k \in CfgKeys, c \in {"bad", "nan"}}
WellFormedEntry(e) == e.c # "ok" \/ e.v \in CfgVals(e.k)

\* outcome classes of reader + model construction (documented in MSSMNoFV_onshell.hpp, THDM.hpp,
\* gm2_error.hpp); "problem" = tachyon flagged under force-output (MSSM only: result AND exit 1)
Outcomes == {"ok", "warn", "problem", "EInvalidInput", "EPhysicalProblem", "EReadError", "ESetupError"}

Opts == [fmt : 0..4, loop : 0..2, tb : BOOLEAN, force : BOOLEAN, verbose : BOOLEAN, unc : BOOLEAN, running : BOOLEAN]

DefaultOpts(t) == [fmt |-> IF t = "gm2calc" THEN 1 ELSE 4, loop |-> 2, tb |-> TRUE, force |-> FALSE,
                   verbose |-> FALSE, unc |-> FALSE, running |-> TRUE]

\* What the chosen input is: the class of its (possibly defective) content (DESIGN D.3).
\*   ok          valid point
\*   tachyon     a monitored sector has a negative squared mass
\*   forceable   a documented defect that force-output downgrades to a warning
\*               (MW >= MZ, vanishing MW, MZ, m_mu, mu, M1, M2, tan(beta) = 0; THDM: tan(beta) <= 0,
\*               mh > mH, |sin(beta-alpha)| > 1, negative masses)
\*   hard        input refused even under force-output (tan(beta) = infinity i.e. vd = 0, undecidable
\*               THDM basis, missing renormalisation scale, invalid Wolfenstein parameter)
\*   readerr     a token in a block that is read is not a number
\*   setuperr    THDM Yukawa type outside 1..6
BaseClasses == {"ok", "tachyon", "forceable", "hard", "readerr", "setuperr"}

\* documented outcome of reader + model for an input class (README, MSSMNoFV_onshell.hpp, THDM.hpp):
\* refused unless force-output; under force-output a warning is emitted and the calculation
\* proceeds; in the MSSM a tachyon stays flagged as a problem (result AND exit status 1)
OutcomeOf(base, t, force) ==
  CASE base = "ok"        -> "ok"
    [] base = "tachyon"   -> IF ~force THEN "EPhysicalProblem" ELSE IF t = "thdm" THEN "warn" ELSE "problem"
    [] base = "forceable" -> IF ~force THEN "EInvalidInput" ELSE "warn"
    [] base = "hard"      -> "EInvalidInput"
    [] base = "readerr"   -> "EReadError"
    [] base = "setuperr"  -> IF t = "thdm" THEN "ESetupError" ELSE "ok"

----------------------------------------------------------------------------
(* symbolic quantities (C15)                                               *)

Amu(t, o) == IF o.loop = 0 THEN "0"
             ELSE IF t = "thdm" \/ o.tb THEN (IF o.loop = 1 THEN "a1L" ELSE "a1L+a2L")
             ELSE (IF o.loop = 1 THEN "a1Lnr" ELSE "a1Lnr+a2Lnr")
Unc(o)    == CASE o.loop = 0 -> "u0" [] o.loop = 1 -> "u1" [] o.loop = 2 -> "u2"

AmuBlock(f) == CASE f = 2 -> <<"LOWEN", 6>> [] f = 3 -> <<"SPhenoLowEnergy", 21>> [] f = 4 -> <<"GM2CalcOutput", 0>>

\* stdout items
Number(q)        == [kind |-> "number", q |-> q, blk |-> "-", key |-> -1]
Report(t)        == [kind |-> "report", q |-> t, blk |-> "-", key |-> -1]
Echo             == [kind |-> "echo", q |-> "-", blk |-> "-", key |-> -1]
Result(b, k, q)  == [kind |-> "result", q |-> q, blk |-> b, key |-> k]
Spinfo(n)        == [kind |-> "spinfo", q |-> "-", blk |-> "SPINFO", key |-> n]
Usage            == [kind |-> "usage", q |-> "-", blk |-> "-", key |-> -1]
Version          == [kind |-> "version", q |-> "-", blk |-> "-", key |-> -1]

\* the writer for a successfully built model (README "Block GM2CalcConfig")
WriterOutput(t, o, warned) ==
  CASE o.fmt = 0 -> << Number(IF o.unc THEN Unc(o) ELSE Amu(t, o)) >>
    [] o.fmt = 1 -> << Report(t) >>
    [] OTHER     -> (IF warned THEN << Spinfo(1), Spinfo(2), Spinfo(3) >> ELSE << >>)
                    \o << Echo, Result(AmuBlock(o.fmt)[1], AmuBlock(o.fmt)[2], Amu(t, o)) >>
                    \o (IF o.unc THEN << Result("GM2CalcOutput", 1, Unc(o)) >> ELSE << >>)

ErrorOutput(o) == IF o.fmt \in 2..4 THEN << Spinfo(1), Spinfo(2), Spinfo(4), Echo >> ELSE << >>

----------------------------------------------------------------------------
(* Declarative description of the allowed observations of one execution.   *)
(* o = [argvKind, itype, exit, signal, kinds, stderrEmpty] where kinds is   *)
(* the sequence of stdout item kinds with result items written             *)
(* "result:<BLOCK>[<key>]" and spinfo items "spinfo:<n>".                   *)

KindOf(it) == IF it.kind = "result" THEN "result:" \o it.blk \o "[" \o ToString(it.key) \o "]"
              ELSE IF it.kind = "spinfo" THEN "spinfo:" \o ToString(it.key) ELSE it.kind
Kinds(s) == [i \in DOMAIN s |-> KindOf(s[i])]

\* what the first decisive argument is
ArgvKind(av) ==
  LET RECURSIVE scan(_, _)
      scan(i, have) == IF i > Len(av) THEN (IF have THEN "file" ELSE "nosource")
                       ELSE IF av[i] \in InTypes THEN scan(i + 1, TRUE)
                       ELSE IF av[i] \in {"help", "version"} THEN av[i] ELSE "unknown"
  IN scan(1, FALSE)

RECURSIVE LastType(_)
LastType(av) == IF av = << >> THEN "slha"
                ELSE IF av[Len(av)] \in InTypes THEN av[Len(av)] ELSE LastType(SubSeq(av, 1, Len(av) - 1))

SuccessKinds(t) ==
  {<<"number">>, <<"report">>} \cup
  {pre \o <<"echo", "result:" \o AmuBlock(f)[1] \o "[" \o ToString(AmuBlock(f)[2]) \o "]">> \o unc :
      pre \in {<< >>, <<"spinfo:1", "spinfo:2", "spinfo:3">>}, f \in 2..4,
      unc \in {<< >>, <<"result:GM2CalcOutput[1]">>}}
FailureKinds == {<< >>, <<"spinfo:1", "spinfo:2", "spinfo:4", "echo">>}

Allowed(o) ==
  /\ o.signal = 0 /\ o.exit \in {0, 1}
  /\ CASE o.argvKind = "help"     -> o.exit = 0 /\ o.kinds = <<"usage">>
       [] o.argvKind = "version"  -> o.exit = 0 /\ o.kinds = <<"version">>
       [] o.argvKind = "unknown"  -> o.exit = 1 /\ o.kinds = << >> /\ ~o.stderrEmpty
       [] o.argvKind = "nosource" -> o.exit = 1 /\ o.kinds = << >> /\ ~o.stderrEmpty
       [] o.argvKind = "file" ->
            \/ /\ o.exit = 0 /\ o.kinds \in SuccessKinds(o.itype)                           \* result, at most warnings
            \/ /\ o.exit = 1 /\ o.itype # "thdm" /\ o.kinds \in SuccessKinds(o.itype)       \* MSSM: problem flagged under force
               /\ ~o.stderrEmpty
            \/ /\ o.exit = 1 /\ o.kinds \in FailureKinds                                    \* refused
               /\ (o.kinds = << >> => ~o.stderrEmpty)

=============================================================================
