"""MANIFEST.setup_cmd: nothing is fetched; warms the scratch build of /repo's current tree
and checks that the TLA+ tools start.  Everything else is built on demand by the checks."""
import os
import subprocess
import sys

sys.path.insert(0, os.path.join(os.path.dirname(os.path.abspath(__file__)), "lib"))
import build
import tlc


def main():
    build.lib_build("plain")
    for d in sorted(os.listdir(os.path.join(build.VERIF, "harness", "drv"))):
        if d.startswith("d_") and d.endswith(".cpp"):
            try:
                build.driver_build(d[:-4])
            except build.BuildError as e:
                sys.stderr.write(str(e) + "\n")
    # C01-C03 need the tooling interpreter with mpmath (pre-installed: python3-vt)
    m = subprocess.run(["python3-vt", "-c", "import mpmath; print(mpmath.__version__)"], capture_output=True, text=True)
    if m.returncode != 0:
        sys.stderr.write("python3-vt with mpmath not available: C01, C02, C03 cannot run\n" + m.stderr)
        return 2
    r = tlc.run_tlc("Cases.tla", "Cases.cfg", workers=1, env={"GEN_OUT": "/dev/null"})
    print("setup ok: tree %s, TLC %s" % (build.tree_hash(), "ok" if r["rc"] == 0 else "rc=%s" % r["rc"]))
    return 0
