-------------------------------- MODULE SLHA --------------------------------
(***************************************************************************)
(* The SLHA reader of GM2Calc: text -> block collection -> parameters.     *)
(*                                                                         *)
(* Code anchors: SLHAea::Coll::read (slhaea.h), GM2_slha_io::read_scale,   *)
(* is_at_scale, read_block, fill_scale, fill_slha, fill_gm2calc, fill(...) *)
(* (gm2_slha_io.cpp), convert_to (gm2_slha_io.hpp).                        *)
(*                                                                         *)
(* Two descriptions of the same thing:                                     *)
(*  - operational (Init/Next): the file is appended line by line, then the *)
(*    reader executes its *plan* - an ordered list of passes, each pass    *)
(*    visiting the same-named blocks in file order, converting and         *)
(*    applying every (key, value) tuple, throwing at the first bad token;  *)
(*  - denotational (Denote, DenoteErr): "the last assignment per           *)
(*    (block, key) among the blocks that are read wins".                   *)
(* Invariant ReaderRefinesContent says they agree on every file within the *)
(* bounds; LayoutIrrelevant says the denotation does not change under the  *)
(* rewrite classes of property C13.                                        *)
(*                                                                         *)
(* Abstract alphabet (DESIGN D.1).  Block names: FREE (a block read        *)
(* without scale filter, e.g. SMINPUTS, MASS, GM2CalcInput, MINPAR), HMIX  *)
(* (defines the scale and is itself scale filtered), DEP (scale filtered:  *)
(* MSOFT, AU, AD, AE), X (foreign).  Q tokens: NoQ, Q1, Q1n (within 0.01   *)
(* of Q1), Q2, Qbad (not a number).  Keys k1, k2, kx (a key the reader     *)
(* does not know: converted, then ignored), kbad (not an integer).         *)
(* Values va, vb, vbad (not in its entirety a finite number).              *)
(***************************************************************************)
EXTENDS SLHAContent

CONSTANTS MaxLen,      \* maximal number of lines of a file
          Formats,     \* subset of {"slha", "flat"}
          Bug          \* "none", or the name of a deliberately wrong reader variant (non-vacuity)


----------------------------------------------------------------------------
(* Operational reader                                                      *)

VARIABLES file, fmt, pc, pass, cursor, scale, params, err
vars == <<file, fmt, pc, pass, cursor, scale, params, err>>

Init == /\ file = << >> /\ fmt \in Formats /\ pc = "build" /\ pass = 0 /\ cursor = 0
        /\ scale = "zero" /\ params = NoParams /\ err = "none"

AppendLine(ln) == /\ pc = "build" /\ Len(file) < MaxLen
                  /\ file' = Append(file, ln)
                  /\ UNCHANGED <<fmt, pc, pass, cursor, scale, params, err>>

StartFill == /\ pc = "build"
             /\ pc' = "fill" /\ pass' = 1 /\ cursor' = 0
             /\ UNCHANGED <<file, fmt, scale, params, err>>

CurPass == Plan(fmt)[pass]

\* next header of the pass's name after the cursor (0 = none): data.find(block, end, name)
NextBlock == LET S == {i \in NamedHdrs(file, CurPass.name) : i > cursor}
             IN IF S = {} THEN 0 ELSE CHOOSE i \in S : \A k \in S : i <= k

\* lines of the block opened by header h
BlockLines(h) == {j \in DOMAIN file : IsDat(file[j]) /\ Owner(file, j) = h}

Throw(e) == /\ err' = e /\ pc' = "done"
            /\ UNCHANGED <<file, fmt, pass, cursor, scale, params>>

\* read_scale(name): visit every same-named block, keep the last Q; convert_to may throw
ScaleVisit ==
  /\ pc = "fill" /\ CurPass.kind = "scale" /\ NextBlock # 0
  /\ LET h == NextBlock IN
       IF file[h].q = "Qbad" THEN Throw("ReadError")
       ELSE /\ scale' = (IF file[h].q = "NoQ" THEN "zero" ELSE file[h].q)
            /\ cursor' = h
            /\ UNCHANGED <<file, fmt, pc, pass, params, err>>

\* fill_scale: is_zero(scale) => EInvalidInput
ScaleDone ==
  /\ pc = "fill" /\ CurPass.kind = "scale" /\ NextBlock = 0
  /\ IF scale = "zero" THEN Throw("InvalidInput")
     ELSE /\ pass' = pass + 1 /\ cursor' = 0
          /\ UNCHANGED <<file, fmt, pc, scale, params, err>>

\* is_at_scale(block, s): s = 0 => TRUE without looking at the block; else converts the block's Q
AtScale(h, s) == IF s = "zero" \/ Bug = "anyscale" THEN "yes"
                 ELSE IF file[h].q = "Qbad" THEN "throw"
                 ELSE IF file[h].q # "NoQ" /\ Near(file[h].q, s) THEN "yes" ELSE "no"

\* apply the tuples of block h in line order; result = [params, err]
RECURSIVE ApplyLines(_, _, _)
ApplyLines(h, js, ps) ==
  IF js = {} THEN [p |-> ps, e |-> "none"]
  ELSE LET j == CHOOSE x \in js : \A y \in js : x <= y
           ln == file[j]
       IN IF BadDat(ln) /\ Bug = "skipbad" THEN ApplyLines(h, js \ {j}, ps)
          ELSE IF BadDat(ln) THEN [p |-> ps, e |-> "ReadError"]
          ELSE ApplyLines(h, js \ {j},
                          IF ln.key \in KnownKeys /\ (Bug # "firstwins" \/ ps[<<file[h].name, ln.key>>] = Unset)
                          THEN [ps EXCEPT ![<<file[h].name, ln.key>>] = ln.val] ELSE ps)

VisitBlock ==
  /\ pc = "fill" /\ CurPass.kind = "read" /\ NextBlock # 0
  /\ LET h == NextBlock
         a == AtScale(h, IF CurPass.dep THEN scale ELSE "zero")
     IN IF a = "throw" THEN Throw("ReadError")
        ELSE IF a = "no" THEN /\ cursor' = h /\ UNCHANGED <<file, fmt, pc, pass, scale, params, err>>
        ELSE LET r == ApplyLines(h, BlockLines(h), params)
             IN IF r.e # "none"
                THEN /\ err' = r.e /\ pc' = "done" /\ params' = r.p      \* partially filled, then thrown
                     /\ UNCHANGED <<file, fmt, pass, cursor, scale>>
                ELSE /\ params' = r.p /\ cursor' = h
                     /\ UNCHANGED <<file, fmt, pc, pass, scale, err>>

PassDone ==
  /\ pc = "fill" /\ CurPass.kind = "read" /\ NextBlock = 0
  /\ IF pass = Len(Plan(fmt)) THEN /\ pc' = "done" /\ UNCHANGED <<pass, cursor>>
     ELSE /\ pass' = pass + 1 /\ cursor' = 0 /\ UNCHANGED pc
  /\ UNCHANGED <<file, fmt, scale, params, err>>

Next == \/ \E ln \in Alphabet : AppendLine(ln)
        \/ StartFill \/ ScaleVisit \/ ScaleDone \/ VisitBlock \/ PassDone

Spec == Init /\ [][Next]_vars
FairSpec == Spec /\ WF_vars(StartFill \/ ScaleVisit \/ ScaleDone \/ VisitBlock \/ PassDone)

----------------------------------------------------------------------------
(* Properties                                                              *)

TypeOK == /\ pc \in {"build", "fill", "done"} /\ err \in {"none", "ReadError", "InvalidInput"}
          /\ Len(file) <= MaxLen

\* C13: the reader computes the content of the file, nothing else
ReaderRefinesContent ==
  pc = "done" => /\ err = DenoteErr(fmt, file)
                 /\ (err = "none" => params = Denote(fmt, file))

\* C13: a bad token in a block that is read is an error, never a default or partial value;
\*      a bad token in a block that is not read is ignored
TokenRule ==
  pc = "done" =>
    /\ (\E j \in DataOf(fmt, file) : BadDat(file[j])) => err # "none"
    /\ (err = "ReadError" => \/ \E j \in DataOf(fmt, file) : BadDat(file[j])
                             \/ \E i \in HdrIdx(file) : file[i].q = "Qbad" /\ file[i].name \in {"HMIX", "DEP"})

LayoutIrrelevant ==
  pc = "done" =>
    LET f == file  r == Result(fmt, f) IN
    \* comments (and blank lines) anywhere
    /\ \A i \in 0..Len(f) : Result(fmt, InsertAt(f, i, Cmt)) = r
    \* foreign blocks anywhere (with arbitrary, even malformed, content), foreign keys in read blocks
    /\ \A i \in 0..Len(f) : (i = Len(f) \/ IsHdr(f[i + 1])) =>
          /\ Result(fmt, InsertAt(InsertAt(f, i, Hdr("X", "NoQ")), i + 1, Dat("k1", "vbad"))) = r
    /\ \A i \in 0..Len(f) : Result(fmt, InsertAt(f, i, Dat("kx", "vb"))) = r
    \* exchanging adjacent blocks of different names
    /\ \A h \in HdrIdx(f) : (BlockEnd(f, h) < Len(f) /\ f[h].name # f[BlockEnd(f, h) + 1].name)
                               => Result(fmt, SwapAdjacent(f, h)) = r
    \* an earlier duplicate of an assignment that is made anyway
    /\ \A j \in DataOf(fmt, f) : ~BadDat(f[j]) => Result(fmt, InsertAt(f, j - 1, f[j])) = r
    \* a repeated scale-dependent block at another scale (in front of the file, so that
    \* the last HMIX block stays the last one)
    /\ (fmt = "slha" /\ ScaleTok(f) \in {"Q1", "Q1n"}) =>
          /\ Result(fmt, <<Hdr("DEP", "Q2"), Dat("k1", "vb"), Dat("k2", "vbad")>> \o f) = r
          /\ Result(fmt, <<Hdr("HMIX", "Q2"), Dat("k1", "vb")>> \o f) = r

\* the fill always terminates
Terminates == <>(pc = "done")

\* Deliberately wrong reader variants, selected by the constant Bug, demonstrate that the
\* invariants are not vacuous: "firstwins" (an earlier assignment is kept), "anyscale" (the
\* scale filter is dropped), "skipbad" (a malformed tuple is skipped instead of rejected).
=============================================================================
