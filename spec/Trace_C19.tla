------------------------------ MODULE Trace_C19 ------------------------------
(***************************************************************************)
(* C19 - calculations are pure: deterministic, argument-preserving and     *)
(* thread-safe.  Schedules (per-thread lists of operations, drawn from the *)
(* alphabet of Purity.tla) are replayed sequentially, in reverse thread    *)
(* order, and concurrently (also under ThreadSanitizer).  Events:          *)
(*   Op(sched, phase, model, t, i, op, arg, hb, ha, res, copyres, exc)     *)
(*        hb/ha = bit-exact hash of the complete public state of the       *)
(*        argument before/after; res = bits of every returned value        *)
(*   Race(report)    a ThreadSanitizer report observed for the run         *)
(*   SchedEnd                                                              *)
(* Invariants: Pure (ha = hb for const evaluations), CopyAgrees,           *)
(* Deterministic (the result is a function of (model, op, state hash),     *)
(* whatever the phase, thread, order or history), NoDataRace.              *)
(***************************************************************************)
EXTENDS TraceBase

VARIABLES l, first, viol, nchecked
vars == <<l, first, viol, nchecked>>

ConstOps == {"amu", "amu_nr", "unc"}
Empty == [x \in {} |-> 0]

Init == l = 1 /\ first = Empty /\ viol = << >> /\ nchecked = 0

TOp ==
  /\ l <= NLines /\ TraceLog[l].e = "Op"
  /\ LET ev == TraceLog[l]
         key == <<ev.model, ev.op, ev.hb>>
         isConst == ev.op \in ConstOps
         invs == << I("NoException", ev.exc = ""),
                    I("Pure", isConst => ev.ha = ev.hb),
                    I("CopyAgrees", ev.hascopy => ev.copyres = ev.res),
                    I("Deterministic", (isConst /\ key \in DOMAIN first) => first[key] = ev.res) >>
     IN /\ viol' = viol \o Failed(invs, l, ev.sig) /\ nchecked' = nchecked + Len(invs)
        /\ first' = IF isConst /\ ev.exc = "" /\ key \notin DOMAIN first
                    THEN [x \in DOMAIN first \cup {key} |-> IF x = key THEN ev.res ELSE first[x]] ELSE first
  /\ l' = l + 1

TRace ==
  /\ l <= NLines /\ TraceLog[l].e = "Race"
  /\ viol' = viol \o Failed(<<I("NoDataRace", FALSE)>>, l, TraceLog[l].sig) /\ nchecked' = nchecked + 1
  /\ l' = l + 1 /\ UNCHANGED first

TSchedEnd ==
  /\ l <= NLines /\ TraceLog[l].e = "SchedEnd"
  /\ first' = Empty /\ l' = l + 1 /\ UNCHANGED <<viol, nchecked>>

Next == TOp \/ TRace \/ TSchedEnd
Spec == Init /\ [][Next]_vars
Report == l = NLines + 1 => WriteReport(l, viol, [nchecked |-> nchecked])
=============================================================================
