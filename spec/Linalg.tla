------------------------------- MODULE Linalg -------------------------------
(***************************************************************************)
(* The conventions of the decomposition wrappers of src/gm2_linalg.hpp,    *)
(* on exact matrices.                                                      *)
(*                                                                         *)
(* The numerical back ends (Eigen's SelfAdjointEigenSolver and JacobiSVD)  *)
(* are abstracted as "returns *some* exact decomposition in its own        *)
(* convention" (eigenvalues ascending / singular values descending, ties   *)
(* in any order); what is modelled step by step is what GM2Calc composes   *)
(* on top of them:                                                         *)
(*   fs_diagonalize_hermitian   eigen -> sort by |w| -> z := (z p)^+       *)
(*   fs_diagonalize_symmetric   eigen -> u := z diag(i if w < 0),          *)
(*         (real input)         s := |w| -> sort ascending, u := u p       *)
(*                              -> u := u^T                                *)
(*   fs_svd                     svd -> reverse s, u := u p, vh := p vh     *)
(*                              -> u := u^T                                *)
(* and the invariant is the documented contract (Haber-Kane / SARAH        *)
(* conventions).  Matrices are exact: entries are Gaussian integers, the   *)
(* orthogonal factors are integer matrices Q with Q Q^T = c I, and every   *)
(* relation is stated in the scaled form  c m = Z diag(w) Z^T.             *)
(* Wrong variants (constant Bug) show that the invariants are not vacuous: *)
(* "s_only" (reverse the values without permuting the vectors),            *)
(* "no_transpose", "no_phase", "sort_by_value".                            *)
(***************************************************************************)
EXTENDS Integers, Sequences, FiniteSets, TLC

CONSTANTS N, VMax, Bug
Vals == (0 - VMax)..VMax

I == 1..N
C(re, im) == <<re, im>>
CZ == C(0, 0)
CAdd(a, b) == C(a[1] + b[1], a[2] + b[2])
CMul(a, b) == C(a[1] * b[1] - a[2] * b[2], a[1] * b[2] + a[2] * b[1])
Conj(a) == C(a[1], -a[2])
CInt(k) == C(k, 0)

RECURSIVE CSumTo(_, _)
CSumTo(f(_), n) == IF n = 0 THEN CZ ELSE CAdd(f(n), CSumTo(f, n - 1))

Mat(f(_, _)) == [i \in I, k \in I |-> f(i, k)]
MMul(A, B) == LET e(i, k) == LET t(j) == CMul(A[i, j], B[j, k]) IN CSumTo(t, N) IN Mat(e)
Tr(A)  == LET e(i, k) == A[k, i] IN Mat(e)
Adj(A) == LET e(i, k) == Conj(A[k, i]) IN Mat(e)
Diag(d) == LET e(i, k) == IF i = k THEN CInt(d[i]) ELSE CZ IN Mat(e)
CDiag(d) == LET e(i, k) == IF i = k THEN d[i] ELSE CZ IN Mat(e)
Scale(c, A) == LET e(i, k) == CMul(CInt(c), A[i, k]) IN Mat(e)
ColPerm(A, p) == LET e(i, k) == A[i, p[k]] IN Mat(e)       \* A * P
RowPerm(A, p) == LET e(i, k) == A[p[i], k] IN Mat(e)
FromInt(Q) == LET e(i, k) == CInt(Q[i][k]) IN Mat(e)

Perms == {p \in [I -> I] : \A i, j \in I : i # j => p[i] # p[j]}
Rev == [i \in I |-> N + 1 - i]
AbsI(x) == IF x < 0 THEN -x ELSE x
Ascending(f) == \A i \in 1..(N - 1) : f[i] <= f[i + 1]
Descending(f) == \A i \in 1..(N - 1) : f[i] >= f[i + 1]

\* integer matrices with Q Q^T = c I ("orthogonal up to scale")
Ortho == IF N = 2
         THEN { [q |-> <<<<1, 0>>, <<0, 1>>>>, c |-> 1], [q |-> <<<<0, 1>>, <<1, 0>>>>, c |-> 1],
                [q |-> <<<<0, -1>>, <<1, 0>>>>, c |-> 1], [q |-> <<<<3, 4>>, <<-4, 3>>>>, c |-> 25],
                [q |-> <<<<1, 1>>, <<1, -1>>>>, c |-> 2], [q |-> <<<<4, -3>>, <<3, 4>>>>, c |-> 25] }
         ELSE { [q |-> <<<<1, 0, 0>>, <<0, 1, 0>>, <<0, 0, 1>>>>, c |-> 1],
                [q |-> <<<<0, 1, 0>>, <<0, 0, -1>>, <<1, 0, 0>>>>, c |-> 1],
                [q |-> <<<<1, 2, 2>>, <<2, 1, -2>>, <<2, -2, 1>>>>, c |-> 9],
                [q |-> <<<<3, 4, 0>>, <<-4, 3, 0>>, <<0, 0, 5>>>>, c |-> 25] }

VARIABLES routine, m, cm, w, u, v, pc
vars == <<routine, m, cm, w, u, v, pc>>

Zero == Diag([i \in I |-> 0])

\* ---- the back ends: any exact decomposition in the back end's convention ------------------------
\* m = Q^T diag(d) Q  =>  c m = Z diag(c d) Z^T with Z = Q^T; eigenvalues ascending
InitEigen(rt) ==
  \E o \in Ortho, d \in [I -> Vals], s \in Perms :
     LET Q == FromInt(o.q)
         W == [i \in I |-> o.c * d[s[i]]]
     IN /\ Ascending(W)
        /\ routine = rt /\ m = MMul(Tr(Q), MMul(Diag(d), Q)) /\ cm = o.c
        /\ w = W /\ u = ColPerm(Tr(Q), s) /\ v = Zero /\ pc = "backend"

\* m = A diag(d) B, d >= 0  =>  (scaled) svd with u = A p, vh = p B, s = d p descending;
\* u u^T = ca I, vh vh^T = cb I
InitSvd ==
  \E a \in Ortho, b \in Ortho, d \in [I -> {x \in Vals : x >= 0}], s \in Perms :
     LET A == FromInt(a.q)  B == FromInt(b.q)
         S == [i \in I |-> d[s[i]]]
     IN /\ Descending(S)
        /\ routine = "fs_svd" /\ m = MMul(A, MMul(Diag(d), B)) /\ cm = 1
        /\ w = S /\ u = ColPerm(A, s) /\ v = RowPerm(B, s) /\ pc = "backend"

Init == InitEigen("fs_hermitian") \/ InitEigen("fs_symmetric") \/ InitSvd

\* ---- the steps GM2Calc composes ---------------------------------------------------------------------
\* fs_diagonalize_hermitian_errbd: sort by |w| (std::sort: ties in any order), w := w p, z := (z p)^+
HermSort ==
  /\ pc = "backend" /\ routine = "fs_hermitian"
  /\ \E p \in Perms :
        LET key == [i \in I |-> IF Bug = "sort_by_value" THEN w[p[i]] ELSE AbsI(w[p[i]])]
        IN /\ Ascending(key)
           /\ w' = [i \in I |-> w[p[i]]]
           /\ u' = IF Bug = "s_only" THEN Adj(u) ELSE Adj(ColPerm(u, p))
  /\ pc' = "done" /\ UNCHANGED <<routine, m, cm, v>>

\* diagonalize_symmetric_errbd (real input): u = z diag(Flip_sign(w)), s = |w|
SymPhase ==
  /\ pc = "backend" /\ routine = "fs_symmetric"
  /\ u' = MMul(u, CDiag([i \in I |-> IF w[i] < 0 /\ Bug # "no_phase" THEN C(0, 1) ELSE C(1, 0)]))
  /\ w' = [i \in I |-> AbsI(w[i])]
  /\ pc' = "phased" /\ UNCHANGED <<routine, m, cm, v>>

\* reorder_diagonalize_symmetric_errbd (real input): sort s ascending, u := u p
SymSort ==
  /\ pc = "phased"
  /\ \E p \in Perms :
        /\ Ascending([i \in I |-> w[p[i]]])
        /\ w' = [i \in I |-> w[p[i]]]
        /\ u' = IF Bug = "s_only" THEN u ELSE ColPerm(u, p)
  /\ pc' = "sorted" /\ UNCHANGED <<routine, m, cm, v>>

\* reorder_svd_errbd: s.reverseInPlace(); u *= p; vh^T *= p
SvdReverse ==
  /\ pc = "backend" /\ routine = "fs_svd"
  /\ w' = [i \in I |-> w[Rev[i]]]
  /\ u' = IF Bug = "s_only" THEN u ELSE ColPerm(u, Rev)
  /\ v' = IF Bug = "s_only" THEN v ELSE RowPerm(v, Rev)
  /\ pc' = "sorted" /\ UNCHANGED <<routine, m, cm>>

\* fs_*_errbd: u->transposeInPlace()
TransposeU ==
  /\ pc = "sorted"
  /\ u' = IF Bug = "no_transpose" THEN u ELSE Tr(u)
  /\ pc' = "done" /\ UNCHANGED <<routine, m, cm, w, v>>

Next == HermSort \/ SymPhase \/ SymSort \/ SvdReverse \/ TransposeU
Spec == Init /\ [][Next]_vars

\* ---- contracts (documentation comments of gm2_linalg.hpp), in scaled form -----------------------------
Contract ==
  pc = "done" =>
    CASE routine = "fs_hermitian" -> Scale(cm, m) = MMul(Adj(u), MMul(Diag(w), u))           \* m = z^+ diag(w) z
      [] routine = "fs_symmetric" -> Scale(cm, m) = MMul(Tr(u), MMul(Diag(w), u))             \* m = u^T diag(s) u
      [] routine = "fs_svd"       -> m = MMul(Tr(u), MMul(Diag(w), v))                        \* m = u^T diag(s) v
Ordered == pc = "done" => Ascending([i \in I |-> AbsI(w[i])])
NonNegative == (pc = "done" /\ routine # "fs_hermitian") => \A i \in I : w[i] >= 0
\* u u^+ = c I (unitary up to the scale of the integer eigenvectors)
ScaledUnitary == pc = "done" => \E c \in 1..625 : MMul(u, Adj(u)) = Scale(c, Diag([i \in I |-> 1]))
=============================================================================
