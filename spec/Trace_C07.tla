------------------------------ MODULE Trace_C07 ------------------------------
(***************************************************************************)
(* C07 - MSSM contributions decouple.  A family is a base point scaled by  *)
(* k = 1,2,4,...,64 (all dimensionful SUSY parameters and the scale);      *)
(* events Scaled(case, k, a1L, a2L, tbcor, unc2L, mmin, MZ, S1, S2) arrive *)
(* in order of k.  The trace spec keeps the previous member of the family. *)
(*                                                                         *)
(* Written without divisions:                                              *)
(*  Decouple1L  |4 a1L(2k) - a1L(k)| mmin(k)^2 <= C1 MZ^2 S1(k)            *)
(*  Decouple2L  |4 a2L(2k) - a2L(k)| <= 2/5 S2(k), and the literal band    *)
(*              0.2 <= a2L(2k)/a2L(k) <= 0.35 where the terms do not       *)
(*              cancel (S2 <= 3/2 |a2L|)                                   *)
(*  TbCorFixed  |tbcor(2k) - tbcor(k)| mmin(k)^2 <= C2 MZ^2                *)
(*  UncFloor    unc2L(k) >= 2.3e-10 and unc2L(2k) <= unc2L(k)              *)
(* S1, S2 are the sums of the magnitudes of the individual one-/two-loop   *)
(* terms: "corrections of order (MZ/M)^2" are relative to the terms, not   *)
(* to a sum in which they may cancel.  C1 = 5/2 and C2 = 3/10 are 10 x the *)
(* maxima 0.25 and 0.031 observed over 3000 base points (21000 models) of  *)
(* the unchanged tree; a wrong power of a mass changes the ratio by O(1)   *)
(* at every k, i.e. by (mmin/MZ)^2 >= 10 .. 10^5 times these constants.    *)
(***************************************************************************)
EXTENDS TraceBase, Dyadic

VARIABLES l, prev, base, viol, nchecked
vars == <<l, prev, base, viol, nchecked>>

NoPrev == [e |-> "none"]

Fins(ev) == AllFin(<<ev.a1L, ev.a2L, ev.tbcor, ev.unc2L, ev.mmin, ev.MZ, ev.S1, ev.S2>>)

PairInvs(a, b) ==      \* a = member k, b = member 2k
  LET mm2  == Sq(a.mmin)
      mz2  == Sq(a.MZ)
      d1   == Abs(Sub(Mul(OfInt(4), b.a1L), a.a1L))
      d2   == Abs(Sub(Mul(OfInt(4), b.a2L), a.a2L))
      nocancel == LeRat(a.S2, OfInt(3), OfInt(2), Abs(a.a2L))      \* S2 <= 3/2 |a2L|
  IN <<
    I("Decouple1L", Le(Mul(OfInt(2), Mul(d1, mm2)), Mul(OfInt(5), Mul(mz2, a.S1)))),
    I("Decouple2L", Le(Mul(OfInt(5), d2), Mul(OfInt(2), a.S2))),
    I("Decouple2LBand", nocancel =>
         /\ Sgn(a.a2L) = Sgn(b.a2L)
         /\ Le(Mul(OfInt(20), Abs(a.a2L)), Mul(OfInt(100), Abs(b.a2L)))     \* 0.20 |a| <= |b|
         /\ Le(Mul(OfInt(100), Abs(b.a2L)), Mul(OfInt(35), Abs(a.a2L)))),   \* |b| <= 0.35 |a|
    I("TbCorFixed", Le(Mul(OfInt(10), Mul(Abs(Sub(b.tbcor, a.tbcor)), mm2)), Mul(OfInt(3), mz2))),
    I("UncMonotone", Le(b.unc2L, a.unc2L))
  >>

SelfInvs(ev) == <<
    I("AllFinite", Fins(ev)),
    I("UncFloor", IsFin(ev.unc2L) => Le(OfInt(23), Mul(TenPow(11), ev.unc2L)))
  >>

Init == l = 1 /\ prev = NoPrev /\ base = "" /\ viol = << >> /\ nchecked = 0

TScaled ==
  /\ l <= NLines /\ TraceLog[l].e = "Scaled"
  /\ LET ev == TraceLog[l]
         ok == ev.exc = ""
         \* the property quantifies over base points (k = 1) that are accepted and whose lightest SUSY mass is >= 300 GeV;
         \* a family whose first members are refused (a tachyon that scaling by k lifts) has no such base point
         validBase == ev.k = 1 /\ ok /\ Fins(ev) /\ Le(OfInt(300), ev.mmin)
         chain == /\ prev.e = "Scaled" /\ prev.case = ev.case /\ ev.k = 2 * prev.k /\ base = ev.case
                  /\ ok /\ Fins(ev) /\ Fins(prev)
         invs == (IF ok THEN SelfInvs(ev) ELSE << >>) \o (IF chain THEN PairInvs(prev, ev) ELSE << >>)
     IN /\ viol' = viol \o Failed(invs, l, ev.sig)
        /\ nchecked' = nchecked + Len(invs)
        /\ prev' = IF ok THEN ev ELSE NoPrev
        /\ base' = IF ev.k = 1 THEN (IF validBase THEN ev.case ELSE "") ELSE base
  /\ l' = l + 1

Next == TScaled
Spec == Init /\ [][Next]_vars
Report == l = NLines + 1 => WriteReport(l, viol, [nchecked |-> nchecked])
=============================================================================
