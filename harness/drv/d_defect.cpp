// Defect driver (C16): valid random point + documented defects, through the C++ and the C API.
// Records the exception class / error code, warnings on stderr, problem flags and finiteness.
//
// usage: d_defect <jobfile> <tracefile>   job lines: <id> <mssm|thdm> <cpp|c> <force 0|1> <d1,d2|->
#include "models.hpp"

#include "gm2calc/MSSMNoFV_onshell.h"
#include "gm2calc/THDM.h"
#include "gm2calc/SM.h"
#include "gm2calc/gm2_1loop.h"
#include "gm2calc/gm2_2loop.h"
#include "gm2calc/gm2_uncertainty.h"

#include <fstream>
#include <iostream>
#include <limits>
#include <memory>
#include <sstream>

using gm2calc::THDM; namespace thdm = gm2calc::thdm; using gm2calc::calculate_amu_1loop; using gm2calc::calculate_amu_2loop;

namespace {

std::vector<std::string> split(const std::string& s, char c)
{
   std::vector<std::string> v;
   std::istringstream is(s);
   std::string t;
   while (std::getline(is, t, c)) if (!t.empty() && t != "-") v.push_back(t);
   return v;
}

bool has(const std::vector<std::string>& d, const char* n)
{
   for (const auto& x : d) if (x == n) return true;
   return false;
}

// captures what the library writes to std::cerr (WARNING / ERROR macros)
struct CerrCapture {
   std::ostringstream buf;
   std::streambuf* old;
   CerrCapture() : old(std::cerr.rdbuf(buf.rdbuf())) {}
   ~CerrCapture() { std::cerr.rdbuf(old); }
   bool nonempty() const { return !buf.str().empty(); }
};

void apply_mssm_defects(vm::MssmPt& p, const std::vector<std::string>& d, double& tb_override, bool& tb_set)
{
   const double inf = std::numeric_limits<double>::infinity();
   if (has(d, "MWgeMZ")) p.MW = p.MZ * 1.01;
   if (has(d, "MW0")) p.MW = 0;
   if (has(d, "MZ0")) p.MZ = 0;
   if (has(d, "MM0")) p.Mm = 0;
   if (has(d, "Mu0")) p.Mu = 0;
   if (has(d, "M10")) p.M1 = 0;
   if (has(d, "M20")) p.M2 = 0;
   if (has(d, "TB0")) { tb_override = 0; tb_set = true; }
   if (has(d, "TBinf")) { tb_override = inf; tb_set = true; }
   if (has(d, "negSoft_mq2_0")) p.mq2[0] = -p.mq2[0];
   if (has(d, "negSoft_mu2_2")) p.mu2[2] = -p.mu2[2];
   if (has(d, "negSoft_md2_0")) p.md2[0] = -p.md2[0];
   if (has(d, "negSoft_ml2_1")) p.ml2[1] = -p.ml2[1];
   if (has(d, "negSoft_me2_2")) p.me2[2] = -p.me2[2];
   if (has(d, "masslessCha")) {
      const double tb = tb_set ? tb_override : p.TB;
      const double s2b = 2 * tb / (1 + tb * tb);
      p.M2 = p.MW * p.MW * s2b / p.Mu;      // det of the chargino mass matrix vanishes
   }
   if (has(d, "tach_St")) p.Au[2] = 40 * std::sqrt(std::sqrt(p.mq2[2] * p.mu2[2]));
   if (has(d, "tach_Sb")) p.Ad[2] = 3000 * std::sqrt(std::sqrt(p.mq2[2] * p.md2[2]));
   if (has(d, "tach_Stau")) p.Ae[2] = 8000 * std::sqrt(std::sqrt(p.ml2[2] * p.me2[2]));
   if (has(d, "tach_Sm")) p.Ae[1] = 200000 * std::sqrt(std::sqrt(p.ml2[1] * p.me2[1]));
}

void apply_thdm_defects(vm::ThdmPt& p, const std::vector<std::string>& d)
{
   auto& b = p.mb;
   if (has(d, "tb0")) b.tan_beta = 0;
   if (has(d, "tbneg")) b.tan_beta = -b.tan_beta;
   if (has(d, "mhgtmH")) b.mh = b.mH * 1.5;
   if (has(d, "sba_gt1")) b.sin_beta_minus_alpha = 1.5;
   if (has(d, "neg_mh")) b.mh = -b.mh;
   if (has(d, "neg_mH")) b.mH = -b.mH;
   if (has(d, "neg_mA")) b.mA = -b.mA;
   if (has(d, "neg_mHp")) b.mHp = -b.mHp;
   if (has(d, "badtype")) b.yukawa_type = static_cast<thdm::Yukawa_type>(7);
   if (has(d, "tach_gauge")) {
      p.mass_basis = false;
      auto& g = p.gb;
      g.yukawa_type = b.yukawa_type;
      g.lambda << -5.0, 0.6, 0.5, 0.4, 0.3, 0.2, 0.1;
      g.tan_beta = b.tan_beta;
      g.m122 = -40000;
      g.zeta_u = b.zeta_u; g.zeta_d = b.zeta_d; g.zeta_l = b.zeta_l;
   }
}

void run_mssm_cpp(vt::Ev& ev, vt::Rng& rng, const std::vector<std::string>& d, bool force)
{
   vm::MssmPt p = vm::valid_mssm(rng, 300, 2000, 3, 50);
   double tbo = 0; bool tbs = false;
   apply_mssm_defects(p, d, tbo, tbs);
   CerrCapture cap;
   gm2calc::MSSMNoFV_onshell m;
   m.do_force_output(force);
   double amu = std::nan("");
   std::string exc = vm::exc_class([&] {
      vm::apply(m, p);
      if (tbs) m.set_TB(tbo);
      m.calculate_masses();
      amu = calculate_amu_1loop(m) + calculate_amu_2loop(m);
   });
   ev.str("exc", exc).i("code", -1).b("refused", !exc.empty()).b("warned", cap.nonempty() || m.get_problems().have_warning())
     .b("problem", m.get_problems().have_problem()).b("finite", std::isfinite(amu)).num("amu", amu)
     .i("exit", -1).b("physics", false);
}

void run_mssm_c(vt::Ev& ev, vt::Rng& rng, const std::vector<std::string>& d)
{
   vm::MssmPt p = vm::valid_mssm(rng, 300, 2000, 3, 50);
   double tbo = 0; bool tbs = false;
   apply_mssm_defects(p, d, tbo, tbs);
   CerrCapture cap;
   const double Pi = 3.141592653589793;
   ::MSSMNoFV_onshell* h = gm2calc_mssmnofv_new();
   gm2calc_mssmnofv_set_alpha_MZ(h, p.aMZ);
   gm2calc_mssmnofv_set_alpha_thompson(h, p.a0);
   gm2calc_mssmnofv_set_g3(h, std::sqrt(4 * Pi * p.as));
   gm2calc_mssmnofv_set_MT_pole(h, p.Mt);
   gm2calc_mssmnofv_set_MB_running(h, p.Mb);
   gm2calc_mssmnofv_set_MM_pole(h, p.Mm);
   gm2calc_mssmnofv_set_ML_pole(h, p.Mtau);
   gm2calc_mssmnofv_set_MW_pole(h, p.MW);
   gm2calc_mssmnofv_set_MZ_pole(h, p.MZ);
   gm2calc_mssmnofv_set_TB(h, tbs ? tbo : p.TB);
   gm2calc_mssmnofv_set_Mu(h, p.Mu);
   gm2calc_mssmnofv_set_MassB(h, p.M1);
   gm2calc_mssmnofv_set_MassWB(h, p.M2);
   gm2calc_mssmnofv_set_MassG(h, p.M3);
   for (unsigned i = 0; i < 3; ++i) {
      gm2calc_mssmnofv_set_mq2(h, i, i, p.mq2[i]); gm2calc_mssmnofv_set_ml2(h, i, i, p.ml2[i]);
      gm2calc_mssmnofv_set_md2(h, i, i, p.md2[i]); gm2calc_mssmnofv_set_mu2(h, i, i, p.mu2[i]);
      gm2calc_mssmnofv_set_me2(h, i, i, p.me2[i]);
      gm2calc_mssmnofv_set_Au(h, i, i, p.Au[i]); gm2calc_mssmnofv_set_Ad(h, i, i, p.Ad[i]);
      gm2calc_mssmnofv_set_Ae(h, i, i, p.Ae[i]);
   }
   gm2calc_mssmnofv_set_MAh_pole(h, p.MA0);
   gm2calc_mssmnofv_set_scale(h, p.Q);
   const gm2calc_error err = gm2calc_mssmnofv_calculate_masses(h);
   double amu = std::nan("");
   if (err == gm2calc_NoError)
      amu = gm2calc_mssmnofv_calculate_amu_1loop(h) + gm2calc_mssmnofv_calculate_amu_2loop(h);
   const bool problem = gm2calc_mssmnofv_have_problem(h) != 0;
   const bool warning = gm2calc_mssmnofv_have_warning(h) != 0;
   gm2calc_mssmnofv_free(h);
   ev.str("exc", "").i("code", int(err)).b("refused", err != gm2calc_NoError).b("warned", cap.nonempty() || warning)
     .b("problem", problem).b("finite", std::isfinite(amu)).num("amu", amu).i("exit", -1).b("physics", false);
}

void run_thdm_cpp(vt::Ev& ev, vt::Rng& rng, const std::vector<std::string>& d, bool force)
{
   vm::ThdmPt p = vm::random_thdm_mass(rng, 1 + rng.below(6));
   p.cfg.force_output = force;
   apply_thdm_defects(p, d);
   CerrCapture cap;
   std::unique_ptr<THDM> m;
   double amu = std::nan("");
   std::string exc = vm::exc_class([&] {
      if (p.mass_basis) m.reset(new THDM(p.mb, p.sm, p.cfg)); else m.reset(new THDM(p.gb, p.sm, p.cfg));
      amu = calculate_amu_1loop(*m) + calculate_amu_2loop(*m);
   });
   ev.str("exc", exc).i("code", -1).b("refused", !exc.empty()).b("warned", cap.nonempty())
     .b("problem", m && m->get_problems().have_problem()).b("finite", std::isfinite(amu)).num("amu", amu)
     .i("exit", -1).b("physics", false);
}

void copy33(double dst[3][3], const Eigen::Matrix<double, 3, 3>& m) {
   for (int i = 0; i < 3; ++i) for (int k = 0; k < 3; ++k) dst[i][k] = m(i, k);
}

void run_thdm_c(vt::Ev& ev, vt::Rng& rng, const std::vector<std::string>& d, bool force)
{
   vm::ThdmPt p = vm::random_thdm_mass(rng, 1 + rng.below(6));
   apply_thdm_defects(p, d);
   CerrCapture cap;
   gm2calc_SM sm;
   gm2calc_sm_set_to_default(&sm);
   sm.alpha_em_mz = p.sm.get_alpha_em_mz();
   sm.mu[2] = p.sm.get_mu(2); sm.mu[1] = p.sm.get_mu(1); sm.md[2] = p.sm.get_md(2); sm.ml[2] = p.sm.get_ml(2);
   gm2calc_THDM_config cfg;
   gm2calc_thdm_config_set_to_default(&cfg);
   cfg.force_output = force ? 1 : 0;
   gm2calc_THDM* h = nullptr;
   gm2calc_error err;
   if (p.mass_basis) {
      gm2calc_THDM_mass_basis b;
      b.yukawa_type = static_cast<gm2calc_THDM_yukawa_type>(static_cast<int>(p.mb.yukawa_type));
      b.mh = p.mb.mh; b.mH = p.mb.mH; b.mA = p.mb.mA; b.mHp = p.mb.mHp;
      b.sin_beta_minus_alpha = p.mb.sin_beta_minus_alpha; b.lambda_6 = p.mb.lambda_6; b.lambda_7 = p.mb.lambda_7;
      b.tan_beta = p.mb.tan_beta; b.m122 = p.mb.m122; b.zeta_u = p.mb.zeta_u; b.zeta_d = p.mb.zeta_d; b.zeta_l = p.mb.zeta_l;
      copy33(b.Delta_u, p.mb.Delta_u); copy33(b.Delta_d, p.mb.Delta_d); copy33(b.Delta_l, p.mb.Delta_l);
      copy33(b.Pi_u, p.mb.Pi_u); copy33(b.Pi_d, p.mb.Pi_d); copy33(b.Pi_l, p.mb.Pi_l);
      err = gm2calc_thdm_new_with_mass_basis(&h, &b, &sm, &cfg);
   } else {
      gm2calc_THDM_gauge_basis b;
      b.yukawa_type = static_cast<gm2calc_THDM_yukawa_type>(static_cast<int>(p.gb.yukawa_type));
      for (int i = 0; i < 7; ++i) b.lambda[i] = p.gb.lambda(i);
      b.tan_beta = p.gb.tan_beta; b.m122 = p.gb.m122; b.zeta_u = p.gb.zeta_u; b.zeta_d = p.gb.zeta_d; b.zeta_l = p.gb.zeta_l;
      copy33(b.Delta_u, p.gb.Delta_u); copy33(b.Delta_d, p.gb.Delta_d); copy33(b.Delta_l, p.gb.Delta_l);
      copy33(b.Pi_u, p.gb.Pi_u); copy33(b.Pi_d, p.gb.Pi_d); copy33(b.Pi_l, p.gb.Pi_l);
      err = gm2calc_thdm_new_with_gauge_basis(&h, &b, &sm, &cfg);
   }
   double amu = std::nan("");
   if (err == gm2calc_NoError && h)
      amu = gm2calc_thdm_calculate_amu_1loop(h) + gm2calc_thdm_calculate_amu_2loop(h);
   // the protected calculation wrappers return NaN when the C++ function throws: that is a refusal
   const bool refused = err != gm2calc_NoError || (std::isnan(amu) && has(d, "badtype"));
   gm2calc_thdm_free(h);
   ev.str("exc", "").i("code", (err == gm2calc_NoError && refused) ? 3 : int(err)).b("refused", refused).b("warned", cap.nonempty())
     .b("problem", false).b("finite", std::isfinite(amu)).num("amu", amu).i("exit", -1).b("physics", false);
}

} // namespace

int main(int argc, char** argv)
{
   if (argc < 3) { std::fprintf(stderr, "usage: d_defect <jobfile> <tracefile>\n"); return 2; }
   std::ifstream jobs(argv[1]);
   vt::open_trace(argv[2]);
   vt::install_terminate();
   vt::Rng rng(vt::env_seed());
   std::string line;
   while (std::getline(jobs, line)) {
      std::istringstream is(line);
      std::string id, model, entry, ds;
      int force = 0;
      if (!(is >> id >> model >> entry >> force >> ds)) continue;
      const auto d = split(ds, ',');
      vt::Ev ev("Defect");
      ev.str("case", id).str("model", model).str("entry", entry).str("fmt", "api").b("force", force != 0).strs("D", d)
        .str("sig", model + "/" + entry + "/f" + std::to_string(force) + "/" + ds);
      if (model == "mssm" && entry == "cpp") run_mssm_cpp(ev, rng, d, force != 0);
      else if (model == "mssm") run_mssm_c(ev, rng, d);
      else if (entry == "cpp") run_thdm_cpp(ev, rng, d, force != 0);
      else run_thdm_c(ev, rng, d, force != 0);
      ev.emit();
   }
   vt::flush_trace();
   return 0;
}
