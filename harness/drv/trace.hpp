// ndjson trace writer with lossless number encoding (DESIGN appendix B, Dyadic.tla).
//
// A double x is written as {"k":"fin","s":S,"q":Q,"m":[l0,l1,...],"b":[w0,w1,w2,w3]}
//   |x| = (sum_i l_i 2^(15 i)) * 2^(15 Q), limbs < 2^15, little endian, l0 != 0;
//   "b" = the raw IEEE bits as four 16-bit words (for bit-equality statements).
// The encoder does no rounding and takes no decision: every comparison happens in TLC.
#ifndef GM2VERIF_TRACE_HPP
#define GM2VERIF_TRACE_HPP

#include <cmath>
#include <complex>
#include <cstdint>
#include <cstdio>
#include <cstdlib>
#include <cstring>
#include <exception>
#include <string>
#include <vector>
#include <unistd.h>

namespace vt {

inline FILE*& out() { static FILE* f = stdout; return f; }

inline void open_trace(const char* path) {
   FILE* f = std::fopen(path, "w");
   if (!f) { std::perror(path); std::exit(3); }
   static std::vector<char> buf(1 << 20);
   std::setvbuf(f, buf.data(), _IOFBF, buf.size());
   out() = f;
}

inline void flush_trace() { std::fflush(out()); }

// an escaping exception must be *observed*, not truncate the trace
inline void install_terminate() {
   std::set_terminate([]() {
      std::fprintf(out(), "{\"e\":\"Terminated\"}\n");
      std::fflush(out());
      try { if (std::current_exception()) std::rethrow_exception(std::current_exception()); }
      catch (const std::exception& e) { std::fprintf(stderr, "terminate: %s\n", e.what()); }
      catch (...) { std::fprintf(stderr, "terminate: unknown exception\n"); }
      _exit(70);
   });
}

inline std::string enc_mant(unsigned __int128 M, int e2)
{
   // value = M * 2^e2, M > 0
   int q = e2 >= 0 ? e2 / 15 : -((-e2 + 14) / 15);
   int r = e2 - 15 * q;               // 0..14
   // M < 2^64, r <= 14: fits in 128 bits
   M <<= r;
   while ((M & 0x7fff) == 0) { M >>= 15; ++q; }
   std::string s = "\"q\":" + std::to_string(q) + ",\"m\":[";
   bool first = true;
   while (M != 0) {
      if (!first) s += ',';
      s += std::to_string(static_cast<unsigned>(M & 0x7fff));
      M >>= 15;
      first = false;
   }
   s += ']';
   return s;
}

inline std::string enc(double x)
{
   std::uint64_t bits;
   std::memcpy(&bits, &x, sizeof bits);
   char b[96];
   std::snprintf(b, sizeof b, ",\"b\":[%u,%u,%u,%u]}",
                 unsigned(bits & 0xffff), unsigned((bits >> 16) & 0xffff),
                 unsigned((bits >> 32) & 0xffff), unsigned((bits >> 48) & 0xffff));
   if (std::isnan(x)) return std::string("{\"k\":\"nan\",\"s\":0,\"q\":0,\"m\":[]") + b;
   if (std::isinf(x)) return std::string("{\"k\":\"inf\",\"s\":") + (x > 0 ? "1" : "-1") + ",\"q\":0,\"m\":[]" + b;
   if (x == 0.0) return std::string("{\"k\":\"fin\",\"s\":0,\"q\":0,\"m\":[]") + b;
   int e;
   double fr = std::frexp(std::fabs(x), &e);          // fr in [0.5,1)
   unsigned __int128 M = static_cast<std::uint64_t>(std::ldexp(fr, 53));
   return std::string("{\"k\":\"fin\",\"s\":") + (x > 0 ? "1," : "-1,") + enc_mant(M, e - 53) + b;
}

// long double atom (x87 80-bit): exact, no "b" field
inline std::string encl(long double x)
{
   if (std::isnan(x)) return "{\"k\":\"nan\",\"s\":0,\"q\":0,\"m\":[]}";
   if (std::isinf(x)) return std::string("{\"k\":\"inf\",\"s\":") + (x > 0 ? "1" : "-1") + ",\"q\":0,\"m\":[]}";
   if (x == 0.0L) return "{\"k\":\"fin\",\"s\":0,\"q\":0,\"m\":[]}";
   int e;
   long double fr = std::frexp(std::fabs(x), &e);
   unsigned __int128 M = static_cast<std::uint64_t>(std::ldexp(fr, 64));
   return std::string("{\"k\":\"fin\",\"s\":") + (x > 0 ? "1," : "-1,") + enc_mant(M, e - 64) + "}";
}

inline std::string jstr(const std::string& s)
{
   std::string r = "\"";
   for (unsigned char c : s) {
      if (c == '"' || c == '\\') { r += '\\'; r += char(c); }
      else if (c == '\n') r += "\\n";
      else if (c == '\t') r += "\\t";
      else if (c == '\r') r += "\\r";
      else if (c < 0x20 || c >= 0x7f) { char b[8]; std::snprintf(b, sizeof b, "\\u%04x", c); r += b; }
      else r += char(c);
   }
   return r + "\"";
}

class Ev {
public:
   explicit Ev(const char* name) { s_ = std::string("{\"e\":\"") + name + "\""; }
   Ev& num(const char* k, double x) { key(k); s_ += enc(x); return *this; }
   Ev& lnum(const char* k, long double x) { key(k); s_ += encl(x); return *this; }
   Ev& i(const char* k, long v) { key(k); s_ += std::to_string(v); return *this; }
   Ev& b(const char* k, bool v) { key(k); s_ += v ? "true" : "false"; return *this; }
   Ev& str(const char* k, const std::string& v) { key(k); s_ += jstr(v); return *this; }
   Ev& raw(const char* k, const std::string& json) { key(k); s_ += json; return *this; }
   Ev& cplx(const char* k, const std::complex<double>& z) {
      key(k); s_ += "[" + enc(z.real()) + "," + enc(z.imag()) + "]"; return *this;
   }
   template <class It>
   Ev& nums(const char* k, It first, It last) {
      key(k); s_ += '[';
      bool f = true;
      for (; first != last; ++first) { if (!f) s_ += ','; s_ += enc(*first); f = false; }
      s_ += ']';
      return *this;
   }
   Ev& vec(const char* k, const std::vector<double>& v) { return nums(k, v.begin(), v.end()); }
   Ev& ints(const char* k, const std::vector<long>& v) {
      key(k); s_ += '[';
      for (std::size_t j = 0; j < v.size(); ++j) { if (j) s_ += ','; s_ += std::to_string(v[j]); }
      s_ += ']';
      return *this;
   }
   Ev& strs(const char* k, const std::vector<std::string>& v) {
      key(k); s_ += '[';
      for (std::size_t j = 0; j < v.size(); ++j) { if (j) s_ += ','; s_ += jstr(v[j]); }
      s_ += ']';
      return *this;
   }
   void emit() { s_ += "}\n"; std::fputs(s_.c_str(), out()); }
   const std::string& text() const { return s_; }
private:
   void key(const char* k) { s_ += ",\""; s_ += k; s_ += "\":"; }
   std::string s_;
};

// named numbers as a JSON object {"a1L":{...}, ...}  (a TLA+ record after deserialisation)
class Named {
public:
   Named& add(const std::string& n, double v) {
      if (!s_.empty()) s_ += ',';
      s_ += jstr(n) + ":" + enc(v);
      return *this;
   }
   std::string json() const { return "{" + s_ + "}"; }
private:
   std::string s_;
};

// deterministic RNG (splitmix64) - the only source of randomness, seeded by VERIF_SEED
struct Rng {
   std::uint64_t s;
   explicit Rng(std::uint64_t seed) : s(seed * 0x9E3779B97F4A7C15ULL + 0x1234567ULL) {}
   std::uint64_t next() {
      std::uint64_t z = (s += 0x9E3779B97F4A7C15ULL);
      z = (z ^ (z >> 30)) * 0xBF58476D1CE4E5B9ULL;
      z = (z ^ (z >> 27)) * 0x94D049BB133111EBULL;
      return z ^ (z >> 31);
   }
   double uni() { return (next() >> 11) * (1.0 / 9007199254740992.0); }           // [0,1)
   double uni(double a, double b) { return a + (b - a) * uni(); }
   double logu(double a, double b) { return std::exp(uni(std::log(a), std::log(b))); }
   int below(int n) { return int(next() % std::uint64_t(n)); }
   bool coin() { return next() & 1; }
   double sign() { return coin() ? 1.0 : -1.0; }
};

inline std::uint64_t env_seed() {
   const char* s = std::getenv("VERIF_SEED");
   return s ? std::strtoull(s, nullptr, 10) : 1;
}

} // namespace vt

#endif
