SPECIFICATION Spec
CONSTANTS
  N = 2
  VMax = 2
  Bug = "s_only"
INVARIANTS Contract Ordered NonNegative ScaledUnitary
CHECK_DEADLOCK FALSE
