"""C16 - unphysical input is rejected or flagged, never silently computed."""
import json
import os
import random
import re
from concurrent.futures import ThreadPoolExecutor

import build
import cases
import cli
import core
import points
import tlc


def run(tier, seed):
    cx = core.Ctx("C16", tier, seed, "model_checking")
    rnd = random.Random(seed)
    # the program-level rules (exit status vs refusal / problem, no physics output on refusal) on the machine
    r = tlc.model_check("CLI.tla", "CLI_seq_quick.cfg" if tier == "quick" else "CLI_seq.cfg", workers=16, heap="8g", timeout=3000)
    cx.add_model(r, "CLI.tla: ExitIffRefusedOrProblem, Diagnosed over all input classes x force x formats")
    sets = cases.get("C16")
    reps = 1 if tier == "quick" else 8
    # ---- library entries (C++ and C) --------------------------------------------------------------
    exe = build.driver_build("d_defect")
    jf = cx.path("jobs.txt")
    n = 0
    with open(jf, "w") as fh:
        for rep in range(reps):
            for model in ("mssm", "thdm"):
                for D in [[]] * 6 + sets[model]:
                    for entry in ("cpp", "c"):
                        for force in (0, 1):
                            if model == "mssm" and entry == "c" and force:
                                continue       # the MSSM C API has no force-output setter
                            fh.write("j%06d %s %s %d %s\n" % (n, model, entry, force, ",".join(D) or "-"))
                            n += 1
    tr1 = cx.path("trace_lib.ndjson")
    core.run_driver(exe, [jf, tr1], timeout=3000)
    # ---- program entry -------------------------------------------------------------------------------
    gx = build.gm2calc_x("plain")
    fdir = cx.path("in")
    os.makedirs(fdir)
    slha_base = cli.strip_config(open(os.path.join(build.REPO, "input", "example.slha")).read())
    jobs = []
    for rep in range(reps):
        for D in [[]] * 3 + sets["mssm"]:
            for fmt_in in ("gm2calc", "slha"):
                if fmt_in == "slha":
                    text = slha_base
                    if "MW0" in D:      # MASS[24] would override SMINPUTS[9]: drop the W entry of the MASS block
                        text = re.sub(r"(?m)^\s*24\s+8\.0377\S+.*\n", "", text)
                    text += "".join(points.SLHA_DEFECT_BLOCKS[d] for d in D)
                else:
                    text = points.write_gm2calc(points.mssm_defects(points.random_mssm(rnd), D))
                for force in (0, 1):
                    jobs.append(("mssm", fmt_in, D, force, text))
        for D in [[]] * 3 + sets["thdm"] + [["undecidable"]]:
            text = points.write_thdm(points.thdm_defects(points.random_thdm(rnd), D))
            for force in (0, 1):
                jobs.append(("thdm", "thdm", D, force, text))
    paths = []
    for i, j in enumerate(jobs):
        ofmt = (0, 4, 1)[i % 3]
        p = os.path.join(fdir, "d%06d.in" % i)
        open(p, "w").write(j[4] + "Block GM2CalcConfig\n 0 %d\n 3 %d\n" % (ofmt, j[3]))
        paths.append((p, ofmt))

    def do(k):
        return cli.run(gx, ["--%s-input-file=%s" % (jobs[k][1], paths[k][0])], timeout=120)
    with ThreadPoolExecutor(max_workers=16) as ex:
        results = list(ex.map(do, range(len(jobs))))
    tr2 = cx.path("trace_cli.ndjson")
    with open(tr2, "w") as fh:
        for (model, fmt_in, D, force, text), (p, ofmt), r in zip(jobs, paths, results):
            kinds = cli.classify(r["stdout"])
            physics = any(k in ("number", "report") or k.startswith("result:") for k in kinds)
            finite = True
            if kinds == ["number"]:
                finite = "nan" not in r["stdout"].lower() and "inf" not in r["stdout"].lower()
            elif physics:
                nums = re.findall(r"(?i)(?<![\w.])-?(?:nan|inf)(?![\w.])", "\n".join(
                    ln for ln in r["stdout"].splitlines() if "GM2CalcOutput" in ln or "Delta(g-2)" in ln or "amu (1-loop + 2-loop" in ln))
                finite = not nums
            fh.write(json.dumps({"e": "Defect", "case": os.path.basename(p), "model": model, "entry": "cli", "fmt": fmt_in,
                                 "force": bool(force), "D": D, "exc": "", "code": -1, "refused": not physics,
                                 "warned": r["stderr"].strip() != "", "problem": "tachyon" in r["stderr"],
                                 "finite": finite, "exit": r["exit"] if not r["signal"] else 100 + r["signal"], "physics": physics,
                                 "sig": "%s/cli-%s/f%d/%s" % (model, fmt_in, force, ",".join(D) or "-")}) + "\n")
    traces = tlc.split_trace(tr1, 4) + tlc.split_trace(tr2, 4)
    for rep in tlc.validate_traces("Trace_C16.tla", traces, jobs=8):
        cx.add_report(rep)
    for t in (tr1, tr2):
        for ln in open(t):
            ev = json.loads(ln)
            cx.evaluations += 1
            if ev["D"]:
                cx.distinct.add((ev["model"], ev["entry"], ev["fmt"], ev["force"], tuple(ev["D"])))
            if len(cx.cov["samples"]) < 4 and len(ev["D"]) == 2:
                cx.sample({k: ev[k] for k in ("model", "entry", "fmt", "force", "D", "exc", "code", "refused", "warned", "problem", "finite", "exit")})
    cx.cov["defect_sets"] = {m: len(sets[m]) for m in sets}
    cx.assumptions += ["defect catalogue and allowed exception classes: spec/Defects.tla (transcribed from the documentation)",
                       "a refusal under force-output counts as rejection (the property's title: rejected or flagged, never silent)",
                       "'massless lightest chargino' cannot be realised exactly from outside (the code tests MCha(0) == 0 to machine precision) and is not in the enumerated catalogue",
                       "SLHA-format program runs use the shipped example point with the defect appended as an overriding block"]
    return cx.finish(rule="all defect sets of size <= 2 (TLC: Defects.tla DefectSets) x force-output x entry point (C++ API, C API, "
                          "gm2calc.x in the three input formats) applied to random valid points; distinct_nontrivial = distinct "
                          "(model, entry, format, force, defect set)", exhaustive=True)
