SPECIFICATION Spec
CONSTANTS
  N = 2
  VMax = 2
  Bug = "none"
INVARIANTS Contract Ordered NonNegative ScaledUnitary
CHECK_DEADLOCK FALSE
