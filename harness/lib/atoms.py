#!/usr/bin/env python3-vt
"""Adds high-precision "atoms" to the Eval events of a loop-function trace (C01, C02).

The trace specifications (Trace_C01.tla, Trace_C02.tla) hold the published closed forms of the loop functions as
polynomial identities in the argument(s) and in a few transcendental atoms (log x, Li2(1-x), Li2(1-1/x), the
Davydychev-Tausk function, f_PS of Eq.(70) hep-ph/0609168, Cl2, ...).  This script evaluates the atoms with mpmath at
400 bits from the exact value of the logged doubles and writes them as Dyadic records of 22 limbs (330 bits), so
that TLC composes the definition in exact arithmetic.  Nothing is compared here.

usage: atoms.py <trace in> <trace out>      (run with the tooling interpreter python3-vt: needs mpmath)
"""
import json
import sys

import mpmath
from mpmath import mp, mpf, mpc

mp.prec = 400
LIMBS = 22


def to_mpf(d):
    """exact value of a logged double"""
    if d["k"] != "fin":
        return None
    v = mpf(0)
    for i, l in enumerate(d["m"]):
        v += mpf(l) * mpf(2) ** (15 * i)
    return d["s"] * v * mpf(2) ** (15 * d["q"])


def dy(v, limbs=None):
    """mpf -> Dyadic record with LIMBS limbs (truncated towards zero: error < 2^-315 relative)"""
    LIMBS = limbs or globals()["LIMBS"]
    if isinstance(v, mpc):
        v = v.real
    if not mpmath.isfinite(v):
        return {"k": "nan", "s": 0, "q": 0, "m": []}
    if v == 0:
        return {"k": "fin", "s": 0, "q": 0, "m": []}
    s = 1 if v > 0 else -1
    a = abs(v)
    e = mpmath.frexp(a)[1]                    # a = f * 2^e, f in [0.5, 1)
    q = (e - 15 * LIMBS) // 15                # floor
    n = int(mpmath.floor(a * mpf(2) ** (-15 * q)))
    m = []
    while n:
        m.append(n & 0x7fff)
        n >>= 15
    while m and m[0] == 0:                    # normalise: lowest limb non-zero
        m.pop(0)
        q += 1
    return {"k": "fin", "s": s, "q": q, "m": m}


PI2_6 = mp.pi ** 2 / 6


def li2(x):
    return mpmath.polylog(2, x)


def f_ps(z):
    """Eq.(70) hep-ph/0609168: 2z/y (Li2(1 - (1-y)/(2z)) - Li2(1 - (1+y)/(2z))), y = sqrt(1 - 4z)"""
    if z == 0:
        return mpf(0)
    if z == mpf(1) / 4:
        return mpmath.log(4)
    y = mpmath.sqrt(mpc(1 - 4 * z))
    r = 2 * z / y * (li2(1 - (1 - y) / (2 * z)) - li2(1 - (1 + y) / (2 * z)))
    return r.real


def onevar_def(fn, x):
    """the published definition, evaluated directly (used only for the local magnitude scale S)"""
    L = mpmath.log(x)
    if fn == "F1C": return 2 / (1 - x) ** 4 * (2 + 3 * x - 6 * x ** 2 + x ** 3 + 6 * x * L)
    if fn == "F2C": return 3 / (2 * (1 - x) ** 3) * (-3 + 4 * x - x ** 2 - 2 * L)
    if fn == "F1N": return 2 / (1 - x) ** 4 * (1 - 6 * x + 3 * x ** 2 + 2 * x ** 3 - 6 * x ** 2 * L)
    if fn == "F2N": return 3 / (1 - x) ** 3 * (1 - x ** 2 + 2 * x * L)
    D = li2(1 - x).real
    if fn == "F3C": return 4 / (141 * (1 - x) ** 4) * ((1 - x) * (151 * x ** 2 - 335 * x + 592) + 6 * (21 * x ** 3 - 108 * x ** 2 - 93 * x + 50) * L
                                                       - 54 * x * (x ** 2 - 2 * x - 2) * L ** 2 - 108 * x * (x ** 2 - 2 * x + 12) * D)
    if fn == "F4C": return -9 / (122 * (1 - x) ** 3) * (8 * (x ** 2 - 3 * x + 2) + (11 * x ** 2 - 40 * x + 5) * L - 2 * (x ** 2 - 2 * x - 2) * L ** 2
                                                        - 4 * (x ** 2 - 2 * x + 9) * D)
    if fn == "F3N": return 4 / (105 * (1 - x) ** 4) * ((1 - x) * (-97 * x ** 2 - 529 * x + 2) + 6 * x ** 2 * (13 * x + 81) * L + 108 * x * (7 * x + 4) * D)
    if fn == "F4N": return -mpf(9) / 4 / (1 - x) ** 3 * ((x + 3) * (x * L + x - 1) + (6 * x + 2) * D)
    if fn == "G3": return ((x - 1) * (x - 3) + 2 * L) / (2 * (x - 1) ** 3)
    if fn == "G4": return ((x - 1) * (x + 1) - 2 * x * L) / (2 * (x - 1) ** 3)
    P = f_ps(x)
    if fn == "f_PS": return P
    if fn == "f_S": return (2 * x - 1) * P - 2 * x * (2 + L)
    if fn == "f_sferm": return x / 2 * (2 + L - P)
    if fn == "f_CSl": return x * (x + x * (x - 1) * (li2(1 - 1 / x).real - PI2_6) + (x - mpf(1) / 2) * L)
    if fn == "F1": return (x - mpf(1) / 2) * P - x * (2 + L)
    if fn == "F1t": return P / 2
    if fn == "F2": return 1 + (L - P) / 2
    if fn == "F3": return (mpf(1) / 2 + mpf(15) / 2 * x) * (2 + L) + (mpf(17) / 4 - mpf(15) / 2 * x) * P
    raise KeyError(fn)


def local_scale(fn, x):
    """max |f| over x (1 +- 1 %): the magnitude against which accuracy is measured where f itself crosses zero"""
    s = mpf(0)
    for k in (mpf("0.99"), mpf("1.01")):
        try:
            s = max(s, abs(onevar_def(fn, x * k)))
        except ZeroDivisionError:
            pass
    return s


ONEVAR = {"F1C", "F2C", "F3C", "F4C", "F1N", "F2N", "F3N", "F4N", "G3", "G4", "f_PS", "f_S", "f_sferm", "f_CSl", "F1", "F1t", "F2", "F3"}


def atoms_onevar(fn, x):
    at = {}
    if x is None or x <= 0:
        return at
    at["L"] = dy(mpmath.log(x))
    if fn in ("F3C", "F4C", "F3N", "F4N"):
        at["D"] = dy(li2(1 - x).real)
    if fn in ("f_PS", "f_S", "f_sferm", "F1", "F1t", "F2", "F3"):
        at["P"] = dy(f_ps(x))
    if fn == "f_CSl":
        at["E"] = dy(li2(1 - 1 / x).real)
    at["S"] = dy(local_scale(fn, x))
    return at


def oneloop_atoms(ev, dy=None):
    """loop functions at the mass ratios of a one-loop event (C03)"""
    o = {k: to_mpf(v) for k, v in ev["o"].items()}
    at = {}
    full = dy
    dy = lambda v: full(v, 8)          # 120 bits suffice for a comparison at 1e-8
    def F(fn, x):
        if x == 0:
            return {"F1N": mpf(2), "F2N": mpf(3), "F1C": mpf(4)}[fn]
        if x == 1:
            return mpf(1)
        return onevar_def(fn, x)
    if ev["model"] == "mssm":
        for i in range(4):
            for m in range(2):
                x = (o["MChi_%d0" % i] / o["MSm_%d0" % m]) ** 2
                at["F1N_%d%d" % (i, m)] = dy(F("F1N", x))
                at["F2N_%d%d" % (i, m)] = dy(F("F2N", x))
        for k in range(2):
            x = (o["MCha_%d0" % k] / o["MSvmL"]) ** 2
            at["F1C_%d" % k] = dy(F("F1C", x))
            at["F2C_%d" % k] = dy(F("F2C", x))
    else:
        for S, mS in (("h", o["mh"]), ("H", o["mH"]), ("A", o["mA"])):
            for g in range(3):
                x = (o["ml_%d0" % g] / mS) ** 2
                at["F1C_%s_%d" % (S, g)] = dy(F("F1C", x))
                at["F2C_%s_%d" % (S, g)] = dy(F("F2C", x))
        for g in range(3):
            at["F1N_Hp_%d" % g] = dy(F("F1N", (o["mv_%d0" % g] / o["mHp"]) ** 2))
        x = (o["ml_10"] / o["mhSM"]) ** 2
        at["F1C_SM"] = dy(F("F1C", x))
        at["F2C_SM"] = dy(F("F2C", x))
    return at


def main():
    src, dst = sys.argv[1], sys.argv[2]
    with open(src) as fi, open(dst, "w") as fo:
        for ln in fi:
            ev = json.loads(ln)
            if ev.get("e") == "Eval":
                fn = ev["fn"]
                a = [to_mpf(d) for d in ev["a"]]
                at = {}
                if fn in ONEVAR:
                    at = atoms_onevar(fn, a[0])
                elif fn == "dilog" and a[0] is not None:
                    at = {"R": dy(li2(a[0]).real)}
                elif fn == "clausen_2" and a[0] is not None:
                    x = a[0]
                    at = {"R": dy(mpmath.clsin(2, x)),
                          "S": dy(max(abs(mpmath.clsin(2, x - mpf("0.01"))), abs(mpmath.clsin(2, x + mpf("0.01")))))}
                elif fn == "cdilog" and a[0] is not None and a[1] is not None:
                    r = li2(mpc(a[0], a[1]))
                    # on the cut (im = +-0, re > 1) the library follows the sign of the zero: im Li2 = +-pi log(re)
                    at = {"R": dy(r.real), "I": dy(r.imag)}
                else:
                    import atoms_c02
                    at = atoms_c02.atoms(fn, a, dy)
                ev["at"] = at
            elif ev.get("e") == "OneLoop" and ev.get("exc") == "" and "o" in ev and all(v["k"] == "fin" for v in ev["o"].values()):
                ev["at"] = oneloop_atoms(ev, dy)
            fo.write(json.dumps(ev) + "\n")


if __name__ == "__main__":
    main()
