---------------------------- MODULE SLHAContent ----------------------------
(***************************************************************************)
(* Constant-level part of the SLHA reader specification: the abstract line *)
(* alphabet, the reader plans, and the *denotation* of a file (what a file *)
(* means by content).  Used by SLHA.tla (operational reader refines it),   *)
(* SLHAGen.tla (case generation) and Trace_C13.tla (trace validation).     *)
(* See SLHA.tla for the description of the alphabet.                       *)
(***************************************************************************)
EXTENDS Integers, Sequences, FiniteSets, TLC

Names  == {"FREE", "HMIX", "DEP", "X"}
QToks  == {"NoQ", "Q1", "Q1n", "Q2", "Qbad"}
KeyTok == {"k1", "k2", "kx", "kbad"}
ValTok == {"va", "vb", "vbad"}

Hdr(n, q)  == [t |-> "hdr", name |-> n, q |-> q, key |-> "-", val |-> "-"]
Dat(k, v)  == [t |-> "dat", name |-> "-", q |-> "-", key |-> k, val |-> v]
Cmt        == [t |-> "cmt", name |-> "-", q |-> "-", key |-> "-", val |-> "-"]

\* the alphabet explored exhaustively (a subset of all combinations: what distinguishes behaviours)
Headers == {Hdr("FREE", q) : q \in {"NoQ", "Qbad"}} \cup {Hdr("HMIX", q) : q \in QToks}
           \cup {Hdr("DEP", q) : q \in QToks} \cup {Hdr("X", "NoQ")}
Datas   == {Dat("k1", "va"), Dat("k1", "vb"), Dat("k2", "va"), Dat("k1", "vbad"), Dat("kbad", "va"),
            Dat("kx", "vb")}
Alphabet == Headers \cup Datas \cup {Cmt}

IsHdr(ln) == ln.t = "hdr"
IsDat(ln) == ln.t = "dat"

\* numeric meaning of Q tokens: |Q1 - Q1n| < 0.01, everything else further apart
Near(q1, q2) == \/ q1 = q2
                \/ {q1, q2} = {"Q1", "Q1n"}

----------------------------------------------------------------------------
(* Reader plans: ordered passes.  kind "scale": determine the scale from   *)
(* the last block of that name; kind "read": apply tuples of every         *)
(* same-named block, filtered by scale iff dep.                            *)

Plan(fmt) ==
  IF fmt = "slha"
  THEN << [kind |-> "read",  name |-> "FREE", dep |-> FALSE],
          [kind |-> "scale", name |-> "HMIX", dep |-> FALSE],
          [kind |-> "read",  name |-> "HMIX", dep |-> TRUE],
          [kind |-> "read",  name |-> "DEP",  dep |-> TRUE] >>
  ELSE << [kind |-> "read",  name |-> "FREE", dep |-> FALSE] >>     \* GM2Calc / THDM formats: no scales

ReadNames(fmt) == {Plan(fmt)[i].name : i \in DOMAIN Plan(fmt)}

KnownKeys == {"k1", "k2"}
BlockKey  == {"FREE", "HMIX", "DEP"} \X KnownKeys
Unset     == "unset"
NoParams  == [bk \in BlockKey |-> Unset]

----------------------------------------------------------------------------
(* Denotation                                                              *)

HdrIdx(f)       == {i \in DOMAIN f : IsHdr(f[i])}
Owner(f, j)     == LET S == {i \in HdrIdx(f) : i < j} IN IF S = {} THEN 0 ELSE CHOOSE i \in S : \A k \in S : k <= i
NamedHdrs(f, n) == {i \in HdrIdx(f) : f[i].name = n}
LastOf(S)       == CHOOSE i \in S : \A k \in S : k <= i

\* scale determined by the "scale" pass: Q of the last HMIX header ("NoQ" if there is none)
ScaleTok(f) == IF NamedHdrs(f, "HMIX") = {} THEN "NoQ" ELSE f[LastOf(NamedHdrs(f, "HMIX"))].q

\* header i opens a block whose tuples the reader applies
Visited(fmt, f, i) ==
   /\ f[i].name \in ReadNames(fmt)
   /\ \/ fmt # "slha"
      \/ f[i].name = "FREE"
      \/ /\ ScaleTok(f) \notin {"NoQ", "Qbad"}
         /\ f[i].q \notin {"Qbad"}
         /\ (f[i].q # "NoQ" /\ Near(f[i].q, ScaleTok(f)))

DataOf(fmt, f) == {j \in DOMAIN f : IsDat(f[j]) /\ Owner(f, j) > 0 /\ Visited(fmt, f, Owner(f, j))}

Hits(fmt, f, bk) == {j \in DataOf(fmt, f) : f[Owner(f, j)].name = bk[1] /\ f[j].key = bk[2]}

Denote(fmt, f) == [bk \in BlockKey |-> IF Hits(fmt, f, bk) = {} THEN Unset
                                        ELSE f[LastOf(Hits(fmt, f, bk))].val]

\* --- errors: the class of the first failing pass, in plan order -----------
BadDat(ln) == IsDat(ln) /\ (ln.key = "kbad" \/ ln.val = "vbad")

\* a Q token is converted (a) in the scale pass for every HMIX header, (b) when a
\* scale-filtered block is tested against a non-zero scale
PassErr(fmt, f, p) ==
  IF p.kind = "scale"
  THEN IF \E i \in NamedHdrs(f, p.name) : f[i].q = "Qbad" THEN "ReadError"
       ELSE IF ScaleTok(f) = "NoQ" THEN "InvalidInput"
       ELSE "none"
  ELSE LET hs == NamedHdrs(f, p.name)
           badQ == p.dep /\ \E i \in hs : f[i].q = "Qbad"
           badT == \E j \in DOMAIN f : /\ BadDat(f[j]) /\ Owner(f, j) \in hs
                                       /\ Visited(fmt, f, Owner(f, j))
       IN IF badQ \/ badT THEN "ReadError" ELSE "none"

DenoteErrP(fmt, f, P) ==
  LET bad == {i \in DOMAIN P : PassErr(fmt, f, P[i]) # "none"}
  IN IF bad = {} THEN "none" ELSE PassErr(fmt, f, P[CHOOSE i \in bad : \A k \in bad : i <= k])
DenoteErr(fmt, f) == DenoteErrP(fmt, f, Plan(fmt))

\* In the SLHA format GM2CalcInput is the last block read (fill_alpha_from_gm2calcinput after the scale-dependent
\* blocks), SMINPUTS and MASS the first: the same abstract block FREE, read late.  The denotation is the same; only
\* which error is met first differs (a missing scale is reported before a bad token in GM2CalcInput is reached).
PlanLate(fmt) == IF fmt = "slha" THEN <<Plan(fmt)[2], Plan(fmt)[3], Plan(fmt)[4], Plan(fmt)[1]>> ELSE Plan(fmt)
DenoteErrLate(fmt, f) == DenoteErrP(fmt, f, PlanLate(fmt))

\* ---- rewrite classes of C13 (constant-level functions on files) -----------------------
InsertAt(f, i, ln) == SubSeq(f, 1, i) \o <<ln>> \o SubSeq(f, i + 1, Len(f))
Result(ft, f)      == [e |-> DenoteErr(ft, f), p |-> IF DenoteErr(ft, f) = "none" THEN Denote(ft, f) ELSE NoParams]

\* blocks as maximal segments starting at a header
BlockEnd(f, h) == LET S == {i \in HdrIdx(f) : i > h} IN IF S = {} THEN Len(f) ELSE (CHOOSE i \in S : \A k \in S : i <= k) - 1
SwapAdjacent(f, h1) ==          \* exchange the block starting at h1 with the following block
  LET e1 == BlockEnd(f, h1)  h2 == e1 + 1  e2 == BlockEnd(f, h2)
  IN SubSeq(f, 1, h1 - 1) \o SubSeq(f, h2, e2) \o SubSeq(f, h1, e1) \o SubSeq(f, e2 + 1, Len(f))

=============================================================================
