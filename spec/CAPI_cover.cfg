SPECIFICATION CSpec
CONSTANTS
  MaxCalls = 12
  Protection = "full"
  Emit = FALSE
INVARIANTS TypeOK NeverAborts EmitCover
VIEW CView
CHECK_DEADLOCK FALSE
