"""Conformance of GM2_slha_io's output document (read, fill_block_entry, write) with spec/SLHAWriter.tla.

TLC enumerates the bounded input documents and the operations (SLHAWriterGen.tla); this module renders each
abstract document as SLHA text, has the library read it, apply operations and print it after every step
(harness/drv/d_slha.cpp, format "writer"), abstracts the printed text back and writes the trace that
spec/Trace_Writer.tla validates.  No comparison is made here."""
import json
import os

import build
import core
import tlc

NAME = {"RES": "GM2CalcOutput", "res": "gm2calcoutput", "OTH": "LOWEN", "SPINFO": "SPINFO"}
NAME_BACK = {v: k for k, v in NAME.items()}
VAL = {"a": 1.5, "b": 2.5, "x": 7.5, "y": 8.5}
TEXT = {"x": "x-text"}


def render(doc):
    out = []
    for b in doc:
        out.append("Block %s" % NAME[b["name"]])
        for ln in b["lines"]:
            if ln["k"] == "#":
                out.append("# comment only")
            else:
                out.append("   %s   %.8E%s" % (ln["k"], VAL[ln["v"]], "   # " + ln["c"] if ln["c"] != "none" else ""))
    return "\n".join(out) + "\n"


def abstract(text):
    """printed document -> abstract document (anything unexpected is kept as its own string, so that
    the comparison in the trace specification fails visibly)"""
    doc = []
    for raw in text.splitlines():
        if not raw.strip():
            continue
        data, _, cmt = raw.partition("#")
        f = data.split()
        if f and f[0].upper() == "BLOCK" and len(f) > 1:
            doc.append({"name": NAME_BACK.get(f[1], "?" + f[1]), "lines": []})
            continue
        if not doc:
            doc.append({"name": "?preamble", "lines": []})
        if not f:
            doc[-1]["lines"].append({"k": "#", "v": "a", "c": "ca"} if cmt.strip() == "comment only"
                                    else {"k": "#", "v": "?", "c": cmt.strip()})
            continue
        v = "?" + " ".join(f[1:])
        if len(f) == 2:
            try:
                x = float(f[1])
                hit = [k for k, w in VAL.items() if w == x]
                v = hit[0] if hit else v
            except ValueError:
                hit = [k for k, w in TEXT.items() if w == f[1]]
                v = hit[0] if hit else v
        c = cmt.strip() if cmt.strip() else "none"
        doc[-1]["lines"].append({"k": f[0], "v": v, "c": c})
    return doc


def op_arg(op):
    if op["form"] == "value":
        return "value,%s,%d,%r,cx" % (NAME[op["name"]], op["entry"], VAL[op["v"]])
    return "text,%s,%d,%s" % (NAME[op["name"]], op["entry"], TEXT[op["v"]])


def run(cx, tier, rnd):
    """adds the Trace_Writer reports to cx; returns the number of Fill events"""
    gen, _ = tlc.generate_json("SLHAWriterGen.tla", "SLHAWriterGen.cfg", cx.path("wgen.json"), workers=1, heap="2g")
    docs, ops = gen["docs"], gen["ops"]
    wdir = cx.path("writer")
    os.makedirs(wdir)
    jobs, plan = [], []
    for di, d in enumerate(docs):
        if tier == "quick":
            chains = [rnd.sample(ops, 2)] if di % 4 == 0 else []
            if di % 16 == 1:
                chains += [[o] for o in ops]
        else:
            chains = [[o] for o in ops] + [[rnd.choice(ops) for _ in range(3)] for _ in range(2)]
        p = os.path.join(wdir, "d%04d.in" % di)
        open(p, "w").write(render(d))
        for ci, ch in enumerate(chains):
            jid = "d%04d_c%02d" % (di, ci)
            jobs.append("%s writer %s %s" % (jid, p, " ".join(op_arg(o) for o in ch)))
            plan.append((jid, d, ch))
    jf = cx.path("wjobs.txt")
    open(jf, "w").write("\n".join(jobs) + "\n")
    raw = cx.path("writer_raw.ndjson")
    core.run_driver(build.driver_build("d_slha"), [jf, raw], timeout=1800)
    obs = {}
    for ln in open(raw):
        ev = json.loads(ln)
        obs[(ev["id"], ev["step"])] = ev
    tr = cx.path("writer_trace.ndjson")
    nfill = 0
    with open(tr, "w") as fh:
        for jid, d, ch in plan:
            o0 = obs[(jid, 0)]
            fh.write(json.dumps({"e": "Load", "case": jid, "doc": d, "out": abstract(o0["text"]), "exc": o0["exc"],
                                 "sig": "writer/load/%d-blocks" % len(d)}) + "\n")
            for si, op in enumerate(ch, 1):
                o = obs[(jid, si)]
                fh.write(json.dumps({"e": "Fill", "case": jid, "op": op, "out": abstract(o["text"]), "exc": o["exc"],
                                     "sig": "writer/%s/%s/%d" % (op["form"], op["name"], op["entry"])}) + "\n")
                nfill += 1
                cx.evaluations += 1
                cx.distinct.add(("writer", json.dumps(d, sort_keys=True), json.dumps(ch, sort_keys=True)))
    shards = tlc.split_trace(tr, 16 if tier == "thorough" else 8, group_key="case")
    for rep in tlc.validate_traces("Trace_Writer.tla", shards, jobs=16, cfg="Trace_TR.cfg", heap="3g"):
        cx.add_report(rep)
        cx.cov["invariant_evaluations"] = cx.cov.get("invariant_evaluations", 0) + rep["extra"]["nchecked"]
    # binding self-test: a printed document with one line too few must be rejected by the trace specification
    bad, done = cx.path("writer_selftest.ndjson"), False
    with open(bad, "w") as fh:
        for i, ln in enumerate(open(tr)):
            ev = json.loads(ln)
            if not done and ev["e"] == "Fill" and any(b["lines"] for b in ev["out"]):
                b = [b for b in ev["out"] if b["lines"]][-1]
                b["lines"] = b["lines"][:-1]
                done = True
            fh.write(json.dumps(ev) + "\n")
            if i > 60:
                break
    rep = tlc.validate_trace("Trace_Writer.tla", bad, cfg="Trace_TR.cfg", heap="2g")
    if not any(v["inv"] in ("Writer:applyMatchesSpec", "Writer:echoOthers") for v in rep["viol"]):
        raise tlc.TlcError("writer self-test: a truncated printed document was accepted by Trace_Writer.tla")
    cx.note("writer binding self-test: truncated document rejected (%s)" % sorted({v["inv"] for v in rep["viol"]}))
    cx.cov["writer_documents"] = len(docs)
    cx.cov["writer_fill_events"] = nfill
    return nfill
