------------------------------- MODULE Yukawa -------------------------------
(***************************************************************************)
(* The THDM Yukawa parametrisations (C09): Table 1 of arXiv:1607.06292 as  *)
(* symbols, the couplings rho_f each type builds, and which of zeta_f,     *)
(* Delta_f, Pi_f each type reads / ignores (THDM.hpp, README).  Constant   *)
(* level; the ASSUMEs are checked by TLC whenever a module extending this  *)
(* one is loaded.                                                          *)
(***************************************************************************)
EXTENDS Integers, FiniteSets

Types == {"type1", "type2", "typeX", "typeY", "aligned", "general"}
Fermions == {"u", "d", "l"}
\* Table 1: zeta_f per type ("cot" = cot(beta), "mtan" = -tan(beta), "input", "none")
Zeta(t, f) ==
  CASE t = "aligned" -> "input" [] t = "general" -> "none"
    [] f = "u" -> "cot"
    [] f = "d" -> (IF t \in {"type1", "typeX"} THEN "cot" ELSE "mtan")
    [] f = "l" -> (IF t \in {"type1", "typeY"} THEN "cot" ELSE "mtan")
\* rho_f as a symbolic pair <<zeta used, extra term>>:  sqrt(2) M_f zeta_f / v + Delta_f,
\* or, in the general model, Pi_f / cos(beta) - sqrt(2) M_f tan(beta) / v
Rho(t, f) == IF t = "general" THEN <<"mtan_via_Pi", "Pi">> ELSE <<Zeta(t, f), "Delta">>
\* the aligned model with the table's zeta gives the same rho as the type
AlignedWith(t, f) == <<Zeta(t, f), "Delta">>
\* which inputs a type may read (documentation in THDM.hpp / README)
Reads(t) == CASE t = "aligned" -> {"zeta", "Delta"} [] t = "general" -> {"Pi"} [] OTHER -> {"Delta"}
Ignored(t) == {"zeta", "Delta", "Pi"} \ Reads(t)

ASSUME \A t \in Types \ {"aligned", "general"}, f \in Fermions : Rho(t, f) = AlignedWith(t, f)
ASSUME \A t \in Types : Reads(t) \cap Ignored(t) = {} /\ Reads(t) \cup Ignored(t) = {"zeta", "Delta", "Pi"}
ASSUME Ignored("type2") = {"zeta", "Pi"} /\ Ignored("aligned") = {"Pi"} /\ Ignored("general") = {"zeta", "Delta"}

TypeName(n) == CASE n = 1 -> "type1" [] n = 2 -> "type2" [] n = 3 -> "typeX" [] n = 4 -> "typeY" [] n = 5 -> "aligned" [] n = 6 -> "general"
=============================================================================
