"""Running TLC: model checking of the bounded configs, case generation, trace validation."""
import json
import os
import re
import shutil
import subprocess
import tempfile
import time
from concurrent.futures import ThreadPoolExecutor

VERIF = os.path.dirname(os.path.dirname(os.path.dirname(os.path.abspath(__file__))))
SPEC = os.path.join(VERIF, "spec")
JAR = "/opt/veriftools/tla/tla2tools.jar:/opt/veriftools/tla/CommunityModules-deps.jar"


class TlcError(Exception):
    pass


def _java(heap="2g", deque=False):
    cmd = ["java", "-XX:+UseParallelGC", "-Xmx" + heap, "-Xss64m"]
    if deque:
        cmd.append("-Dtlc2.tool.queue.IStateQueue=StateDeque")
    return cmd + ["-cp", JAR, "tlc2.TLC"]


def _work():
    d = os.environ.get("GM2_VERIF_WORK")
    if not d:
        d = os.path.join("/var/tmp/gm2verif", ".work")
    os.makedirs(d, exist_ok=True)
    return d


def run_tlc(spec, cfg, workers=4, env=None, timeout=900, heap="4g", extra=None, deque=False):
    """run TLC on spec (module name or path under spec/) with config; returns parsed result"""
    specp = spec if os.path.isabs(spec) else os.path.join(SPEC, spec)
    cfgp = cfg if os.path.isabs(cfg) else os.path.join(SPEC, cfg)
    meta = tempfile.mkdtemp(prefix="md_", dir=_work())
    e = dict(os.environ)
    e.pop("JAVA_TOOL_OPTIONS", None)
    if env:
        e.update(env)
    cmd = _java(heap, deque) + ["-workers", str(workers), "-metadir", meta, "-config", cfgp,
                                "-noGenerateSpecTE"] + (extra or []) + [specp]
    t0 = time.time()
    try:
        r = subprocess.run(cmd, stdout=subprocess.PIPE, stderr=subprocess.STDOUT, text=True,
                           env=e, timeout=timeout, cwd=SPEC)
        out = r.stdout
        rc = r.returncode
    except subprocess.TimeoutExpired as ex:
        out = (ex.stdout or b"").decode("utf-8", "replace") if isinstance(ex.stdout, bytes) else (ex.stdout or "")
        rc = -9
    finally:
        shutil.rmtree(meta, ignore_errors=True)
    res = {"rc": rc, "out": out, "wall_s": time.time() - t0, "cmd": " ".join(cmd[-8:])}
    m = re.search(r"(\d+) states generated, (\d+) distinct states found", out)
    if m:
        res["generated"] = int(m.group(1))
        res["distinct"] = int(m.group(2))
    m = re.search(r"depth of the complete state graph search is (\d+)", out)
    if m:
        res["depth"] = int(m.group(1))
    res["ok"] = "Model checking completed. No error has been found." in out or \
                ("Finished in" in out and "Error:" not in out and rc == 0)
    m = re.search(r"Invariant (\S+) is violated", out)
    res["violated"] = m.group(1) if m else None
    if not m:
        m = re.search(r"Action property (\S+) is violated|Temporal properties were violated", out)
        if m:
            res["violated"] = m.group(1) or "temporal"
    return res


def model_check(spec, cfg, expect_violation=None, **kw):
    """model-check a bounded config.  expect_violation: name of an invariant that MUST be
    violated (non-vacuity / code-as-is configs)."""
    r = run_tlc(spec, cfg, **kw)
    if expect_violation:
        if r.get("violated") != expect_violation:
            raise TlcError("%s/%s: expected violation of %s, got %s\n%s"
                           % (spec, cfg, expect_violation, r.get("violated"), r["out"][-3000:]))
    else:
        if not r["ok"] or r.get("violated"):
            raise TlcError("%s/%s: model checking failed (violated=%s rc=%s)\n%s"
                           % (spec, cfg, r.get("violated"), r["rc"], r["out"][-4000:]))
    return r


def coverage_zero_actions(out):
    """parse -coverage output: names of actions never taken"""
    zero = []
    for m in re.finditer(r"<(\w+) line \d+, col \d+ to line \d+, col \d+ of module (\w+)>: (\d+):(\d+)", out):
        if int(m.group(3)) == 0 and m.group(1) not in ("Init",):
            zero.append(m.group(1))
    return zero


def validate_trace(spec, trace, timeout=5400, heap="3g", cfg="Trace.cfg", env=None):
    """validate one ndjson trace with a trace spec; returns the report written by the spec"""
    out = trace + ".report.json"
    if os.path.exists(out):
        os.remove(out)
    e = {"TRACE": trace, "TRACE_OUT": out}
    if env:
        e.update(env)
    r = run_tlc(spec, cfg, workers=1, env=e, timeout=timeout, heap=heap)
    if not os.path.exists(out):
        # one retry (infrastructure hiccup), then fail loudly
        r = run_tlc(spec, cfg, workers=1, env=e, timeout=timeout, heap=heap)
        if not os.path.exists(out):
            raise TlcError("trace %s not accepted by %s (no report written)\n%s" % (trace, spec, r["out"][-4000:]))
    rep = json.load(open(out))
    rep["states"] = r.get("distinct", 0)
    rep["wall_s"] = r["wall_s"]
    rep["trace"] = trace
    return rep


def validate_traces(spec, traces, jobs=8, **kw):
    with ThreadPoolExecutor(max_workers=jobs) as ex:
        return list(ex.map(lambda t: validate_trace(spec, t, **kw), traces))


def split_trace(path, nshards, group_key=None):
    """split an ndjson trace into shards; lines with the same group_key value stay together
    and in order (group_key = name of a top-level string field, e.g. 'case')"""
    lines = open(path).read().splitlines()
    if nshards <= 1 or len(lines) < 2 * nshards:
        return [path]
    if group_key is None:
        groups = [[ln] for ln in lines]
    else:
        groups, last = [], object()
        pat = re.compile(r'"%s":\s*"([^"]*)"' % re.escape(group_key))
        for ln in lines:
            m = pat.search(ln)
            k = m.group(1) if m else None
            if k != last or k is None:
                groups.append([])
                last = k
            groups[-1].append(ln)
    per = (len(groups) + nshards - 1) // nshards
    outs = []
    for i in range(nshards):
        g = groups[i * per:(i + 1) * per]
        if not g:
            continue
        p = "%s.s%02d" % (path, i)
        with open(p, "w") as fh:
            for grp in g:
                for ln in grp:
                    fh.write(ln + "\n")
        outs.append(p)
    return outs


def generate_json(spec, cfg, outfile, env=None, **kw):
    """run a spec whose ASSUME/Init writes a JSON file of cases (JsonSerialize)"""
    e = {"GEN_OUT": outfile}
    if env:
        e.update(env)
    if os.path.exists(outfile):
        os.remove(outfile)
    r = run_tlc(spec, cfg, env=e, **kw)
    if not os.path.exists(outfile):
        raise TlcError("%s/%s wrote no case file\n%s" % (spec, cfg, r["out"][-3000:]))
    return json.load(open(outfile)), r


def run_apalache(spec, args, expect_error=False, timeout=900):
    """apalache-mc check on spec/<spec>; returns {ok, wall_s, out}.  ok means: outcome NoError (or, with expect_error,
    a counterexample was found)."""
    out_dir = tempfile.mkdtemp(prefix="apa_", dir=_work())
    t0 = time.time()
    try:
        r = subprocess.run(["apalache-mc", "check", "--out-dir=" + out_dir] + args + [spec], cwd=SPEC, capture_output=True, text=True, timeout=timeout)
        out = r.stdout + r.stderr
    except subprocess.TimeoutExpired as e:
        out = "timeout"
    finally:
        shutil.rmtree(out_dir, ignore_errors=True)
    no_error = "The outcome is: NoError" in out
    found = "The outcome is: Error" in out and "invariant" in out
    ok = found if expect_error else no_error
    if not ok:
        raise TlcError("apalache %s %s: unexpected outcome\n%s" % (spec, " ".join(args), out[-3000:]))
    return {"ok": True, "wall_s": round(time.time() - t0, 1), "args": args}
