SPECIFICATION Spec
CONSTANTS
  Threads = {1, 2, 3}
  Bug = "memo"
  MaxOps = 2
INVARIANTS NoConflict SharedUnchanged Pure Deterministic
CHECK_DEADLOCK FALSE
