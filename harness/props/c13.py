"""C13 - SLHA input is interpreted by content, not by layout."""
import json
import os
import random
import re
import subprocess

import build
import core
import slha_render as R
import tlc


def model_runs(cx, tier):
    # SLHA_thorough.cfg (files up to 5 lines: 35.6 million states, 45 min; run once, passed) only on request
    deep = os.environ.get("VERIF_DEEP") == "1"
    r = tlc.model_check("SLHA.tla", "SLHA_q3.cfg" if tier == "quick" else ("SLHA_thorough.cfg" if deep else "SLHA_quick.cfg"), workers=16,
                        heap="12g", timeout=6000)
    cx.add_model(r, "SLHA.tla reader refines content, MaxLen=%d" % (3 if tier == "quick" else (5 if deep else 4)))
    for bug in ("firstwins", "anyscale", "skipbad"):
        r = tlc.model_check("SLHA.tla", "SLHA_bug_%s.cfg" % bug, expect_violation="ReaderRefinesContent",
                            workers=8, heap="6g")
        cx.add_model(r, "non-vacuity: wrong reader variant '%s' must violate ReaderRefinesContent" % bug)
    r = tlc.model_check("SLHA.tla", "SLHA_live.cfg", workers=8, heap="6g")
    cx.add_model(r, "liveness: the fill terminates (FairSpec, MaxLen=3)")


def gen_cases(cx, tier, seed):
    out = cx.path("slhacases.json")
    env = {"GEN_EXH": "2", "GEN_NRAND": "500", "GEN_MINLEN": "3", "GEN_MAXLEN": "9"} if tier == "quick" else \
          {"GEN_EXH": "3", "GEN_NRAND": "6000", "GEN_MINLEN": "4", "GEN_MAXLEN": "12"}
    data, r = tlc.generate_json("SLHAGen.tla", "SLHAGen.cfg", out, env=env, workers=1, heap="6g",
                                extra=["-seed", str(seed)])
    return data["cases"]


def in_process(cx, tier, seed, cases):
    rnd = random.Random(seed)
    nlay = 2 if tier == "quick" else 4
    exe = build.driver_build("d_slha")
    fdir = cx.path("files")
    os.makedirs(fdir)
    jobs = []
    meta = []
    flat_fmts = ["gm2calc", "thdm"]
    for n, c in enumerate(cases):
        cfmt = "slha" if c["fmt"] == "slha" else flat_fmts[n % 2]
        tg = R.Target(rnd, cfmt, n)
        # in the SLHA format GM2CalcInput is read after the scale-dependent blocks (SLHAContent!PlanLate)
        late = cfmt == "slha" and tg.free == "GM2CALCINPUT"
        c = dict(c, err=c["errLate"] if late else c["err"], late=late)
        if c["err"] != "none":
            c["den"] = []
        cid = "c%05d" % n
        lay = []
        lsig = []
        for k in range(nlay):
            text, used = R.render(tg, c["file"], rnd)
            lsig.append("%s/%s/%s" % (cfmt, tg.free, ",".join(sorted(used)) or "clean"))
            p = os.path.join(fdir, "%s_L%d.in" % (cid, k))
            open(p, "w").write(text)
            jobs.append("%s#L%d %s %s" % (cid, k, cfmt, p))
            lay.append(p)
        canon = None
        if c["err"] == "none":
            cl = R.canonical_lines(c["fmt"], c["den"], R.scale_token(c["file"]))
            text, _ = R.render(tg, cl, rnd, canonical=True)
            canon = os.path.join(fdir, "%s_C.in" % cid)
            open(canon, "w").write(text)
            jobs.append("%s#C %s %s" % (cid, cfmt, canon))
        sig = "%s/%s" % (cfmt, tg.free)
        meta.append((cid, c, cfmt, sig, nlay, canon is not None, tg, lsig))
    jf = cx.path("jobs.txt")
    open(jf, "w").write("\n".join(jobs) + "\n")
    raw = cx.path("filled.ndjson")
    core.run_driver(exe, [jf, raw])
    filled = {}
    for ln in open(raw):
        ev = json.loads(ln)
        filled[ev["id"]] = ev
    tr = cx.path("trace_fill.ndjson")
    with open(tr, "w") as fh:
        for cid, c, cfmt, sig, nl, has_canon, tg, lsig in meta:
            fh.write(json.dumps({"e": "Case", "id": cid, "case": cid, "fmt": c["fmt"], "cfmt": cfmt, "file": c["file"],
                                 "den": c["den"], "err": c["err"], "late": c["late"], "sig": sig}) + "\n")
            if has_canon:
                f = filled[cid + "#C"]
                fh.write(json.dumps({"e": "Canon", "id": cid, "case": cid, "exc": f["exc"], "obs": f["obs"], "sig": sig}) + "\n")
            for k in range(nl):
                f = filled["%s#L%d" % (cid, k)]
                fh.write(json.dumps({"e": "Layout", "id": cid, "case": cid, "k": k, "exc": f["exc"], "obs": f["obs"],
                                     "sig": lsig[k]}) + "\n")
            cx.evaluations += nl
            if c["err"] != "none" or c["den"]:
                cx.distinct.add((cfmt, json.dumps(c["file"], sort_keys=True)))
    if meta:
        cid, c, cfmt, sig, nl, hc, tg, lsig = meta[len(meta) // 2]
        cx.sample({"abstract_file": c["file"], "denotation": c["den"], "err": c["err"], "target": tg.describe(),
                   "rendering": open(os.path.join(fdir, "%s_L0.in" % cid)).read()})
    return tr


BASE = {
    "slha": ("Block SMINPUTS\n", "Block MASS\n", "Block HMIX Q= 1.0e3\n", "Block MSOFT Q= 1.0e3\n", "Block GM2CalcInput\n"),
}


def key_tests(cx, tier, seed):
    """single documented key changed in an otherwise complete base assignment"""
    rnd = random.Random(seed + 17)
    exe = build.driver_build("d_slha")
    fdir = cx.path("keyfiles")
    os.makedirs(fdir)
    jobs, meta = [], []
    pretty = R.PRETTY

    def base_assign(cfmt):
        a = {}
        for blk, keys in R.DOC[cfmt].items():
            if cfmt != "slha" and blk in ("HMIX", "MSOFT"):
                continue
            for k in keys:
                if blk == "MASS" and k == 24:
                    continue            # MASS[24] overrides SMINPUTS[9] (documented); exercised by the layout cases
                kind = R.value_kind(cfmt, blk, k)
                _, m, e = R.dec_value(rnd, kind)
                a[(blk, k)] = (m, e)
        return a

    def text_of(cfmt, a):
        out = []
        for blk in sorted({b for b, _ in a}):
            q = " Q= 1.0e3" if cfmt == "slha" and blk in ("HMIX", "MSOFT") else ""
            out.append("Block %s%s" % (pretty.get(blk, blk), q))
            for (b, k), (m, e) in sorted(a.items()):
                if b == blk:
                    out.append("   %d   %s" % (k, R.spell(m, e, "plain")))
        return "\n".join(out) + "\n"

    reps = 1 if tier == "quick" else 5
    n = 0
    for cfmt in ("slha", "gm2calc", "thdm"):
        for rep in range(reps):
            a0 = base_assign(cfmt)
            p0 = os.path.join(fdir, "%s_%d_base.in" % (cfmt, rep))
            open(p0, "w").write(text_of(cfmt, a0))
            jobs.append("%s_%d#base %s %s" % (cfmt, rep, cfmt, p0))
            for (blk, k) in sorted(a0):
                kind = R.value_kind(cfmt, blk, k)
                m, e = a0[(blk, k)]
                while (m, e) == a0[(blk, k)]:
                    _, m, e = R.dec_value(rnd, kind)
                a1 = dict(a0)
                a1[(blk, k)] = (m, e)
                p1 = os.path.join(fdir, "%s_%d_%s_%d.in" % (cfmt, rep, blk, k))
                open(p1, "w").write(text_of(cfmt, a1))
                jid = "%s_%d#%s_%d" % (cfmt, rep, blk, k)
                jobs.append("%s %s %s" % (jid, cfmt, p1))
                meta.append((jid, "%s_%d#base" % (cfmt, rep), cfmt, blk, k, (m, e)))
                n += 1
    jf = cx.path("keyjobs.txt")
    open(jf, "w").write("\n".join(jobs) + "\n")
    raw = cx.path("keyfilled.ndjson")
    core.run_driver(exe, [jf, raw])
    filled = {}
    for ln in open(raw):
        ev = json.loads(ln)
        filled[ev["id"]] = ev
    tr = cx.path("trace_keys.ndjson")
    with open(tr, "w") as fh:
        for jid, bid, cfmt, blk, k, (m, e) in meta:
            f0, f1 = filled[bid], filled[jid]
            fh.write(json.dumps({"e": "Key", "case": jid, "fmt": cfmt, "block": blk, "key": k, "v1": dyadic_dec(m, e),
                                 "exc0": f0["exc"], "exc1": f1["exc"], "obs0": f0["obs"], "obs1": f1["obs"],
                                 "sig": "key/%s/%s[%d]" % (cfmt, blk, k)}) + "\n")
            cx.evaluations += 1
            cx.distinct.add(("key", cfmt, blk, k))
    return tr


def dyadic_dec(m, e):
    """exact dyadic record of the double nearest to the decimal m*10^e (what strtod returns):
    the *encoding* of a number the harness itself chose, not a verdict"""
    import struct
    x = float("%de%d" % (m, e))
    bits = struct.unpack("<Q", struct.pack("<d", x))[0]
    mant, ex = x.hex(), 0
    fr, ex = __import__("math").frexp(x)
    M = int(fr * (1 << 53))
    e2 = ex - 53
    q, r = divmod(e2, 15)
    M <<= r
    while M and M % 32768 == 0:
        M //= 32768
        q += 1
    limbs = []
    while M:
        limbs.append(M % 32768)
        M //= 32768
    return {"k": "fin", "s": 1 if x > 0 else (-1 if x < 0 else 0), "q": q if x else 0, "m": limbs,
            "b": [bits & 0xffff, (bits >> 16) & 0xffff, (bits >> 32) & 0xffff, (bits >> 48) & 0xffff]}


NUM = re.compile(r"^[-+]?(\d+\.?\d*|\.\d+)([eE][-+]?\d+)?$|^-?nan$|^-?inf$")


def result_numbers(stdout, fmt):
    """the physics output of a run: for SLHA formats the entries of the result blocks, otherwise all numbers"""
    if fmt in (2, 3, 4):
        # the entries this program writes: the a_mu slot of the format, GM2CalcOutput[0, 1] and its SPINFO[3, 4]; every other
        # line of these blocks is the echo of the input's own entries (a spectrum generator's LOWEN / SPhenoLowEnergy block),
        # whose spelling and repetition are layout.  An entry is looked up like the writer does: its first occurrence.
        slots = {2: [("LOWEN", "6")], 3: [("SPHENOLOWENERGY", "21")], 4: []}[fmt] + [("GM2CALCOUTPUT", "0"), ("GM2CALCOUTPUT", "1")]
        nums, cur, seen = [], None, set()
        for ln in stdout.splitlines():
            f = ln.split("#", 1)[0].split()
            if f and f[0].upper() == "BLOCK" and len(f) > 1:
                cur = f[1].upper()
            elif cur is not None and len(f) >= 2:
                if cur == "SPINFO" and f[0] in ("3", "4"):
                    nums.append("%s[%s]=%s" % (cur, f[0], " ".join(f[1:])))
                elif (cur, f[0]) in slots and (cur, f[0]) not in seen:
                    seen.add((cur, f[0]))
                    nums.append("%s[%s]=%s" % (cur, f[0], f[1].upper()))
        return sorted(nums)
    return [t for t in re.split(r"[\s()%]+", stdout) if NUM.match(t)]


def cli_runs(cx, tier, seed):
    rnd = random.Random(seed + 99)
    exe = build.gm2calc_x("plain")
    repo = build.REPO
    bases = [("slha", os.path.join(repo, "input", "example.slha")), ("gm2calc", os.path.join(repo, "input", "example.gm2")),
             ("thdm", os.path.join(repo, "input", "example.thdm"))]
    tp = os.path.join(repo, "test", "test_points")
    if os.path.isdir(tp) and tier == "thorough":
        for f in sorted(os.listdir(tp)):
            if f.endswith(".in"):
                kind = "thdm" if f.startswith("thdm") else ("gm2calc" if "gm2" in f else "slha")
                bases.append((kind, os.path.join(tp, f)))
    nlay = 4 if tier == "quick" else 8
    fdir = cx.path("clifiles")
    os.makedirs(fdir)
    tr = cx.path("trace_cli.ndjson")
    with open(tr, "w") as fh:
        for bi, (kind, path) in enumerate(bases):
            text = open(path, errors="replace").read()
            for ofmt in ((0, 4) if tier == "quick" else (0, 1, 2, 3, 4)):
                cfg = "Block GM2CalcConfig\n  0  %d\n  5  1\n" % ofmt
                for k in range(nlay + 1):
                    t = text if k == 0 else R.rewrite_text(text, rnd)
                    t = t + cfg            # a later GM2CalcConfig block overrides the file's own
                    p = os.path.join(fdir, "b%d_f%d_k%d.in" % (bi, ofmt, k))
                    open(p, "w").write(t)
                    try:
                        r = subprocess.run([exe, "--%s-input-file=%s" % (kind, p)], stdout=subprocess.PIPE,
                                           stderr=subprocess.PIPE, timeout=120)
                        rc, out = r.returncode, r.stdout.decode("utf-8", "replace")
                    except subprocess.TimeoutExpired:
                        rc, out = -999, ""
                    fh.write(json.dumps({"e": "Run", "case": "b%d_f%d" % (bi, ofmt), "k": k, "exit": rc if rc >= 0 else 0,
                                         "signal": -rc if rc < 0 else 0, "nums": result_numbers(out, ofmt),
                                         "sig": "cli/%s/fmt%d/%s" % (kind, ofmt, os.path.basename(path))}) + "\n")
                    cx.evaluations += 1
                cx.distinct.add(("cli", path, ofmt))
    return tr


CFG_NAMES = ["output_format", "loop_order", "tanb_resummation", "force_output", "verbose_output", "calculate_uncertainty",
             "running_couplings"]
CFG_DEFAULT = {"output_format": None, "loop_order": 2, "tanb_resummation": 1, "force_output": 0, "verbose_output": 0,
               "calculate_uncertainty": 0, "running_couplings": 1}


def config_tests(cx, tier, seed):
    """every GM2CalcConfig entry with every value at and around its documented range, in several spellings"""
    rnd = random.Random(seed + 29)
    exe = build.driver_build("d_slha")
    fdir = cx.path("cfgfiles")
    os.makedirs(fdir)
    jobs, meta = [], []
    for k in range(7):
        hi = {0: 4, 1: 2}.get(k, 1)
        vals = [(2 * v, "num", [str(v), "%d.0" % v, "%de0" % v, "+%d" % v] if v >= 0 else [str(v), "%d.0" % v]) for v in range(-2, hi + 4)]
        vals += [(2 * v + 1, "num", ["%d.5" % v]) for v in range(0, hi + 2)]
        vals += [(18, "num", ["9"]), (2000, "num", ["1e3", "1000"]), (0, "nan", ["abc", "nan", "inf", "1e400", "1x", "0x"])]
        for n2, tok, spell in vals:
            for sp in (spell if tier == "thorough" else [spell[0], rnd.choice(spell)]):
                jid = "cfg%d_%d" % (k, len(jobs))
                p = os.path.join(fdir, jid + ".in")
                open(p, "w").write("Block %s\n   %d   %s\n" % (rnd.choice(["GM2CalcConfig", "gm2calcconfig", "GM2CALCCONFIG"]), k, sp))
                jobs.append("%s config %s" % (jid, p))
                meta.append((jid, k, tok, n2, sp))
    jf = cx.path("cfgjobs.txt")
    open(jf, "w").write("\n".join(jobs) + "\n")
    raw = cx.path("cfgfilled.ndjson")
    core.run_driver(exe, [jf, raw])
    got = {}
    for ln in open(raw):
        ev = json.loads(ln)
        got[ev["id"]] = ev
    tr = cx.path("trace_cfg.ndjson")
    with open(tr, "w") as fh:
        for jid, k, tok, n2, sp in meta:
            ev = got[jid]
            obs = {n: core.dy(v) for n, v in ev["obs"].items()}
            name = CFG_NAMES[k]
            others = all(CFG_DEFAULT[n] is None or obs[n] == CFG_DEFAULT[n] for n in CFG_NAMES if n != name)
            st = obs[name]
            fh.write(json.dumps({"e": "Config", "k": k, "tok": tok, "n2": n2, "exc": ev["exc"],
                                 "stored": int(st) if st == int(st) and abs(st) < 1e6 else -999, "others": others,
                                 "sig": "config/%d/%s" % (k, sp)}) + "\n")
            cx.evaluations += 1
            cx.distinct.add(("config", k, sp))
    return tr


def run(tier, seed):
    cx = core.Ctx("C13", tier, seed, "model_checking")
    model_runs(cx, tier)
    cases = gen_cases(cx, tier, seed)
    t1 = in_process(cx, tier, seed, cases)
    t2 = key_tests(cx, tier, seed)
    t3 = cli_runs(cx, tier, seed)
    t4 = config_tests(cx, tier, seed)
    shards = tlc.split_trace(t1, 14, group_key="case") + [t2, t3, t4]
    for rep in tlc.validate_traces("Trace_C13.tla", shards, jobs=16, heap="3g"):
        cx.add_report(rep)
        cx.cov["invariant_evaluations"] = cx.cov.get("invariant_evaluations", 0) + rep["extra"]["nchecked"]
    cx.cov["abstract_files"] = len(cases)
    cx.assumptions += ["abstract alphabet of SLHAContent.tla (4 block classes, 5 Q tokens, 4 key and 3 value tokens)",
                       "concretisation map of harness/lib/slha_render.py (documented keys cycled over the cases)",
                       "matrix blocks (AU/AD/AE, NMIX, SMUMIX, THDM Delta/Pi) are only covered by the whole-program runs"]
    return cx.finish(rule="abstract files enumerated by TLC (SLHAGen.tla: exhaustive up to a bound + structured random), "
                          "each rendered in several layouts and in the normal form of its denotation and read through "
                          "GM2_slha_io; plus every documented key of the three formats changed alone; plus whole-program "
                          "runs of rewritten complete inputs.  distinct_nontrivial = distinct (format, abstract file) "
                          "with non-empty denotation or an error, + distinct keys, + distinct (input, output format)")
