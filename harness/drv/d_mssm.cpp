// MSSM driver: concretises abstract cases (one per line of the case file, produced from
// TLC-enumerated case sets) into real MSSMNoFV_onshell objects of the working tree's
// library and records what the public API returns.  No comparison is made here.
//
// usage: d_mssm <mode> <casefile> <tracefile>        (seed from VERIF_SEED)
#include "models.hpp"
#include "gm2_verif.hpp"

#include <fstream>
#include <iostream>
#include <sstream>

using namespace gm2calc;
using vm::MssmPt;
using vm::NV;

namespace {

std::vector<std::vector<std::string>> read_cases(const char* path)
{
   std::vector<std::vector<std::string>> cases;
   std::ifstream in(path);
   std::string line;
   while (std::getline(in, line)) {
      std::istringstream is(line);
      std::vector<std::string> f;
      std::string t;
      while (is >> t) f.push_back(t);
      if (!f.empty()) cases.push_back(f);
   }
   return cases;
}

struct Built {
   MSSMNoFV_onshell model;
   std::string exc;     // exception class of calculate_masses, "" if none
};

Built build(const MssmPt& p, bool force = false)
{
   Built b;
   b.model.do_force_output(force);
   b.exc = vm::exc_class([&] { vm::apply(b.model, p); b.model.calculate_masses(); });
   return b;
}

// ---- C18 -------------------------------------------------------------------------------
// case line: <id> <class>      class in generic | cancel | heavy | light
void run_c18(const std::vector<std::vector<std::string>>& cases, vt::Rng& rng)
{
   for (const auto& c : cases) {
      const std::string& id = c.at(0);
      const std::string& cls = c.at(1);
      MssmPt p;
      if (cls == "heavy") p = vm::random_mssm(rng, 3000, 30000);
      else if (cls == "light") p = vm::random_mssm(rng, 100, 400, 2, 60);
      else p = vm::random_mssm(rng);
      if (cls == "cancel") {
         // 1L and 2L have opposite sign generically (2L photonic ~ -7% of 1L); enhance by large logs
         p.M3 = rng.sign() * rng.logu(5000, 20000);
      }
      Built b = build(p);
      vt::Ev ev("Unc");
      ev.str("model", "mssm").str("case", id).str("sig", "mssm/" + cls).str("exc", b.exc);
      if (b.exc.empty()) {
         const double a1 = calculate_amu_1loop(b.model);
         const double a2 = calculate_amu_2loop(b.model);
         ev.num("a1L", a1).num("a2L", a2)
           .num("u0", calculate_uncertainty_amu_0loop(b.model))
           .num("u1", calculate_uncertainty_amu_1loop(b.model))
           .num("u2", calculate_uncertainty_amu_2loop(b.model))
           .num("u0h", calculate_uncertainty_amu_0loop(b.model, a1))
           .num("u1h", calculate_uncertainty_amu_1loop(b.model, a2))
           .num("a2LaCha", amu2LaCha(b.model)).num("a2LaSferm", amu2LaSferm(b.model));
      }
      ev.raw("pt", vm::named_json(vm::pt_fields(p)));
      ev.emit();
   }
}

// ---- C06 -------------------------------------------------------------------------------
// case line: <id> <13 signs as +/- string: mu M1 M2 M3 Au0 Au1 Au2 Ad0 Ad1 Ad2 Ae0 Ae1 Ae2>
void run_c06(const std::vector<std::vector<std::string>>& cases, vt::Rng& rng)
{
   for (const auto& c : cases) {
      const std::string& id = c.at(0);
      const std::string& sg = c.at(1);
      auto s = [&](int i) { return sg.at(i) == '-' ? -1.0 : 1.0; };
      MssmPt p = rng.coin() ? vm::random_mssm(rng) : vm::wide_mssm(rng);
      p.Mu = s(0) * std::fabs(p.Mu); p.M1 = s(1) * std::fabs(p.M1); p.M2 = s(2) * std::fabs(p.M2);
      p.M3 = s(3) * std::fabs(p.M3);
      for (int i = 0; i < 3; ++i) {
         p.Au[i] = s(4 + i) * std::fabs(p.Au[i]);
         p.Ad[i] = s(7 + i) * std::fabs(p.Ad[i]);
         p.Ae[i] = s(10 + i) * std::fabs(p.Ae[i]);
      }
      MssmPt q = p;
      q.Mu = -p.Mu; q.M1 = -p.M1; q.M2 = -p.M2; q.M3 = -p.M3;
      for (int i = 0; i < 3; ++i) { q.Au[i] = -p.Au[i]; q.Ad[i] = -p.Ad[i]; q.Ae[i] = -p.Ae[i]; }
      const MssmPt* pts[2] = {&p, &q};
      const char* role[2] = {"orig", "flip"};
      for (int k = 0; k < 2; ++k) {
         Built b = build(*pts[k]);
         vt::Ev ev("Eval");
         ev.str("role", role[k]).str("case", id).str("sig", sg).str("exc", b.exc);
         if (b.exc.empty()) {
            ev.raw("res", vm::named_json(vm::mssm_results(b.model)));
            ev.raw("mass", vm::named_json(vm::mssm_masses(b.model)));
         }
         ev.raw("pt", vm::named_json(vm::pt_fields(*pts[k])));
         ev.emit();
      }
   }
}

// ---- C07 -------------------------------------------------------------------------------
// case line: <id> <class>      class in generic | hightb | compressed
void run_c07(const std::vector<std::vector<std::string>>& cases, vt::Rng& rng)
{
   for (const auto& c : cases) {
      const std::string& id = c.at(0);
      const std::string& cls = c.at(1);
      MssmPt p0 = cls == "hightb" ? vm::random_mssm(rng, 320, 1500, 30, 80)
                : cls == "compressed" ? vm::random_mssm(rng, 320, 420)
                : vm::random_mssm(rng, 320, 2000);
      if (cls == "stopmix") {
         p0 = vm::random_mssm(rng, 320, 1200, 10, 50);
         p0.Mu = rng.sign() * rng.uni(2000, 4000);
         p0.mq2[2] = std::pow(rng.uni(600, 1000), 2); p0.mu2[2] = std::pow(rng.uni(600, 1000), 2);
         p0.Au[2] = (p0.Mu > 0 ? 1 : -1) * rng.uni(1500, 3000);
         p0.MA0 = rng.uni(1000, 2000);
      }
      if (cls == "degenerate") {
         const double m = rng.logu(320, 900);
         int n = 0;
         while (n < 2) {
            n = 0;
            MssmPt q = p0;
            if (rng.coin()) { q.Mu = (q.Mu < 0 ? -m : m); ++n; }
            if (rng.coin()) { q.M1 = (q.M1 < 0 ? -m : m); ++n; }
            if (rng.coin()) { q.M2 = (q.M2 < 0 ? -m : m); ++n; }
            if (rng.coin()) { q.ml2[1] = m * m; ++n; }
            if (rng.coin()) { q.me2[1] = m * m; ++n; }
            if (n >= 2) p0 = q;
         }
      }
      for (int k = 1; k <= 64; k *= 2) {
         MssmPt p = p0;
         p.Mu *= k; p.M1 *= k; p.M2 *= k; p.M3 *= k; p.MA0 *= k; p.Q *= k;
         for (int i = 0; i < 3; ++i) {
            p.ml2[i] *= double(k) * k; p.me2[i] *= double(k) * k; p.mq2[i] *= double(k) * k;
            p.mu2[i] *= double(k) * k; p.md2[i] *= double(k) * k;
            p.Au[i] *= k; p.Ad[i] *= k; p.Ae[i] *= k;
         }
         Built b = build(p);
         vt::Ev ev("Scaled");
         ev.str("case", id).str("sig", cls).i("k", k).str("exc", b.exc);
         if (b.exc.empty()) {
            // lightest SUSY mass of the point
            double mmin = 1e300;
            for (const auto& nv : vm::mssm_masses(b.model)) {
               const std::string& n = nv.first;
               if (n.rfind("MS", 0) == 0 || n.rfind("MChi", 0) == 0 || n.rfind("MCha", 0) == 0)
                  mmin = std::min(mmin, std::fabs(nv.second));
            }
            ev.num("a1L", calculate_amu_1loop(b.model)).num("a2L", calculate_amu_2loop(b.model))
              .num("tbcor", tan_beta_cor(b.model)).num("unc2L", calculate_uncertainty_amu_2loop(b.model))
              .num("mmin", mmin).num("MZ", p.MZ);
            // magnitudes of the individual terms (scale against which O(MZ^2/M^2) corrections are measured)
            const double s1 = std::fabs(amu1LWHnu(b.model)) + std::fabs(amu1LWHmuL(b.model))
               + std::fabs(amu1LBHmuL(b.model)) + std::fabs(amu1LBHmuR(b.model)) + std::fabs(amu1LBmuLmuR(b.model));
            const double s1b = std::fabs(amu1LChi0(b.model)) + std::fabs(amu1LChipm(b.model));
            const double s2 = std::fabs(amu2LWHnu(b.model)) + std::fabs(amu2LWHmuL(b.model))
               + std::fabs(amu2LBHmuL(b.model)) + std::fabs(amu2LBHmuR(b.model)) + std::fabs(amu2LBmuLmuR(b.model))
               + std::fabs(amu2LChi0Photonic(b.model)) + std::fabs(amu2LChipmPhotonic(b.model))
               + std::fabs(amu2LaSferm(b.model)) + std::fabs(amu2LaCha(b.model));
            ev.num("S1", std::max(s1, s1b)).num("S2", s2);
         }
         ev.emit();
      }
   }
}


// ---- C04 -------------------------------------------------------------------------------
// case line: <id> <tbclass> <softsign> <gauginosign> <structure> <swap>
//   tbclass    half | one | mid | large(200)
//   softsign   pos | negL | negR | negsnu     (sign class of the soft masses squared)
//   gauginosign  ppp | pmm | mpm | mmp ...      signs of (mu, M1, M2); Bmu sign: last char of structure
//   structure  generic | degenerate | bigA | negBmu
//   swap       none | 01 | 02 | 12             generation exchange (emits a second event)
struct LagPt {
   double g1, g2, g3, vd, vu, Mu, BMu, M1, M2, M3;
   double mq2[3], mu2[3], md2[3], ml2[3], me2[3], Yu[3], Yd[3], Ye[3], TYu[3], TYd[3], TYe[3];
};

void apply_lag(MSSMNoFV_onshell_mass_eigenstates& m, const LagPt& p)
{
   m.set_g1(p.g1); m.set_g2(p.g2); m.set_g3(p.g3); m.set_vd(p.vd); m.set_vu(p.vu); m.set_Mu(p.Mu); m.set_BMu(p.BMu);
   m.set_MassB(p.M1); m.set_MassWB(p.M2); m.set_MassG(p.M3);
   for (int i = 0; i < 3; ++i) {
      m.set_mq2(i, i, p.mq2[i]); m.set_mu2(i, i, p.mu2[i]); m.set_md2(i, i, p.md2[i]); m.set_ml2(i, i, p.ml2[i]); m.set_me2(i, i, p.me2[i]);
      m.set_Yu(i, i, p.Yu[i]); m.set_Yd(i, i, p.Yd[i]); m.set_Ye(i, i, p.Ye[i]);
      m.set_TYu(i, i, p.TYu[i]); m.set_TYd(i, i, p.TYd[i]); m.set_TYe(i, i, p.TYe[i]);
   }
}

NV lag_fields(const LagPt& p)
{
   NV v{{"g1", p.g1}, {"g2", p.g2}, {"vd", p.vd}, {"vu", p.vu}, {"Mu", p.Mu}, {"BMu", p.BMu}, {"M1", p.M1}, {"M2", p.M2}, {"M3", p.M3}};
   for (int i = 0; i < 3; ++i) {
      const std::string s = std::to_string(i);
      v.push_back({"mq2_" + s, p.mq2[i]}); v.push_back({"mu2_" + s, p.mu2[i]}); v.push_back({"md2_" + s, p.md2[i]});
      v.push_back({"ml2_" + s, p.ml2[i]}); v.push_back({"me2_" + s, p.me2[i]});
      v.push_back({"Yu_" + s, p.Yu[i]}); v.push_back({"Yd_" + s, p.Yd[i]}); v.push_back({"Ye_" + s, p.Ye[i]});
      v.push_back({"TYu_" + s, p.TYu[i]}); v.push_back({"TYd_" + s, p.TYd[i]}); v.push_back({"TYe_" + s, p.TYe[i]});
   }
   return v;
}

void emit_spectrum(const std::string& id, const std::string& sig, const std::string& role, const LagPt& p)
{
   MSSMNoFV_onshell_mass_eigenstates m;
   apply_lag(m, p);
   m.do_force_output(true);
   const std::string exc = vm::exc_class([&] { m.calculate_DRbar_masses(); });
   vt::Ev ev("Spectrum");
   ev.str("case", id).str("sig", sig).str("role", role).str("exc", exc).raw("par", vm::named_json(lag_fields(p)));
   NV ms;
   ms.push_back({"MSveL", m.get_MSveL()}); ms.push_back({"MSvmL", m.get_MSvmL()}); ms.push_back({"MSvtL", m.get_MSvtL()});
   vm::push_mat(ms, "MSd", m.get_MSd()); vm::push_mat(ms, "MSs", m.get_MSs()); vm::push_mat(ms, "MSb", m.get_MSb());
   vm::push_mat(ms, "MSu", m.get_MSu()); vm::push_mat(ms, "MSc", m.get_MSc()); vm::push_mat(ms, "MSt", m.get_MSt());
   vm::push_mat(ms, "MSe", m.get_MSe()); vm::push_mat(ms, "MSm", m.get_MSm()); vm::push_mat(ms, "MStau", m.get_MStau());
   vm::push_mat(ms, "Mhh", m.get_Mhh()); vm::push_mat(ms, "MAh", m.get_MAh()); vm::push_mat(ms, "MHpm", m.get_MHpm());
   vm::push_mat(ms, "MChi", m.get_MChi()); vm::push_mat(ms, "MCha", m.get_MCha());
   ms.push_back({"MVWm", m.get_MVWm()}); ms.push_back({"MVZ", m.get_MVZ()}); ms.push_back({"MGlu", m.get_MGlu()});
   ev.raw("mass", vm::named_json(ms));
   NV mx;
   vm::push_mat(mx, "ZD", m.get_ZD()); vm::push_mat(mx, "ZS", m.get_ZS()); vm::push_mat(mx, "ZB", m.get_ZB());
   vm::push_mat(mx, "ZU", m.get_ZU()); vm::push_mat(mx, "ZC", m.get_ZC()); vm::push_mat(mx, "ZT", m.get_ZT());
   vm::push_mat(mx, "ZE", m.get_ZE()); vm::push_mat(mx, "ZM", m.get_ZM()); vm::push_mat(mx, "ZTau", m.get_ZTau());
   vm::push_mat(mx, "ZH", m.get_ZH()); vm::push_mat(mx, "ZA", m.get_ZA()); vm::push_mat(mx, "ZP", m.get_ZP());
   vm::push_cmat(mx, "ZN", m.get_ZN()); vm::push_cmat(mx, "UM", m.get_UM()); vm::push_cmat(mx, "UP", m.get_UP());
   ev.raw("mix", vm::named_json(mx));
   // tachyon names as reported
   std::vector<std::string> tach;
   std::string txt = m.get_problems().get_problems();
   const std::string pre = "Problem: ";
   if (txt.compare(0, pre.size(), pre) == 0) txt = txt.substr(pre.size());
   std::size_t pos = 0;
   while (pos < txt.size()) {
      std::size_t e = txt.find(", ", pos);
      std::string item = txt.substr(pos, e == std::string::npos ? std::string::npos : e - pos);
      const std::string suf = " tachyon";
      if (item.size() > suf.size() && item.compare(item.size() - suf.size(), suf.size(), suf) == 0) item = item.substr(0, item.size() - suf.size());
      if (!item.empty()) tach.push_back(item);
      if (e == std::string::npos) break;
      pos = e + 2;
   }
   ev.strs("tach", tach);
   ev.emit();
}

void run_c04(const std::vector<std::vector<std::string>>& cases, vt::Rng& rng)
{
   for (const auto& c : cases) {
      const std::string& id = c.at(0);
      const std::string &tbc = c.at(1), &soft = c.at(2), &gs = c.at(3), &st = c.at(4), &swap = c.at(5);
      LagPt p;
      p.g1 = rng.uni(0.44, 0.48); p.g2 = rng.uni(0.62, 0.66); p.g3 = rng.uni(1.0, 1.3);
      const double tb = tbc == "half" ? 0.5 : tbc == "one" ? 1.0 : tbc == "large" ? 200.0 : rng.logu(1.5, 60);
      const double v = rng.uni(240, 250);
      p.vd = v / std::sqrt(1 + tb * tb); p.vu = p.vd * tb;
      auto sg = [&](int i) { return gs.at(i) == 'm' ? -1.0 : 1.0; };
      p.Mu = sg(0) * rng.logu(100, 3000); p.M1 = sg(1) * rng.logu(50, 3000); p.M2 = sg(2) * rng.logu(100, 3000); p.M3 = rng.sign() * rng.logu(500, 5000);
      const double mA = rng.below(3) == 0 ? rng.logu(10, 90) : rng.logu(200, 3000);      // one third below MZ, MW (Goldstone reordering)
      p.BMu = mA * mA * tb / (1 + tb * tb) * (st == "negBmu" ? -1.0 : 1.0);
      const double mf_u[3] = {0.0022, 1.28, 165}, mf_d[3] = {0.0047, 0.096, 2.9}, mf_e[3] = {0.000511, 0.10566, 1.777};
      for (int i = 0; i < 3; ++i) {
         const double common = rng.logu(200, 3000);
         auto soft2 = [&](bool neg) { const double m = st == "degenerate" ? common : rng.logu(200, 3000); return (neg ? -1.0 : 1.0) * m * m; };
         p.mq2[i] = soft2(soft == "negL"); p.ml2[i] = soft2(soft == "negL" || soft == "negsnu");
         p.mu2[i] = soft2(soft == "negR"); p.md2[i] = soft2(soft == "negR"); p.me2[i] = soft2(soft == "negR");
         p.Yu[i] = std::sqrt(2.0) * mf_u[i] / p.vu; p.Yd[i] = std::sqrt(2.0) * mf_d[i] / p.vd; p.Ye[i] = std::sqrt(2.0) * mf_e[i] / p.vd;
         const double a = st == "bigA" ? rng.sign() * rng.logu(3000, 3e5) : (st == "degenerate" ? 0.0 : rng.uni(-1500, 1500));
         p.TYu[i] = p.Yu[i] * a; p.TYd[i] = p.Yd[i] * a * (st == "bigA" ? 40 : 1); p.TYe[i] = p.Ye[i] * a * (st == "bigA" ? 40 : 1);
      }
      if (st == "degenerate") p.Mu = 0.0;      // exactly vanishing sfermion mixing for the up sector at vd*mu = 0
      const std::string sig = tbc + "/" + soft + "/" + gs + "/" + st;
      emit_spectrum(id, sig, "orig", p);
      if (swap != "none") {
         const int a = swap[0] - '0', b = swap[1] - '0';
         LagPt q = p;
         std::swap(q.mq2[a], q.mq2[b]); std::swap(q.mu2[a], q.mu2[b]); std::swap(q.md2[a], q.md2[b]); std::swap(q.ml2[a], q.ml2[b]);
         std::swap(q.me2[a], q.me2[b]); std::swap(q.Yu[a], q.Yu[b]); std::swap(q.Yd[a], q.Yd[b]); std::swap(q.Ye[a], q.Ye[b]);
         std::swap(q.TYu[a], q.TYu[b]); std::swap(q.TYd[a], q.TYd[b]); std::swap(q.TYe[a], q.TYe[b]);
         emit_spectrum(id, sig + "/swap" + swap, "swap" + swap, q);
      }
   }
}


#ifdef GM2CALC_VERIF
// sink for the guarded hooks of the conversion (src/gm2_verif.hpp): one trace event per hook
std::string g_hook_case;
void hook_sink(const char* name, const double* v, int n)
{
   vt::Ev ev("Hook");
   ev.str("case", g_hook_case).str("name", name).nums("v", v, v + n);
   ev.emit();
}
#endif

// ---- C05 -------------------------------------------------------------------------------
// case line: <id> <ordering> <admix> <signs> <tbclass> <prec> <maxit>
//   ordering  LR (ml2 < me2) | RL | close (within 3 %)       order of the smuon soft masses
//   admix     small | large                                  size of the smuon mixing (via Ae(2,2) - mu tb)
//   signs     signs of (mu, M1, M2), e.g. pmp
//   prec      exponent e: precision goal 10^-e ;  maxit: max_iterations
void run_c05(const std::vector<std::vector<std::string>>& cases, vt::Rng& rng)
{
   for (const auto& c : cases) {
      const std::string& id = c.at(0);
      const std::string &ord = c.at(1), &admix = c.at(2), &sg = c.at(3), &tbc = c.at(4);
      const double prec = std::pow(10.0, -std::stod(c.at(5)));
      const unsigned maxit = std::stoul(c.at(6));
      auto sgn = [&](int i) { return sg.at(i) == 'm' ? -1.0 : 1.0; };
      MssmPt p = vm::random_mssm(rng, 100, 3000, 2, 60);
      p.TB = tbc == "low" ? rng.uni(2, 5) : tbc == "high" ? rng.uni(40, 60) : rng.uni(5, 40);
      p.Mu = sgn(0) * std::fabs(p.Mu); p.M1 = sgn(1) * std::fabs(p.M1); p.M2 = sgn(2) * std::fabs(p.M2);
      const double a = rng.logu(100, 3000);
      const double b = ord == "close" ? a * rng.uni(0.97, 1.03) : a * rng.uni(1.15, 3.0);
      const double mL = ord == "RL" ? b : a, mR = ord == "RL" ? a : b;
      p.ml2[1] = mL * mL; p.me2[1] = mR * mR;
      if (admix == "large") p.Ae[1] = rng.sign() * rng.logu(2e3, 2e4);
      const std::string sig = ord + "/" + admix + "/" + sg + "/" + tbc + "/p" + c.at(5) + "/it" + c.at(6);
      // the on-shell point and its spectrum
      Built A = build(p);
      vt::Ev ev("Conv");
      ev.str("case", id).str("sig", sig).num("goal", prec).i("maxit", long(maxit)).str("excA", A.exc);
      if (!A.exc.empty()) { ev.str("exc", "").emit(); continue; }
      // SLHA-type model: pole spectrum of A, initial guesses perturbed by up to 5 %
      MSSMNoFV_onshell B;
      MssmPt q = p;
      auto pert = [&](double x) { return x * (1 + rng.uni(-0.05, 0.05)); };
      q.Mu = pert(p.Mu); q.M1 = pert(p.M1); q.M2 = pert(p.M2); q.ml2[1] = pert(p.ml2[1]); q.me2[1] = pert(p.me2[1]);
#ifdef GM2CALC_VERIF
      g_hook_case = id;
      vt::Ev("ConvStart").str("case", id).str("sig", sig).num("goal", prec).i("maxit", long(maxit)).emit();
      gm2calc::verif::sink() = hook_sink;
#endif
      std::string exc = vm::exc_class([&] {
         vm::apply(B, q);
         B.set_BMu(A.model.get_BMu());
         auto& ph = B.get_physical();
         ph.MChi = A.model.get_MChi(); ph.ZN = A.model.get_ZN();
         ph.MCha = A.model.get_MCha(); ph.UM = A.model.get_UM(); ph.UP = A.model.get_UP();
         ph.MSvmL = A.model.get_MSvmL();
         ph.MSm = A.model.get_MSm(); ph.ZM = A.model.get_ZM();
         ph.MAh = A.model.get_MAh();
         B.convert_to_onshell(prec, maxit);
      });
#ifdef GM2CALC_VERIF
      gm2calc::verif::sink() = nullptr;
      ev.b("hooks", true);
#else
      ev.b("hooks", false);
#endif
      ev.str("exc", exc);
      if (exc.empty()) {
         const auto& ph = B.get_physical();
         NV o;
         vm::push_mat(o, "MCha", B.get_MCha()); vm::push_mat(o, "pMCha", ph.MCha);
         vm::push_mat(o, "MChi", B.get_MChi()); vm::push_mat(o, "pMChi", ph.MChi);
         vm::push_cmat(o, "ZN", B.get_ZN()); vm::push_cmat(o, "pZN", ph.ZN);
         o.push_back({"MSvmL", B.get_MSvmL()}); o.push_back({"pMSvmL", ph.MSvmL});
         vm::push_mat(o, "MSm", B.get_MSm()); vm::push_mat(o, "pMSm", ph.MSm); vm::push_mat(o, "ZM", B.get_ZM());
         o.push_back({"Mu", B.get_Mu()}); o.push_back({"M1", B.get_MassB()}); o.push_back({"M2", B.get_MassWB()});
         o.push_back({"ml2", B.get_ml2(1, 1)}); o.push_back({"me2", B.get_me2(1, 1)});
         o.push_back({"Mu0", p.Mu}); o.push_back({"M10", p.M1}); o.push_back({"M20", p.M2});
         o.push_back({"ml20", p.ml2[1]}); o.push_back({"me20", p.me2[1]});
         o.push_back({"amuA", calculate_amu_1loop(A.model) + calculate_amu_2loop(A.model)});
         o.push_back({"amuB", calculate_amu_1loop(B) + calculate_amu_2loop(B)});
         o.push_back({"pZM00", ph.ZM(0, 0)}); o.push_back({"pZM01", ph.ZM(0, 1)});
         ev.raw("o", vm::named_json(o));
         const auto& pr = B.get_problems();
         ev.b("warn", pr.have_warning()).b("warnMu", pr.no_Mu_MassB_MassWB_convergence()).b("warnMe2", pr.no_me2_convergence())
           .b("problem", pr.have_problem())
           .num("precMu", pr.get_Mu_MassB_MassWB_convergence_problem().precision)
           .num("precMe2", pr.get_me2_convergence_problem().precision);
      }
      ev.emit();
   }
}

// ---- C11 -------------------------------------------------------------------------------
// case line: <id> <param> <rel eq|twice|half> <A> <B>
//   param: M1 M2 Mu MA0 ml2_1 me2_1 ml2_2 me2_2 mq2_2 mu2_2 md2_2   (the Lagrangian parameter that is moved)
//   A, B : a mass name of vm::mssm_masses or a parameter magnitude absMu absM1 absM2 mslL mslR
// The coincidence A = c B (c = 1, 2, 1/2) is located on the parameter axis by bracketing and bisection of
// g(p) = A(p) - c B(p) (models rebuilt at every step); the path is p0 (1 + d) over the 23 offsets.
double& param_ref(MssmPt& p, const std::string& n)
{
   if (n == "M1") return p.M1; if (n == "M2") return p.M2; if (n == "Mu") return p.Mu; if (n == "MA0") return p.MA0;
   if (n == "ml2_1") return p.ml2[1]; if (n == "me2_1") return p.me2[1]; if (n == "ml2_2") return p.ml2[2]; if (n == "me2_2") return p.me2[2];
   if (n == "mq2_2") return p.mq2[2]; if (n == "mu2_2") return p.mu2[2];
   return p.md2[2];
}

bool mass_of(const MssmPt& p, const std::string& n, double& out)
{
   if (n == "absMu") { out = std::fabs(p.Mu); return true; }
   if (n == "absM1") { out = std::fabs(p.M1); return true; }
   if (n == "absM2") { out = std::fabs(p.M2); return true; }
   if (n == "mslL") { out = std::sqrt(p.ml2[1]); return true; }
   if (n == "mslR") { out = std::sqrt(p.me2[1]); return true; }
   Built b = build(p);
   if (!b.exc.empty() || b.model.get_problems().have_problem()) return false;
   for (const auto& kv : vm::mssm_masses(b.model)) if (kv.first == n) { out = kv.second; return std::isfinite(out); }
   return false;
}

const double kOffsets[] = {-1e-3, -1e-4, -1e-5, -1e-6, -1e-7, -1e-8, -1e-9, -1e-10, -1e-11, -1e-12, -1e-13, 0.0,
                           1e-13, 1e-12, 1e-11, 1e-10, 1e-9, 1e-8, 1e-7, 1e-6, 1e-5, 1e-4, 1e-3};

void run_c11(const std::vector<std::vector<std::string>>& cases, vt::Rng& rng)
{
   for (const auto& c : cases) {
      const std::string& id = c.at(0);
      const std::string &par = c.at(1), &rel = c.at(2), &A = c.at(3), &B = c.at(4);
      const std::string sig = "S/" + par + "/" + rel + "/" + A + "," + B;
      const double cfac = rel == "eq" ? 1.0 : rel == "twice" ? 2.0 : 0.5;
      MssmPt p = vm::random_mssm(rng, 200, 2000, 2, 60);
      if (par == "MA0" && (B == "MVZ" || B == "MVWm")) p.MA0 = rng.logu(100, 600);   // the vector-boson masses within reach of the bracket
      auto g = [&](double x, double& out) {
         MssmPt q = p; param_ref(q, par) = x;
         double a = 0, b = 0;
         if (!mass_of(q, A, a) || !mass_of(q, B, b)) return false;
         out = a - cfac * b; return true;
      };
      // bracket a sign change on a geometric grid around the base value
      const double base = param_ref(p, par);
      double lo = 0, hi = 0, glo = 0, ghi = 0; bool found = false;
      double xprev = 0, gprev = 0; bool have_prev = false;
      for (int k = -40; k <= 40 && !found; ++k) {
         const double x = base * std::pow(10.0, k / 40.0);
         double gx;
         if (!g(x, gx)) { have_prev = false; continue; }
         if (have_prev && ((gprev < 0) != (gx < 0))) { lo = xprev; hi = x; glo = gprev; ghi = gx; found = true; }
         xprev = x; gprev = gx; have_prev = true;
      }
      if (!found) { vt::Ev("PathEnd").str("case", id).str("sig", sig).str("exc", "no-coincidence").emit(); continue; }
      bool ok = true;
      for (int it = 0; it < 200 && ok; ++it) {
         const double mid = 0.5 * (lo + hi);
         if (mid == lo || mid == hi) break;
         double gm;
         if (!g(mid, gm)) { ok = false; break; }
         if ((gm < 0) == (glo < 0)) { lo = mid; glo = gm; } else { hi = mid; ghi = gm; }
      }
      if (!ok) { vt::Ev("PathEnd").str("case", id).str("sig", sig).str("exc", "refused-in-bisection").emit(); continue; }
      const double p0 = std::fabs(glo) < std::fabs(ghi) ? lo : hi;
      int k = 0;
      std::string exc;
      for (double d : kOffsets) {
         MssmPt q = p; param_ref(q, par) = p0 * (1 + d);
         Built b = build(q);
         if (!b.exc.empty()) { exc = b.exc; break; }
         if (b.model.get_problems().have_problem()) { exc = "problem"; break; }
         std::vector<std::string> thrown;
         const NV res = vm::mssm_results(b.model, &thrown);
         // a function that throws (e.g. the spectrum with tree-level Yukawa couplings has a tachyon) reports a problem
         if (!thrown.empty()) { exc = "problem:" + thrown.front(); break; }
         vt::Ev ev("Point");
         ev.str("case", id).str("sig", sig).i("di", k++).num("d", d).num("m", p0 * (1 + d)).raw("v", vm::named_json(res));
         ev.emit();
      }
      vt::Ev("PathEnd").str("case", id).str("sig", sig).str("exc", exc).emit();
   }
}

// ---- C03 -------------------------------------------------------------------------------
// case line: <id> <signs mu M1 M2 as +/- string> <tb low|mid|high|huge> <spec light|heavy|compressed|split> <conv 0|1>
void run_c03(const std::vector<std::vector<std::string>>& cases, vt::Rng& rng)
{
   for (const auto& c : cases) {
      const std::string& id = c.at(0);
      const std::string &sg = c.at(1), &tbc = c.at(2), &spec = c.at(3);
      const bool conv = c.at(4) == "1";
      MssmPt p = spec == "light" ? vm::random_mssm(rng, 80, 400, 1, 100) : spec == "heavy" ? vm::random_mssm(rng, 1000, 10000, 1, 100)
               : spec == "compressed" ? vm::random_mssm(rng, 300, 330, 1, 100) : vm::random_mssm(rng, 50, 10000, 1, 100);
      p.TB = tbc == "low" ? rng.uni(1, 3) : tbc == "mid" ? rng.uni(3, 30) : tbc == "high" ? rng.uni(30, 60) : rng.uni(60, 100);
      p.Mu = std::fabs(p.Mu) * (sg[0] == '-' ? -1 : 1);
      p.M1 = std::fabs(p.M1) * (sg[1] == '-' ? -1 : 1);
      p.M2 = std::fabs(p.M2) * (sg[2] == '-' ? -1 : 1);
      p.Ae[1] = rng.uni(-1e4, 1e4) * (spec == "light" ? 0.03 : 1);
      // a third of the tree-level cases re-use a model object that has already computed another point
      // (parameter scans: setters + calculate_masses() again); nothing of the first point may survive
      const bool reused = !conv && rng.below(3) == 0;
      const std::string sig = "mssm/" + sg + "/" + tbc + "/" + spec + (conv ? "/conv" : "/tree") + (reused ? "/reused" : "");
      MSSMNoFV_onshell m;
      if (reused) {
         const MssmPt prev = vm::random_mssm(rng, 80, 3000, 1, 100);
         vm::exc_class([&] { vm::apply(m, prev); m.calculate_masses(); });
      }
      std::string exc = vm::exc_class([&] {
         vm::apply(m, p);
         m.calculate_masses();
         if (conv) {
            // use the spectrum as pole masses and convert back (resummed muon Yukawa coupling in Ye(1,1))
            m.get_physical().MSvmL = m.get_MSvmL(); m.get_physical().MSm = m.get_MSm(); m.get_physical().MChi = m.get_MChi();
            m.get_physical().MCha = m.get_MCha(); m.get_physical().MAh = m.get_MAh();
            m.convert_to_onshell();
         }
      });
      vt::Ev ev("OneLoop");
      ev.str("model", "mssm").str("case", id).str("sig", sig).str("exc", exc);
      if (exc.empty()) {
         NV v;
         v.push_back({"gY", m.get_gY()}); v.push_back({"g2", m.get_g2()}); v.push_back({"ymu", m.get_Ye(1, 1)}); v.push_back({"MM", m.get_MM()});
         vm::push_cmat(v, "ZN", m.get_ZN()); vm::push_cmat(v, "UM", m.get_UM()); vm::push_cmat(v, "UP", m.get_UP());
         vm::push_mat(v, "USm", m.get_USm()); vm::push_mat(v, "MChi", m.get_MChi()); vm::push_mat(v, "MCha", m.get_MCha());
         vm::push_mat(v, "MSm", m.get_MSm()); v.push_back({"MSvmL", m.get_MSvmL()});
         v.push_back({"aChi0", amu1LChi0(m)}); v.push_back({"aChipm", amu1LChipm(m)}); v.push_back({"a1L", calculate_amu_1loop(m)});
         ev.b("problem", m.get_problems().have_problem()).raw("o", vm::named_json(v));
      }
      ev.emit();
   }
}

} // namespace

int main(int argc, char** argv)
{
   if (argc < 4) { std::fprintf(stderr, "usage: d_mssm <mode> <casefile> <tracefile>\n"); return 2; }
   const std::string mode = argv[1];
   const auto cases = read_cases(argv[2]);
   vt::open_trace(argv[3]);
   vt::install_terminate();
   vt::Rng rng(vt::env_seed());
   if (mode == "c18") run_c18(cases, rng);
   else if (mode == "c06") run_c06(cases, rng);
   else if (mode == "c07") run_c07(cases, rng);
   else if (mode == "c04") run_c04(cases, rng);
   else if (mode == "c05") run_c05(cases, rng);
   else if (mode == "c11") run_c11(cases, rng);
   else if (mode == "c03") run_c03(cases, rng);
   else { std::fprintf(stderr, "unknown mode %s\n", mode.c_str()); return 2; }
   vt::flush_trace();
   return 0;
}
