------------------------------ MODULE Trace_C05 ------------------------------
(***************************************************************************)
(* C05 - the DR-bar -> on-shell conversion reproduces the input pole       *)
(* masses or warns.  A conversion is recorded as                           *)
(*   ConvStart(case, goal, maxit)                                          *)
(*   Hook(name, v)*        the steps emitted by the guarded hooks of       *)
(*                         MSSMNoFV_onshell.cpp, replayed on the machine   *)
(*                         of MSSMModel.tla (same Enabled/Apply, with      *)
(*                         precisions as exact dyadic numbers)             *)
(*   Conv(...)             the final public observation                    *)
(* Without the hook build only Conv events exist; the invariants on them   *)
(* do not depend on hooks.                                                 *)
(***************************************************************************)
EXTENDS TraceBase, Dyadic

VARIABLES l, st, goal, lost, viol, nchecked
vars == <<l, st, goal, lost, viol, nchecked>>

\* precisions are pairs <<value, goal>>
AboveDy(p) == IsFin(p[1]) => Lt(p[2], p[1])           \* NaN / inf count as "above"
NotBetterDy(p, q) == (IsFin(p[1]) /\ IsFin(q[1])) => Le(q[1], p[1])
M == INSTANCE MSSMModel WITH Above <- AboveDy, NotBetter <- NotBetterDy, Bug <- "none", Precs <- {}, MaxIts <- {}

IntOf(d) == IF d.s = 0 THEN 0 ELSE d.m[1]          \* small non-negative integers logged as doubles
P(v) == <<v, goal>>

\* the model step of a hook event
StepOf(h) ==
  LET v == h.v IN
  CASE h.name \in {"MuStart", "FpiStart"} -> [name |-> h.name, it |-> 0, prec |-> P(v[1]), maxit |-> IntOf(v[3])]
    [] h.name \in {"MuStep", "MuStopNoImprovement", "FpiStep", "FpiStopNoImprovement", "MuStopNaN"} ->
          [name |-> h.name, it |-> IntOf(v[1]), prec |-> P(v[2]), maxit |-> 0]
    [] h.name = "MuDone" -> [name |-> h.name, it |-> IntOf(v[1]), prec |-> P(v[2]), maxit |-> 0]
    [] h.name \in {"Me2FpiDone", "Me2RootDone", "Me2Done"} -> [name |-> h.name, it |-> 0, prec |-> P(v[1]), maxit |-> 0]
    [] OTHER -> [name |-> h.name, it |-> 0, prec |-> P(Zero), maxit |-> 0]

Flag(d) == d.s # 0

\* right-like smuon index: |ZM(0,0)|^2 > |ZM(0,1)|^2 ? 1 : 0 ; target: pole masses sorted ascending
SmuonResidual(m0, m1, z00, z01, p0, p1) ==
  LET r == IF Lt(Sq(z01), Sq(z00)) THEN 1 ELSE 0
      lo == Min2(p0, p1)  hi == Max2(p0, p1)
  IN IF r = 1 THEN Abs(Sub(m1, hi)) ELSE Abs(Sub(m0, lo))

\* property-level checks attached to individual hook events (evaluated on the state *after* the step)
HookInvs(h, s2) ==
  LET v == h.v IN
  CASE h.name = "MuDone"  -> << I("Mu:FlagIffNotConverged", Flag(v[3]) <=> AboveDy(P(v[2]))),
                                I("Mu:PrecisionIsLastStep", v[2].b = s2.precMu[1].b) >>
    [] h.name = "Me2Done" -> << I("Me2:FlagIffNotConverged", Flag(v[2]) <=> AboveDy(P(v[1]))),
                                I("Me2:SmuonFittedOrFlagged",
                                    ~Flag(v[2]) => Le(SmuonResidual(v[3], v[4], v[5], v[6], v[7], v[8]), goal)) >>
    [] h.name = "ConvFinal" -> << I("WarningsSurviveFinalSpectrum", Flag(v[1]) = s2.warnMu /\ Flag(v[2]) = s2.warnMe),
                                  I("ConvergedOrWarned", M!ConvergedOrWarnedS(s2)),
                                  I("WarnOnlyIfNotConverged", M!WarnOnlyIfNotConvergedS(s2)) >>
    [] h.name \in {"MuStep", "FpiStep", "MuStopNoImprovement", "FpiStopNoImprovement"} ->
          << I("LoopBound", M!LoopBoundS(s2)) >>
    [] OTHER -> << >>

Init == l = 1 /\ st = M!Idle /\ goal = Zero /\ lost = FALSE /\ viol = << >> /\ nchecked = 0

TConvStart ==
  /\ l <= NLines /\ TraceLog[l].e = "ConvStart"
  /\ st' = M!Idle /\ goal' = TraceLog[l].goal /\ lost' = FALSE /\ l' = l + 1 /\ UNCHANGED <<viol, nchecked>>

THook ==
  /\ l <= NLines /\ TraceLog[l].e = "Hook"
  /\ LET h == TraceLog[l]
         ev == StepOf(h)
     IN IF lost THEN UNCHANGED <<st, lost, viol, nchecked>>
        ELSE IF M!Enabled(st, ev)
        THEN LET s2 == M!Apply(st, ev)
                 invs == HookInvs(h, s2)
             IN /\ st' = s2 /\ UNCHANGED lost
                /\ viol' = viol \o Failed(invs, l, "hook:" \o h.name) /\ nchecked' = nchecked + Len(invs) + 1
        ELSE \* the recorded step is not a step of MSSMModel.tla in this state
             /\ lost' = TRUE /\ UNCHANGED st
             /\ viol' = viol \o Failed(<<I("Conformance:" \o h.name \o "@" \o st.phase, FALSE)>>, l, "hook:" \o h.name)
             /\ nchecked' = nchecked + 1
  /\ UNCHANGED goal /\ l' = l + 1

\* ---- final observation ------------------------------------------------------------------------------------
Dig(i) == <<"0", "1", "2", "3">>[i]
BinoIdx(o, zn) ==      \* index of the largest |ZN(i,0)|^2
  LET w(i) == Add(Sq(o[zn \o "_re" \o Dig(i) \o "0"]), Sq(o[zn \o "_im" \o Dig(i) \o "0"]))
  IN CHOOSE i \in 1..4 : \A j \in 1..4 : Le(w(j), w(i))

ConvInvs(ev) ==
  LET o == ev.o
      g == ev.goal
      rCha == Max2(Abs(Sub(o["MCha_00"], o["pMCha_00"])), Abs(Sub(o["MCha_10"], o["pMCha_10"])))
      rChi == Abs(Sub(o["MChi_" \o Dig(BinoIdx(o, "ZN")) \o "0"], o["pMChi_" \o Dig(BinoIdx(o, "pZN")) \o "0"]))
      rSnu == Abs(Sub(o["MSvmL"], o["pMSvmL"]))
      rSmu == SmuonResidual(o["MSm_00"], o["MSm_10"], o["ZM_00"], o["ZM_01"], o["pMSm_00"], o["pMSm_10"])
      a == <<Abs(o["Mu0"]), Abs(o["M10"]), Abs(o["M20"])>>
      sep(x, y) == Le(Mul(OfInt(11), Min2(x, y)), Mul(OfInt(10), Max2(x, y)))        \* differ by more than 10 %
      gauginosApart == sep(a[1], a[2]) /\ sep(a[1], a[3]) /\ sep(a[2], a[3])
      smuonsApart == Le(Max2(o["ml20"], o["me20"]), Mul(OfInt(10), Abs(Sub(o["ml20"], o["me20"]))))   \* > 10 %
      smallMixing == Le(Mul(OfInt(10), Min2(Abs(o["pZM00"]), Abs(o["pZM01"]))), One)
      quiet == ~ev.warn
      relErr(x, x0, n) == Le(Mul(TenPow(n), Abs(Sub(x, x0))), Abs(x0))        \* |x - x0| <= 1e-n |x0|
  IN << I("Reproduces:charginos", ~ev.warnMu => Le(rCha, g)),
        I("Reproduces:bino", ~ev.warnMu => Le(rChi, g)),
        I("Reproduces:sneutrino", Le(Mul(TenPow(9), rSnu), o["pMSvmL"])),
        I("FinalReproduces:smuon", ~ev.warnMe2 => Le(rSmu, g)),
        \* K15 (known) is a miss of up to 0.1 GeV after the last Yukawa update; anything larger is not K15
        I("FinalReproducesLoose:smuon", ~ev.warnMe2 => Le(rSmu, One)),
        I("RoundTrip:gauginos", (quiet /\ gauginosApart) =>
             /\ Le(Abs(Sub(o["Mu"], o["Mu0"])), Mul(OfInt(50), g)) /\ Le(Abs(Sub(o["M1"], o["M10"])), Mul(OfInt(50), g))
             /\ Le(Abs(Sub(o["M2"], o["M20"])), Mul(OfInt(50), g))),
        I("RoundTrip:ml2", quiet => relErr(o["ml2"], o["ml20"], 12)),
        I("RoundTripLoose:me2", (quiet /\ smuonsApart /\ smallMixing) => relErr(o["me2"], o["me20"], 3)),
        I("RoundTripLoose:amu", (quiet /\ gauginosApart /\ smuonsApart /\ smallMixing) => relErr(o["amuB"], o["amuA"], 2)),
        I("RoundTrip:me2", (quiet /\ smuonsApart /\ smallMixing) => relErr(o["me2"], o["me20"], 9)),
        I("RoundTrip:amu", (quiet /\ gauginosApart /\ smuonsApart /\ smallMixing) => relErr(o["amuB"], o["amuA"], 8)) >>

TConv ==
  /\ l <= NLines /\ TraceLog[l].e = "Conv"
  /\ LET ev == TraceLog[l]
         ok == ev.excA = "" /\ ev.exc = ""
         hooked == ok /\ ev.hooks /\ ~lost
         invs == IF ev.excA # "" THEN << >>
                 ELSE IF ev.exc # "" THEN << I("ConversionAccepted", ev.exc \in {"EPhysicalProblem", "EInvalidInput"}) >>
                 ELSE ConvInvs(ev) \o
                      (IF hooked THEN << I("MachineFinished", st.phase = "done"),
                                         I("WarnFlagsAgree", ev.warnMu = st.warnMu /\ ev.warnMe2 = st.warnMe) >> ELSE << >>)
     IN /\ viol' = viol \o Failed(invs, l, ev.sig) /\ nchecked' = nchecked + Len(invs)
  /\ st' = M!Idle /\ lost' = FALSE /\ UNCHANGED goal /\ l' = l + 1

Next == TConvStart \/ THook \/ TConv
Spec == Init /\ [][Next]_vars
Report == l = NLines + 1 => WriteReport(l, viol, [nchecked |-> nchecked])
=============================================================================
