-------------------------------- MODULE Cases --------------------------------
(***************************************************************************)
(* Constant-level enumeration of the abstract case sets that the harness   *)
(* concretises (DESIGN 2.3).  Every set here is the *enumerated part* of a *)
(* property's quantifier; the harness draws concrete representatives of    *)
(* each element.  TLC writes the sets as JSON (ASSUME at the end).         *)
(***************************************************************************)
EXTENDS Json, IOUtils, TLC, Defects, Yukawa, Regimes

\* C18: model classes, incl. 1L/2L cancellation, new-physics scale near the muon mass, and contributions far below the
\* documented floor of the uncertainty (decoupled / aligned heavy Higgs bosons, lepton-phobic types at large tan(beta))
C18Cases ==
   {[model |-> "mssm", cls |-> c] : c \in {"generic", "cancel", "heavy", "light"}} \cup
   {[model |-> "thdm", cls |-> c] : c \in {"generic", "cancel", "heavy", "lightNP", "decoupled", "leptophobic"}}

\* C06: all sign patterns of (mu, M1, M2, M3, Au_1..3, Ad_1..3, Ae_1..3)
C06Cases == [1..13 -> {"+", "-"}]

\* C07: classes of base points (lightest SUSY mass >= 300 GeV)
\* "degenerate": a random subset (>= 2) of |mu|, |M1|, |M2|, m_L(2,2), m_E(2,2) share one value (equal arguments of
\* Iabc, Fa, Fb in the tan(beta) resummation and the one-loop approximations; masses nearly equal through D-terms)
\* stopmix: heavy higgsinos, light strongly mixed stops with mu At > 0 (the sfermion 2L(a) term negative and dominant)
C07Cases == {"generic", "hightb", "compressed", "degenerate", "stopmix"}

\* C15: the full cross product of GM2CalcConfig options (480 vectors)
C15Opts == [fmt : 0..4, loop : 0..2, tb : BOOLEAN, force : BOOLEAN, verbose : BOOLEAN, unc : BOOLEAN, running : BOOLEAN]

\* C16: all defect sets of size <= 2 per model (Defects.tla), as sequences for JSON
C16Sets == [mssm |-> DefectSets("mssm"), thdm |-> DefectSets("thdm")]

\* C19: schedules = per-thread operation lists over the alphabet of Purity.tla (random sample;
\* the interleavings themselves are explored exhaustively in Purity.tla)
C19OpArg == {"amu:shared", "amu:priv", "amu_nr:shared", "amu_nr:priv", "unc:shared", "unc:priv", "spectrum:priv", "construct:priv"}
C19Sched(j, nt) == [t \in 1..nt |-> [i \in 1..(2 + (j % 3)) |-> RandomElement(C19OpArg)]]
C19Scheds == {[nt |-> nt, lists |-> C19Sched(j, nt)] : j \in 1..60, nt \in {2, 3, 4, 8, 16}}

\* C08: sector of sin(beta-alpha) x tan(beta) class x Yukawa type x CKM x basis of origin
C08Cases == {[sec |-> a, tb |-> b, ytype |-> y, ckm |-> c, origin |-> o] :
               a \in {"m1", "neg_hi", "neg_lo", "zero", "pos_lo", "pos_hi", "p1", "align"},
               b \in {"small", "one", "mid", "large"}, y \in 1..6, c \in {"real", "complex"}, o \in {"mass", "gauge"}}

\* C09: equivalent parametrisations and the ignore matrix (THDMModel.tla: Ignored)
C09Cases ==
   {[kind |-> "typed", ytype |-> y, tb |-> b, running |-> r, param |-> "-"] : y \in 1..4, b \in {"small", "one", "mid", "large"}, r \in 0..1} \cup
   {[kind |-> "general", ytype |-> 5, tb |-> b, running |-> 0, param |-> "-"] : b \in {"small", "one", "mid", "large"}} \cup
   UNION {{[kind |-> "ignored", ytype |-> y, tb |-> b, running |-> r, param |-> q] :
              b \in {"small", "mid", "large"}, r \in 0..1, q \in Ignored(TypeName(y))} : y \in 1..6}

\* C10: SM limit and decoupling families
C10Cases == {[kind |-> k, ytype |-> y, tb |-> b] : k \in {"smlimit", "decouple"}, y \in 1..6, b \in {"small", "mid", "large"}}

\* C20: SM layer
C20Cases == {[kind |-> "ckm_w", cls |-> c] : c \in {"inside", "edge", "outside", "nonfinite"}} \cup
            {[kind |-> k, cls |-> "inside"] : k \in {"ckm_a", "ew", "thdmrun"}} \cup
            {[kind |-> "run", cls |-> c] : c \in {"inside", "edge"}}

\* C12: routine x scalar x size x eigen/singular-value pattern x basis class
C12Routines == {"fs_svd", "svd", "reorder_svd", "fs_diagonalize_hermitian", "diagonalize_hermitian",
                "fs_diagonalize_symmetric", "reorder_diagonalize_symmetric", "diagonalize_symmetric"}
\* allpos / allneg: definite spectra (the Hermitian / symmetric wrappers re-sort by magnitude only when signs are mixed)
C12Patterns == {"distinct", "double", "triple", "allequal", "zero", "zero2", "negpair", "hier", "int", "zerorow", "allpos", "allneg", "negdouble", "posdouble"}
C12Cases == {[routine |-> r, scalar |-> sc, n |-> n, pattern |-> p, basis |-> b] :
               r \in C12Routines, sc \in {"real", "complex"}, n \in 2..4, p \in C12Patterns, b \in {"diag", "perm", "rot"}}
            \cup {[routine |-> "fs_svd_rc", scalar |-> "real", n |-> n, pattern |-> p, basis |-> b] :
               n \in 2..4, p \in C12Patterns, b \in {"diag", "perm", "rot"}}

\* C04: tan(beta) class x sign class of the soft masses x signs of (mu, M1, M2) x structure x generation exchange
C04Cases == {[tb |-> t, soft |-> so, signs |-> g, st |-> st, swap |-> w] :
               t \in {"half", "one", "mid", "large"}, so \in {"pos", "negL", "negR", "negsnu"},
               g \in {"ppp", "ppm", "pmp", "pmm", "mpp", "mpm", "mmp", "mmm"},
               st \in {"generic", "degenerate", "bigA", "negBmu"}, w \in {"none", "01", "02", "12"}}

\* C05: ordering of the smuon soft masses x size of the smuon mixing x signs of (mu, M1, M2) x tan(beta) class
\*      x precision goal 10^-prec x max_iterations
C05Cases == {[ord |-> o, admix |-> a, signs |-> g, tb |-> t, prec |-> p, maxit |-> m] :
               o \in {"LR", "RL", "close"}, a \in {"small", "large"},
               g \in {"ppp", "ppm", "pmp", "pmm", "mpp", "mpm", "mmp", "mmm"}, t \in {"low", "mid", "high"},
               p \in {4, 6, 8, 10}, m \in {1, 10, 1000}}

VARIABLE x
Init == x = 0
Next == UNCHANGED x
Spec == Init /\ [][Next]_x

\* C03: classes of one-loop points
Sg == {"+", "-"}
C03Cases == {[model |-> "mssm", signs |-> a \o b \o c, tb |-> t, spec |-> sp, conv |-> cv] :
                a \in Sg, b \in Sg, c \in Sg, t \in {"low", "mid", "high", "huge"}, sp \in {"light", "heavy", "compressed", "split"}, cv \in {0, 1}}
         \cup {[model |-> "thdm", ytype |-> y, basis |-> b, offdiag |-> od, tb |-> t] :
                y \in 1..6, b \in {"mass", "gauge"}, od \in {0, 1, 2}, t \in {"small", "one", "mid", "large"}}
         \* od: 0 flavour-diagonal, 1 dense lepton-flavour-violating Delta_l / Pi_l, 2 sparse (single entries, exact zeros elsewhere)

ASSUME JsonSerialize(IOEnv.GEN_OUT, [C18 |-> C18Cases, C06 |-> C06Cases, C07 |-> C07Cases, C15 |-> C15Opts, C16 |-> C16Sets, C19 |-> C19Scheds, C08 |-> C08Cases, C09 |-> C09Cases, C10 |-> C10Cases, C20 |-> C20Cases, C12 |-> C12Cases, C04 |-> C04Cases, C05 |-> C05Cases, C11 |-> AllCoincidencesC11, C01 |-> C01Cases, C02 |-> C02Cases, C03 |-> C03Cases])
=============================================================================
