---- MODULE MSSMModelMC_TTrace_1790874323 ----
EXTENDS MSSMModelMC, Sequences, TLCExt, Toolbox, Naturals, TLC

_expression ==
    LET MSSMModelMC_TEExpression == INSTANCE MSSMModelMC_TEExpression
    IN MSSMModelMC_TEExpression!expression
----

_trace ==
    LET MSSMModelMC_TETrace == INSTANCE MSSMModelMC_TETrace
    IN MSSMModelMC_TETrace!trace
----

_inv ==
    ~(
        TLCGet("level") = Len(_TETrace)
        /\
        st = ([phase |-> "done", itMu |-> 0, precMu |-> 1, warnMu |-> FALSE, itMe |-> 0, precMe |-> 0, warnMe |-> FALSE, maxIt |-> 0, reset |-> FALSE])
    )
----

_init ==
    /\ st = _TETrace[1].st
----

_next ==
    /\ \E i,j \in DOMAIN _TETrace:
        /\ \/ /\ j = i + 1
              /\ i = TLCGet("level")
        /\ st  = _TETrace[i].st
        /\ st' = _TETrace[j].st

\* Uncomment the ASSUME below to write the states of the error trace
\* to the given file in Json format. Note that you can pass any tuple
\* to `JsonSerialize`. For example, a sub-sequence of _TETrace.
    \* ASSUME
    \*     LET J == INSTANCE Json
    \*         IN J!JsonSerialize("MSSMModelMC_TTrace_1790874323.json", _TETrace)

=============================================================================

 Note that you can extract this module `MSSMModelMC_TEExpression`
  to a dedicated file to reuse `expression` (the module in the 
  dedicated `MSSMModelMC_TEExpression.tla` file takes precedence 
  over the module `MSSMModelMC_TEExpression` below).

---- MODULE MSSMModelMC_TEExpression ----
EXTENDS MSSMModelMC, Sequences, TLCExt, Toolbox, Naturals, TLC

expression == 
    [
        \* To hide variables of the `MSSMModelMC` spec from the error trace,
        \* remove the variables below.  The trace will be written in the order
        \* of the fields of this record.
        st |-> st
        
        \* Put additional constant-, state-, and action-level expressions here:
        \* ,_stateNumber |-> _TEPosition
        \* ,_stUnchanged |-> st = st'
        
        \* Format the `st` variable as Json value.
        \* ,_stJson |->
        \*     LET J == INSTANCE Json
        \*     IN J!ToJson(st)
        
        \* Lastly, you may build expressions over arbitrary sets of states by
        \* leveraging the _TETrace operator.  For example, this is how to
        \* count the number of times a spec variable changed up to the current
        \* state in the trace.
        \* ,_stModCount |->
        \*     LET F[s \in DOMAIN _TETrace] ==
        \*         IF s = 1 THEN 0
        \*         ELSE IF _TETrace[s].st # _TETrace[s-1].st
        \*             THEN 1 + F[s-1] ELSE F[s-1]
        \*     IN F[_TEPosition - 1]
    ]

=============================================================================



Parsing and semantic processing can take forever if the trace below is long.
 In this case, it is advised to uncomment the module below to deserialize the
 trace from a generated binary file.

\*
\*---- MODULE MSSMModelMC_TETrace ----
\*EXTENDS MSSMModelMC, IOUtils, TLC
\*
\*trace == IODeserialize("MSSMModelMC_TTrace_1790874323.bin", TRUE)
\*
\*=============================================================================
\*

---- MODULE MSSMModelMC_TETrace ----
EXTENDS MSSMModelMC, TLC

trace == 
    <<
    ([st |-> [phase |-> "idle", itMu |-> 0, precMu |-> 0, warnMu |-> FALSE, itMe |-> 0, precMe |-> 0, warnMe |-> FALSE, maxIt |-> 0, reset |-> FALSE]]),
    ([st |-> [phase |-> "mu", itMu |-> 0, precMu |-> 1, warnMu |-> FALSE, itMe |-> 0, precMe |-> 0, warnMe |-> FALSE, maxIt |-> 0, reset |-> FALSE]]),
    ([st |-> [phase |-> "ml2", itMu |-> 0, precMu |-> 1, warnMu |-> TRUE, itMe |-> 0, precMe |-> 0, warnMe |-> FALSE, maxIt |-> 0, reset |-> FALSE]]),
    ([st |-> [phase |-> "fpi", itMu |-> 0, precMu |-> 1, warnMu |-> TRUE, itMe |-> 0, precMe |-> 0, warnMe |-> FALSE, maxIt |-> 0, reset |-> FALSE]]),
    ([st |-> [phase |-> "me2flag", itMu |-> 0, precMu |-> 1, warnMu |-> TRUE, itMe |-> 0, precMe |-> 0, warnMe |-> FALSE, maxIt |-> 0, reset |-> FALSE]]),
    ([st |-> [phase |-> "final", itMu |-> 0, precMu |-> 1, warnMu |-> TRUE, itMe |-> 0, precMe |-> 0, warnMe |-> FALSE, maxIt |-> 0, reset |-> FALSE]]),
    ([st |-> [phase |-> "done", itMu |-> 0, precMu |-> 1, warnMu |-> FALSE, itMe |-> 0, precMe |-> 0, warnMe |-> FALSE, maxIt |-> 0, reset |-> FALSE]])
    >>
----


=============================================================================

---- CONFIG MSSMModelMC_TTrace_1790874323 ----
CONSTANTS
    BugC = "clearall"

INVARIANT
    _inv

CHECK_DEADLOCK
    \* CHECK_DEADLOCK off because of PROPERTY or INVARIANT above.
    FALSE

INIT
    _init

NEXT
    _next

CONSTANT
    _TETrace <- _trace

ALIAS
    _expression
=============================================================================
\* Generated on Thu Oct 01 17:05:25 UTC 2026