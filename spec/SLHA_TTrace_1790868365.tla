---- MODULE SLHA_TTrace_1790868365 ----
EXTENDS Sequences, TLCExt, SLHA, Toolbox, Naturals, TLC

_expression ==
    LET SLHA_TEExpression == INSTANCE SLHA_TEExpression
    IN SLHA_TEExpression!expression
----

_trace ==
    LET SLHA_TETrace == INSTANCE SLHA_TETrace
    IN SLHA_TETrace!trace
----

_inv ==
    ~(
        TLCGet("level") = Len(_TETrace)
        /\
        cursor = (0)
        /\
        pc = ("done")
        /\
        file = (<<[q |-> "NoQ", t |-> "hdr", name |-> "HMIX", key |-> "-", val |-> "-"], [q |-> "-", t |-> "dat", name |-> "-", key |-> "k1", val |-> "vbad"], [q |-> "Q1", t |-> "hdr", name |-> "HMIX", key |-> "-", val |-> "-"]>>)
        /\
        err = ("ReadError")
        /\
        pass = (3)
        /\
        scale = ("Q1")
        /\
        fmt = ("slha")
        /\
        params = ((<<"FREE", "k1">> :> "unset" @@ <<"FREE", "k2">> :> "unset" @@ <<"HMIX", "k1">> :> "unset" @@ <<"HMIX", "k2">> :> "unset" @@ <<"DEP", "k1">> :> "unset" @@ <<"DEP", "k2">> :> "unset"))
    )
----

_init ==
    /\ fmt = _TETrace[1].fmt
    /\ params = _TETrace[1].params
    /\ pc = _TETrace[1].pc
    /\ file = _TETrace[1].file
    /\ scale = _TETrace[1].scale
    /\ cursor = _TETrace[1].cursor
    /\ pass = _TETrace[1].pass
    /\ err = _TETrace[1].err
----

_next ==
    /\ \E i,j \in DOMAIN _TETrace:
        /\ \/ /\ j = i + 1
              /\ i = TLCGet("level")
        /\ fmt  = _TETrace[i].fmt
        /\ fmt' = _TETrace[j].fmt
        /\ params  = _TETrace[i].params
        /\ params' = _TETrace[j].params
        /\ pc  = _TETrace[i].pc
        /\ pc' = _TETrace[j].pc
        /\ file  = _TETrace[i].file
        /\ file' = _TETrace[j].file
        /\ scale  = _TETrace[i].scale
        /\ scale' = _TETrace[j].scale
        /\ cursor  = _TETrace[i].cursor
        /\ cursor' = _TETrace[j].cursor
        /\ pass  = _TETrace[i].pass
        /\ pass' = _TETrace[j].pass
        /\ err  = _TETrace[i].err
        /\ err' = _TETrace[j].err

\* Uncomment the ASSUME below to write the states of the error trace
\* to the given file in Json format. Note that you can pass any tuple
\* to `JsonSerialize`. For example, a sub-sequence of _TETrace.
    \* ASSUME
    \*     LET J == INSTANCE Json
    \*         IN J!JsonSerialize("SLHA_TTrace_1790868365.json", _TETrace)

=============================================================================

 Note that you can extract this module `SLHA_TEExpression`
  to a dedicated file to reuse `expression` (the module in the 
  dedicated `SLHA_TEExpression.tla` file takes precedence 
  over the module `SLHA_TEExpression` below).

---- MODULE SLHA_TEExpression ----
EXTENDS Sequences, TLCExt, SLHA, Toolbox, Naturals, TLC

expression == 
    [
        \* To hide variables of the `SLHA` spec from the error trace,
        \* remove the variables below.  The trace will be written in the order
        \* of the fields of this record.
        fmt |-> fmt
        ,params |-> params
        ,pc |-> pc
        ,file |-> file
        ,scale |-> scale
        ,cursor |-> cursor
        ,pass |-> pass
        ,err |-> err
        
        \* Put additional constant-, state-, and action-level expressions here:
        \* ,_stateNumber |-> _TEPosition
        \* ,_fmtUnchanged |-> fmt = fmt'
        
        \* Format the `fmt` variable as Json value.
        \* ,_fmtJson |->
        \*     LET J == INSTANCE Json
        \*     IN J!ToJson(fmt)
        
        \* Lastly, you may build expressions over arbitrary sets of states by
        \* leveraging the _TETrace operator.  For example, this is how to
        \* count the number of times a spec variable changed up to the current
        \* state in the trace.
        \* ,_fmtModCount |->
        \*     LET F[s \in DOMAIN _TETrace] ==
        \*         IF s = 1 THEN 0
        \*         ELSE IF _TETrace[s].fmt # _TETrace[s-1].fmt
        \*             THEN 1 + F[s-1] ELSE F[s-1]
        \*     IN F[_TEPosition - 1]
    ]

=============================================================================



Parsing and semantic processing can take forever if the trace below is long.
 In this case, it is advised to uncomment the module below to deserialize the
 trace from a generated binary file.

\*
\*---- MODULE SLHA_TETrace ----
\*EXTENDS IOUtils, SLHA, TLC
\*
\*trace == IODeserialize("SLHA_TTrace_1790868365.bin", TRUE)
\*
\*=============================================================================
\*

---- MODULE SLHA_TETrace ----
EXTENDS SLHA, TLC

trace == 
    <<
    ([cursor |-> 0,pc |-> "build",file |-> <<>>,err |-> "none",pass |-> 0,scale |-> "zero",fmt |-> "slha",params |-> (<<"FREE", "k1">> :> "unset" @@ <<"FREE", "k2">> :> "unset" @@ <<"HMIX", "k1">> :> "unset" @@ <<"HMIX", "k2">> :> "unset" @@ <<"DEP", "k1">> :> "unset" @@ <<"DEP", "k2">> :> "unset")]),
    ([cursor |-> 0,pc |-> "build",file |-> <<[q |-> "NoQ", t |-> "hdr", name |-> "HMIX", key |-> "-", val |-> "-"]>>,err |-> "none",pass |-> 0,scale |-> "zero",fmt |-> "slha",params |-> (<<"FREE", "k1">> :> "unset" @@ <<"FREE", "k2">> :> "unset" @@ <<"HMIX", "k1">> :> "unset" @@ <<"HMIX", "k2">> :> "unset" @@ <<"DEP", "k1">> :> "unset" @@ <<"DEP", "k2">> :> "unset")]),
    ([cursor |-> 0,pc |-> "build",file |-> <<[q |-> "NoQ", t |-> "hdr", name |-> "HMIX", key |-> "-", val |-> "-"], [q |-> "-", t |-> "dat", name |-> "-", key |-> "k1", val |-> "vbad"]>>,err |-> "none",pass |-> 0,scale |-> "zero",fmt |-> "slha",params |-> (<<"FREE", "k1">> :> "unset" @@ <<"FREE", "k2">> :> "unset" @@ <<"HMIX", "k1">> :> "unset" @@ <<"HMIX", "k2">> :> "unset" @@ <<"DEP", "k1">> :> "unset" @@ <<"DEP", "k2">> :> "unset")]),
    ([cursor |-> 0,pc |-> "build",file |-> <<[q |-> "NoQ", t |-> "hdr", name |-> "HMIX", key |-> "-", val |-> "-"], [q |-> "-", t |-> "dat", name |-> "-", key |-> "k1", val |-> "vbad"], [q |-> "Q1", t |-> "hdr", name |-> "HMIX", key |-> "-", val |-> "-"]>>,err |-> "none",pass |-> 0,scale |-> "zero",fmt |-> "slha",params |-> (<<"FREE", "k1">> :> "unset" @@ <<"FREE", "k2">> :> "unset" @@ <<"HMIX", "k1">> :> "unset" @@ <<"HMIX", "k2">> :> "unset" @@ <<"DEP", "k1">> :> "unset" @@ <<"DEP", "k2">> :> "unset")]),
    ([cursor |-> 0,pc |-> "fill",file |-> <<[q |-> "NoQ", t |-> "hdr", name |-> "HMIX", key |-> "-", val |-> "-"], [q |-> "-", t |-> "dat", name |-> "-", key |-> "k1", val |-> "vbad"], [q |-> "Q1", t |-> "hdr", name |-> "HMIX", key |-> "-", val |-> "-"]>>,err |-> "none",pass |-> 1,scale |-> "zero",fmt |-> "slha",params |-> (<<"FREE", "k1">> :> "unset" @@ <<"FREE", "k2">> :> "unset" @@ <<"HMIX", "k1">> :> "unset" @@ <<"HMIX", "k2">> :> "unset" @@ <<"DEP", "k1">> :> "unset" @@ <<"DEP", "k2">> :> "unset")]),
    ([cursor |-> 0,pc |-> "fill",file |-> <<[q |-> "NoQ", t |-> "hdr", name |-> "HMIX", key |-> "-", val |-> "-"], [q |-> "-", t |-> "dat", name |-> "-", key |-> "k1", val |-> "vbad"], [q |-> "Q1", t |-> "hdr", name |-> "HMIX", key |-> "-", val |-> "-"]>>,err |-> "none",pass |-> 2,scale |-> "zero",fmt |-> "slha",params |-> (<<"FREE", "k1">> :> "unset" @@ <<"FREE", "k2">> :> "unset" @@ <<"HMIX", "k1">> :> "unset" @@ <<"HMIX", "k2">> :> "unset" @@ <<"DEP", "k1">> :> "unset" @@ <<"DEP", "k2">> :> "unset")]),
    ([cursor |-> 1,pc |-> "fill",file |-> <<[q |-> "NoQ", t |-> "hdr", name |-> "HMIX", key |-> "-", val |-> "-"], [q |-> "-", t |-> "dat", name |-> "-", key |-> "k1", val |-> "vbad"], [q |-> "Q1", t |-> "hdr", name |-> "HMIX", key |-> "-", val |-> "-"]>>,err |-> "none",pass |-> 2,scale |-> "zero",fmt |-> "slha",params |-> (<<"FREE", "k1">> :> "unset" @@ <<"FREE", "k2">> :> "unset" @@ <<"HMIX", "k1">> :> "unset" @@ <<"HMIX", "k2">> :> "unset" @@ <<"DEP", "k1">> :> "unset" @@ <<"DEP", "k2">> :> "unset")]),
    ([cursor |-> 3,pc |-> "fill",file |-> <<[q |-> "NoQ", t |-> "hdr", name |-> "HMIX", key |-> "-", val |-> "-"], [q |-> "-", t |-> "dat", name |-> "-", key |-> "k1", val |-> "vbad"], [q |-> "Q1", t |-> "hdr", name |-> "HMIX", key |-> "-", val |-> "-"]>>,err |-> "none",pass |-> 2,scale |-> "Q1",fmt |-> "slha",params |-> (<<"FREE", "k1">> :> "unset" @@ <<"FREE", "k2">> :> "unset" @@ <<"HMIX", "k1">> :> "unset" @@ <<"HMIX", "k2">> :> "unset" @@ <<"DEP", "k1">> :> "unset" @@ <<"DEP", "k2">> :> "unset")]),
    ([cursor |-> 0,pc |-> "fill",file |-> <<[q |-> "NoQ", t |-> "hdr", name |-> "HMIX", key |-> "-", val |-> "-"], [q |-> "-", t |-> "dat", name |-> "-", key |-> "k1", val |-> "vbad"], [q |-> "Q1", t |-> "hdr", name |-> "HMIX", key |-> "-", val |-> "-"]>>,err |-> "none",pass |-> 3,scale |-> "Q1",fmt |-> "slha",params |-> (<<"FREE", "k1">> :> "unset" @@ <<"FREE", "k2">> :> "unset" @@ <<"HMIX", "k1">> :> "unset" @@ <<"HMIX", "k2">> :> "unset" @@ <<"DEP", "k1">> :> "unset" @@ <<"DEP", "k2">> :> "unset")]),
    ([cursor |-> 0,pc |-> "done",file |-> <<[q |-> "NoQ", t |-> "hdr", name |-> "HMIX", key |-> "-", val |-> "-"], [q |-> "-", t |-> "dat", name |-> "-", key |-> "k1", val |-> "vbad"], [q |-> "Q1", t |-> "hdr", name |-> "HMIX", key |-> "-", val |-> "-"]>>,err |-> "ReadError",pass |-> 3,scale |-> "Q1",fmt |-> "slha",params |-> (<<"FREE", "k1">> :> "unset" @@ <<"FREE", "k2">> :> "unset" @@ <<"HMIX", "k1">> :> "unset" @@ <<"HMIX", "k2">> :> "unset" @@ <<"DEP", "k1">> :> "unset" @@ <<"DEP", "k2">> :> "unset")])
    >>
----


=============================================================================

---- CONFIG SLHA_TTrace_1790868365 ----
CONSTANTS
    MaxLen = 4
    Formats = { "slha" }
    Bug = "anyscale"

INVARIANT
    _inv

CHECK_DEADLOCK
    \* CHECK_DEADLOCK off because of PROPERTY or INVARIANT above.
    FALSE

INIT
    _init

NEXT
    _next

CONSTANT
    _TETrace <- _trace

ALIAS
    _expression
=============================================================================
\* Generated on Thu Oct 01 15:26:23 UTC 2026