SPECIFICATION FairSpec
CONSTANTS
  Bug = "none"
  MaxArgs = 2
  MaxCfg = 1
  CfgMode = "seq"
PROPERTY Terminates
CHECK_DEADLOCK FALSE
