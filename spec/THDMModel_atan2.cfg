SPECIFICATION Spec
CONSTANT Extraction = "atan2"
INVARIANT AlphaOK
CHECK_DEADLOCK FALSE
