------------------------------ MODULE Trace_C08 ------------------------------
(***************************************************************************)
(* C08 - a constructed THDM reproduces the inputs it was constructed from. *)
(*   Built(case, basis, in, st)   model built from mass- or gauge-basis    *)
(*                                input `in`; st = all public getters      *)
(*   Rebuilt(case, basis, st)     model rebuilt in the other basis from    *)
(*                                what the first one reports               *)
(* Tolerances: squared masses are eigenvalues of matrices with entries of  *)
(* the size of the largest squared mass M2: absolute 1e-9 M2 (observed     *)
(* 1.3e-10 M2 on the unchanged tree); the mixing angle is conditioned by   *)
(* M2 / (mH^2 - mh^2) (observed 7e-13 in these units, allowed 1e-10);      *)
(* stored parameters must come back bit for bit.                           *)
(***************************************************************************)
EXTENDS TraceBase, Dyadic

VARIABLES l, built, viol, nchecked
vars == <<l, built, viol, nchecked>>

E9  == TenPow(9)
E10 == TenPow(10)
E12 == TenPow(12)
Close48(a, b) == RelClose(a, b, One, PowTwo(48))
CloseRel(a, b, n) == RelClose(a, b, One, TenPow(n))

Max4(a, b, c, d) == Max2(Max2(a, b), Max2(c, d))
M2max(st) == Max4(Sq(st["Mhh0"]), Sq(st["Mhh1"]), Sq(st["MAh1"]), Sq(st["MHm1"]))

\* |x^2 - y^2| <= 1e-9 M2
SqClose(x, y, m2) == Le(Mul(E9, Abs(Sub(Sq(x), Sq(y)))), m2)

\* sin(beta-alpha): at |sin| = 1 (cos = 0) the sign is not fixed by the convention
SbaClose(out, in, gap, m2) ==
   LET d == IF Le(Mul(E12, Sub(One, Abs(in))), One) THEN Abs(Sub(Abs(out), Abs(in))) ELSE Abs(Sub(out, in))
   IN Le(Mul(E10, Mul(d, gap)), m2)

\* ---- complex 3x3 helpers (names of harness/drv/models.hpp: <n>_re<i><k>, <n>_im<i><k>) -------------
Idx == {"0", "1", "2"}
Re(st, n, i, k) == st[n \o "_re" \o i \o k]
Im(st, n, i, k) == st[n \o "_im" \o i \o k]
\* (A B^dagger)_{ij} = sum_k A_ik conj(B_jk)
PRe(st, a, b, i, j) == SumSeq(<< Add(Mul(Re(st, a, i, "0"), Re(st, b, j, "0")), Mul(Im(st, a, i, "0"), Im(st, b, j, "0"))),
                                Add(Mul(Re(st, a, i, "1"), Re(st, b, j, "1")), Mul(Im(st, a, i, "1"), Im(st, b, j, "1"))),
                                Add(Mul(Re(st, a, i, "2"), Re(st, b, j, "2")), Mul(Im(st, a, i, "2"), Im(st, b, j, "2"))) >>)
PIm(st, a, b, i, j) == SumSeq(<< Sub(Mul(Im(st, a, i, "0"), Re(st, b, j, "0")), Mul(Re(st, a, i, "0"), Im(st, b, j, "0"))),
                                Sub(Mul(Im(st, a, i, "1"), Re(st, b, j, "1")), Mul(Re(st, a, i, "1"), Im(st, b, j, "1"))),
                                Sub(Mul(Im(st, a, i, "2"), Re(st, b, j, "2")), Mul(Re(st, a, i, "2"), Im(st, b, j, "2"))) >>)
Abs2(re, im) == Add(Sq(re), Sq(im))
\* the quark mixing matrices reproduce the input CKM matrix up to quark-field rephasing:
\* moduli of all nine elements of Vu Vd^dagger
CkmModuli(st) == \A i \in Idx, j \in Idx :
   Le(Mul(E12, Abs(Sub(Abs2(PRe(st, "Vu", "Vd", i, j), PIm(st, "Vu", "Vd", i, j)),
                       Abs2(Re(st, "sm_ckm", i, j), Im(st, "sm_ckm", i, j))))), One)

StInvs(st, problem) ==
  << I("VectorBosons", Close48(st["MVWm"], st["sm_mw"]) /\ Close48(st["MVZ"], st["sm_mz"])),
     I("Goldstones", ~problem => CloseRel(st["MAh0"], st["MVZ"], 9) /\ CloseRel(st["MHm0"], st["MVWm"], 9)),
     I("FermionMasses", \A g \in Idx : /\ CloseRel(st["MFu_" \o g \o "0"], st["sm_mu_" \o g \o "0"], 10)
                                        /\ CloseRel(st["MFd_" \o g \o "0"], st["sm_md_" \o g \o "0"], 10)
                                        /\ CloseRel(st["MFe_" \o g \o "0"], st["sm_ml_" \o g \o "0"], 10)),
     I("CKM", CkmModuli(st)),
     I("CosNonNegative", Le(Neg(st["cba"]), Mul(One, PowTwo(-40)))) >>

MassInvs(in, st) ==
  LET m2  == Max4(Sq(in["mh"]), Sq(in["mH"]), Sq(in["mA"]), Sq(in["mHp"]))
      gap == Sub(Sq(in["mH"]), Sq(in["mh"]))
  IN << I("MassesReproduced", /\ SqClose(st["Mhh0"], in["mh"], m2) /\ SqClose(st["Mhh1"], in["mH"], m2)
                              /\ SqClose(st["MAh1"], in["mA"], m2) /\ SqClose(st["MHm1"], in["mHp"], m2)),
        I("AngleReproduced", SbaClose(st["sba"], in["sba"], gap, m2)),
        I("ParamsReproduced", /\ Close48(st["tan_beta"], in["tan_beta"]) /\ st["lambda6"].b = in["lambda6"].b
                              /\ st["lambda7"].b = in["lambda7"].b /\ st["m122"].b = in["m122"].b) >>

GaugeInvs(in, st) ==
  << I("ParamsReproduced", /\ Close48(st["tan_beta"], in["tan_beta"]) /\ st["m122"].b = in["m122"].b
                           /\ \A n \in {"lambda1", "lambda2", "lambda3", "lambda4", "lambda5", "lambda6", "lambda7"} :
                                 st[n].b = in[n].b) >>

RoundTripInvs(a, b) ==      \* a = first model, b = rebuilt in the other basis
  LET m2  == M2max(a)
      gap == Sub(Sq(a["Mhh1"]), Sq(a["Mhh0"]))
  IN << I("RoundTripSpectrum", \A n \in {"Mhh0", "Mhh1", "MAh1", "MHm1"} : SqClose(b[n], a[n], m2)),
        \* The mass basis carries the mixing as the double sin(beta-alpha): close to alignment, cos(beta-alpha) =
        \* sqrt(1 - sba^2) is known only to eps / cos(beta-alpha), and the quartics depend on it through
        \* M^2 (tan(beta) + cot(beta)) cos(beta-alpha) / v^2.  That loss is in the documented parametrisation, not in the
        \* code: |d lambda| v^2 cba tb <= 16 eps M^2 (tb^2 + 1) is accepted as well (stated with cba^2 = 1 - sba^2).
        I("RoundTripQuartics", \A n \in {"lambda1", "lambda2", "lambda3", "lambda4", "lambda5"} :
                                  LET d == Mul(Abs(Sub(b[n], a[n])), a["v_sqr"])
                                      tb == Abs(a["tan_beta"])
                                  IN \/ Le(Mul(E9, d), m2)
                                     \/ Le(Mul(Sq(Mul(d, tb)), Sub(One, Sq(a["sba"]))),
                                           Sq(Mul(Mul(OfInt(16), Eps), Mul(m2, Add(Sq(tb), One)))))),
        I("RoundTripAngle", SbaClose(b["sba"], a["sba"], gap, m2)) >>

Init == l = 1 /\ built = [e |-> "none"] /\ viol = << >> /\ nchecked = 0

TBuilt ==
  /\ l <= NLines /\ TraceLog[l].e = "Built"
  /\ LET ev == TraceLog[l]
         invs == IF ev.exc # "" THEN << >>
                 ELSE StInvs(ev.st, ev.problem) \o (IF ev.basis = "mass" THEN MassInvs(ev.in, ev.st) ELSE GaugeInvs(ev.in, ev.st))
     IN /\ viol' = viol \o Failed(invs, l, ev.sig) /\ nchecked' = nchecked + Len(invs)
        /\ built' = ev
  /\ l' = l + 1

TRebuilt ==
  /\ l <= NLines /\ TraceLog[l].e = "Rebuilt"
  /\ LET ev == TraceLog[l]
         ok == ev.exc = "" /\ built.e = "Built" /\ built.case = ev.case /\ built.exc = ""
         invs == IF ~ok THEN << I("RebuildAccepted", ev.exc = "") >> ELSE RoundTripInvs(built.st, ev.st)
     IN /\ viol' = viol \o Failed(invs, l, ev.sig) /\ nchecked' = nchecked + Len(invs)
  /\ built' = [e |-> "none"] /\ l' = l + 1

Next == TBuilt \/ TRebuilt
Spec == Init /\ [][Next]_vars
Report == l = NLines + 1 => WriteReport(l, viol, [nchecked |-> nchecked])
=============================================================================
