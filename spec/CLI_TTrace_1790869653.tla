---- MODULE CLI_TTrace_1790869653 ----
EXTENDS CLI, Sequences, TLCExt, Toolbox, Naturals, TLC

_expression ==
    LET CLI_TEExpression == INSTANCE CLI_TEExpression
    IN CLI_TEExpression!expression
----

_trace ==
    LET CLI_TETrace == INSTANCE CLI_TETrace
    IN CLI_TETrace!trace
----

_inv ==
    ~(
        TLCGet("level") = Len(_TETrace)
        /\
        readable = (FALSE)
        /\
        stdout = (<<>>)
        /\
        cfg = (<<>>)
        /\
        ci = (1)
        /\
        ai = (2)
        /\
        argv = (<<"gm2calc">>)
        /\
        exit = (1)
        /\
        pc = ("exit")
        /\
        stderrNonEmpty = (FALSE)
        /\
        opts = ([fmt |-> 1, loop |-> 2, tb |-> TRUE, force |-> FALSE, verbose |-> FALSE, unc |-> FALSE, running |-> TRUE])
        /\
        haveSource = (TRUE)
        /\
        itype = ("gm2calc")
        /\
        outcome = ("EInvalidInput")
    )
----

_init ==
    /\ exit = _TETrace[1].exit
    /\ readable = _TETrace[1].readable
    /\ ai = _TETrace[1].ai
    /\ outcome = _TETrace[1].outcome
    /\ ci = _TETrace[1].ci
    /\ pc = _TETrace[1].pc
    /\ itype = _TETrace[1].itype
    /\ stderrNonEmpty = _TETrace[1].stderrNonEmpty
    /\ opts = _TETrace[1].opts
    /\ argv = _TETrace[1].argv
    /\ stdout = _TETrace[1].stdout
    /\ haveSource = _TETrace[1].haveSource
    /\ cfg = _TETrace[1].cfg
----

_next ==
    /\ \E i,j \in DOMAIN _TETrace:
        /\ \/ /\ j = i + 1
              /\ i = TLCGet("level")
        /\ exit  = _TETrace[i].exit
        /\ exit' = _TETrace[j].exit
        /\ readable  = _TETrace[i].readable
        /\ readable' = _TETrace[j].readable
        /\ ai  = _TETrace[i].ai
        /\ ai' = _TETrace[j].ai
        /\ outcome  = _TETrace[i].outcome
        /\ outcome' = _TETrace[j].outcome
        /\ ci  = _TETrace[i].ci
        /\ ci' = _TETrace[j].ci
        /\ pc  = _TETrace[i].pc
        /\ pc' = _TETrace[j].pc
        /\ itype  = _TETrace[i].itype
        /\ itype' = _TETrace[j].itype
        /\ stderrNonEmpty  = _TETrace[i].stderrNonEmpty
        /\ stderrNonEmpty' = _TETrace[j].stderrNonEmpty
        /\ opts  = _TETrace[i].opts
        /\ opts' = _TETrace[j].opts
        /\ argv  = _TETrace[i].argv
        /\ argv' = _TETrace[j].argv
        /\ stdout  = _TETrace[i].stdout
        /\ stdout' = _TETrace[j].stdout
        /\ haveSource  = _TETrace[i].haveSource
        /\ haveSource' = _TETrace[j].haveSource
        /\ cfg  = _TETrace[i].cfg
        /\ cfg' = _TETrace[j].cfg

\* Uncomment the ASSUME below to write the states of the error trace
\* to the given file in Json format. Note that you can pass any tuple
\* to `JsonSerialize`. For example, a sub-sequence of _TETrace.
    \* ASSUME
    \*     LET J == INSTANCE Json
    \*         IN J!JsonSerialize("CLI_TTrace_1790869653.json", _TETrace)

=============================================================================

 Note that you can extract this module `CLI_TEExpression`
  to a dedicated file to reuse `expression` (the module in the 
  dedicated `CLI_TEExpression.tla` file takes precedence 
  over the module `CLI_TEExpression` below).

---- MODULE CLI_TEExpression ----
EXTENDS CLI, Sequences, TLCExt, Toolbox, Naturals, TLC

expression == 
    [
        \* To hide variables of the `CLI` spec from the error trace,
        \* remove the variables below.  The trace will be written in the order
        \* of the fields of this record.
        exit |-> exit
        ,readable |-> readable
        ,ai |-> ai
        ,outcome |-> outcome
        ,ci |-> ci
        ,pc |-> pc
        ,itype |-> itype
        ,stderrNonEmpty |-> stderrNonEmpty
        ,opts |-> opts
        ,argv |-> argv
        ,stdout |-> stdout
        ,haveSource |-> haveSource
        ,cfg |-> cfg
        
        \* Put additional constant-, state-, and action-level expressions here:
        \* ,_stateNumber |-> _TEPosition
        \* ,_exitUnchanged |-> exit = exit'
        
        \* Format the `exit` variable as Json value.
        \* ,_exitJson |->
        \*     LET J == INSTANCE Json
        \*     IN J!ToJson(exit)
        
        \* Lastly, you may build expressions over arbitrary sets of states by
        \* leveraging the _TETrace operator.  For example, this is how to
        \* count the number of times a spec variable changed up to the current
        \* state in the trace.
        \* ,_exitModCount |->
        \*     LET F[s \in DOMAIN _TETrace] ==
        \*         IF s = 1 THEN 0
        \*         ELSE IF _TETrace[s].exit # _TETrace[s-1].exit
        \*             THEN 1 + F[s-1] ELSE F[s-1]
        \*     IN F[_TEPosition - 1]
    ]

=============================================================================



Parsing and semantic processing can take forever if the trace below is long.
 In this case, it is advised to uncomment the module below to deserialize the
 trace from a generated binary file.

\*
\*---- MODULE CLI_TETrace ----
\*EXTENDS CLI, IOUtils, TLC
\*
\*trace == IODeserialize("CLI_TTrace_1790869653.bin", TRUE)
\*
\*=============================================================================
\*

---- MODULE CLI_TETrace ----
EXTENDS CLI, TLC

trace == 
    <<
    ([readable |-> FALSE,stdout |-> <<>>,cfg |-> <<>>,ci |-> 1,ai |-> 1,argv |-> <<"gm2calc">>,exit |-> -1,pc |-> "args",stderrNonEmpty |-> FALSE,opts |-> [fmt |-> 4, loop |-> 2, tb |-> TRUE, force |-> FALSE, verbose |-> FALSE, unc |-> FALSE, running |-> TRUE],haveSource |-> FALSE,itype |-> "slha",outcome |-> "EInvalidInput"]),
    ([readable |-> FALSE,stdout |-> <<>>,cfg |-> <<>>,ci |-> 1,ai |-> 2,argv |-> <<"gm2calc">>,exit |-> -1,pc |-> "args",stderrNonEmpty |-> FALSE,opts |-> [fmt |-> 4, loop |-> 2, tb |-> TRUE, force |-> FALSE, verbose |-> FALSE, unc |-> FALSE, running |-> TRUE],haveSource |-> TRUE,itype |-> "gm2calc",outcome |-> "EInvalidInput"]),
    ([readable |-> FALSE,stdout |-> <<>>,cfg |-> <<>>,ci |-> 1,ai |-> 2,argv |-> <<"gm2calc">>,exit |-> -1,pc |-> "read",stderrNonEmpty |-> FALSE,opts |-> [fmt |-> 1, loop |-> 2, tb |-> TRUE, force |-> FALSE, verbose |-> FALSE, unc |-> FALSE, running |-> TRUE],haveSource |-> TRUE,itype |-> "gm2calc",outcome |-> "EInvalidInput"]),
    ([readable |-> FALSE,stdout |-> <<>>,cfg |-> <<>>,ci |-> 1,ai |-> 2,argv |-> <<"gm2calc">>,exit |-> 1,pc |-> "exit",stderrNonEmpty |-> FALSE,opts |-> [fmt |-> 1, loop |-> 2, tb |-> TRUE, force |-> FALSE, verbose |-> FALSE, unc |-> FALSE, running |-> TRUE],haveSource |-> TRUE,itype |-> "gm2calc",outcome |-> "EInvalidInput"])
    >>
----


=============================================================================

---- CONFIG CLI_TTrace_1790869653 ----
CONSTANTS
    Bug = "silentfail"
    MaxArgs = 2
    MaxCfg = 1
    CfgMode = "seq"

INVARIANT
    _inv

CHECK_DEADLOCK
    \* CHECK_DEADLOCK off because of PROPERTY or INVARIANT above.
    FALSE

INIT
    _init

NEXT
    _next

CONSTANT
    _TETrace <- _trace

ALIAS
    _expression
=============================================================================
\* Generated on Thu Oct 01 15:47:35 UTC 2026