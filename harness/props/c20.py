"""C20 - SM layer: unitary CKM, consistent EW relations, well-behaved running masses."""
import json

import build
import cases
import core
import tlc


def run(tier, seed):
    cx = core.Ctx("C20", tier, seed, "exploration")
    cs = cases.get("C20")
    reps = 25 if tier == "quick" else 1500
    exe = build.driver_build("d_thdm")
    cf = cx.path("cases.txt")
    n = 0
    with open(cf, "w") as fh:
        for rep in range(reps):
            for c in cs:
                fh.write("c%d %s %s\n" % (n, c["kind"], c["cls"]))
                n += 1
    tr = cx.path("trace.ndjson")
    core.run_driver(exe, ["c20", cf, tr])
    shards = tlc.split_trace(tr, 16 if tier == "thorough" else 4, group_key="case")
    for rep in tlc.validate_traces("Trace_C20.tla", shards, jobs=16):
        cx.add_report(rep)
        cx.cov["invariant_evaluations"] = cx.cov.get("invariant_evaluations", 0) + rep["extra"]["nchecked"]
    for ln in open(tr):
        ev = json.loads(ln)
        cx.evaluations += 1
        cx.distinct.add((ev["e"], ev["case"]))
        if ev["e"] == "Ckm" and len(cx.cov["samples"]) < 2:
            cx.sample({"kind": ev["sig"], "input": [core.dy(ev["w%d" % i]) for i in range(4)], "exc": ev["exc"]})
        if ev["e"] == "Run" and ev["k"] == 3 and len(cx.cov["samples"]) < 4:
            cx.sample({"kind": ev["sig"], "Q": core.dy(ev["Q"]), "mt": core.dy(ev["mt"]), "mb": core.dy(ev["mb"]), "mtau": core.dy(ev["mtau"])})
    cx.assumptions += ["composition is checked as m(Q_k)^2 = m(Q_{k-1}) m(Q_{k+1}) on geometric scale ladders",
                       "the boundary value of mt is only bracketed (0.8 mt_pole <= mt(mt_pole) <= mt_pole); mb has its boundary at mt_pole"]
    cx.selftest_corruption("Trace_C20.tla", shards[0], lambda ev: ev["ckm"]["V_re00"] if ev["e"] == "Ckm" and ev["exc"] == "" and ev["cls"] == "inside" else None, "Unitary")
    return cx.finish(rule="random inputs per TLC-enumerated class (Cases.tla: C20Cases: Wolfenstein inside/edge/outside/non-finite, "
                          "angles, electroweak inputs, running-mass ladders incl. alpha_s at the edges, THDM running on/off); "
                          "distinct_nontrivial = distinct (event kind, case)")
