------------------------------ MODULE Trace_C10 ------------------------------
(***************************************************************************)
(* C10 - THDM contributions vanish in the SM limit and decouple with the   *)
(* heavy scale.                                                            *)
(*  SMLimit(case, m, a1L, a2LF, cba, mm, v, alpha)  family over the common *)
(*     value m of m_h = m_hSM at cos(beta-alpha) = 0, running couplings    *)
(*     off; the first member of a family is the reference.  The result     *)
(*     must not depend on m: |a1L(m) - a1L(m0)| <= 1e-9 S(m) + 1e-12 |a1L| *)
(*     with S = m_mu^4 / (8 pi^2 v^2 m^2) the size of one light-Higgs      *)
(*     term (a bound computed here from the logged inputs, 8 pi^2 < 79),   *)
(*     and the analogous Barr-Zee scale alpha m_mu^2 / (8 pi^3 v^2) for    *)
(*     the fermionic two-loop part.                                        *)
(*  Decouple(case, k, M, a1L, a2LF, a2LB, S_1, S_F, S_B)  gauge-basis      *)
(*     point at heavy scale M = 10^(k/2) TeV with m_hSM = m_h: per         *)
(*     component |a(M sqrt10)| <= c max(|a(M)|, S(M)), S = sum of the      *)
(*     magnitudes of the component's documented sub-parts (a total in      *)
(*     which they cancel is not a scale); c = 0.45 as in the property; for *)
(*     the first step 1 -> 3.16 TeV only "does not grow" (c = 1) is        *)
(*     asserted: large-tan(beta) type II/X points, whose light-Higgs       *)
(*     couplings still deviate by cos(beta-alpha) tan(beta) = O(1) at      *)
(*     1 TeV, reach 0.72 there on the unchanged tree and 0.23 afterwards.  *)
(***************************************************************************)
EXTENDS TraceBase, Dyadic

VARIABLES l, ref, prev, viol, nchecked
vars == <<l, ref, prev, viol, nchecked>>
None == [e |-> "none"]

Init == l = 1 /\ ref = None /\ prev = None /\ viol = << >> /\ nchecked = 0

SMInvs(r, ev) ==
  LET d1 == Abs(Sub(ev.a1L, r.a1L))
      dF == Abs(Sub(ev.a2LF, r.a2LF))
      k1 == Mul(OfInt(79), Mul(Sq(ev.v), Sq(ev.m)))            \* 8 pi^2 v^2 m^2 (upper bound)
      mm4 == Sq(Sq(ev.mm))
      kF == Mul(OfInt(249), Sq(ev.v))                            \* 8 pi^3 v^2 (upper bound)
  IN << I("CosZero", Le(Mul(TenPow(12), Abs(ev.cba)), One)),
        I("SMLimit1L", Le(Mul(Mul(d1, k1), TenPow(12)),
                          Add(Mul(TenPow(3), mm4), Mul(Abs(ev.a1L), k1)))),
        I("SMLimit2LF", Le(Mul(Mul(dF, kF), TenPow(12)),
                           Add(Mul(TenPow(6), Mul(ev.alpha, Sq(ev.mm))), Mul(Abs(ev.a2LF), kF)))) >>

TSMLimit ==
  /\ l <= NLines /\ TraceLog[l].e = "SMLimit"
  /\ LET ev == TraceLog[l]
         ok == ev.exc = ""
         isRef == ref.e # "SMLimit" \/ ref.case # ev.case
         invs == IF ~ok \/ isRef THEN << >> ELSE SMInvs(ref, ev)
     IN /\ viol' = viol \o Failed(invs, l, ev.sig) /\ nchecked' = nchecked + Len(invs)
        /\ ref' = IF ok /\ isRef THEN ev ELSE ref
  /\ UNCHANGED prev /\ l' = l + 1

Shrinks(b, a, s, k) == LET sc == Max2(Abs(a), Abs(s))
                       IN IF k = 0 THEN Le(Abs(b), sc)
                          ELSE Le(Mul(OfInt(100), Abs(b)), Mul(OfInt(45), sc))

TDecouple ==
  /\ l <= NLines /\ TraceLog[l].e = "Decouple"
  /\ LET ev == TraceLog[l]
         ok == ev.exc = ""
         chain == ok /\ prev.e = "Decouple" /\ prev.case = ev.case /\ ev.k = prev.k + 1
         fin == ok => AllFin(<<ev.a1L, ev.a2LF, ev.a2LB>>)
         invs == (IF ok THEN << I("Finite", fin) >> ELSE << >>) \o
                 (IF chain /\ fin THEN << I("Decouple1L", Shrinks(ev.a1L, prev.a1L, prev.S_1, prev.k)),
                                         I("DecoupleF", Shrinks(ev.a2LF, prev.a2LF, prev.S_F, prev.k)),
                                         I("DecoupleB", Shrinks(ev.a2LB, prev.a2LB, prev.S_B, prev.k)) >> ELSE << >>)
         \* decade of |a2LB| at this member: e<n> with 10^-n <= |a2LB| < 10^-(n-1) (identifies the known finding K12,
         \* rounding noise of 1e-15 .. 1e-13 at 10 .. 31.6 TeV, against any larger failure to decouple)
         mag == IF ok /\ IsFin(ev.a2LB) /\ \E n \in 5..25 : Le(One, Mul(TenPow(n), Abs(ev.a2LB)))
                THEN CHOOSE n \in 5..25 : Le(One, Mul(TenPow(n), Abs(ev.a2LB))) /\ (n = 5 \/ ~Le(One, Mul(TenPow(n - 1), Abs(ev.a2LB))))
                ELSE 99
     IN /\ viol' = viol \o Failed(invs, l, ev.sig \o "/k" \o ToString(IF chain THEN prev.k ELSE 0) \o "/e" \o ToString(mag))
        /\ nchecked' = nchecked + Len(invs)
        /\ prev' = IF ok THEN ev ELSE None
  /\ UNCHANGED ref /\ l' = l + 1

Next == TSMLimit \/ TDecouple
Spec == Init /\ [][Next]_vars
Report == l = NLines + 1 => WriteReport(l, viol, [nchecked |-> nchecked])
=============================================================================
