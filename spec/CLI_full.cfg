SPECIFICATION Spec
CONSTANTS
  Bug = "none"
  MaxArgs = 1
  MaxCfg = 0
  CfgMode = "full"
INVARIANTS TypeOK ExitStatus Diagnosed StdoutClean ExitAllowed NoDiagnosticOnStdout SlotsAsDocumented DefaultFormat ExitIffRefusedOrProblem
CHECK_DEADLOCK FALSE
