------------------------------- MODULE Dyadic -------------------------------
(***************************************************************************)
(* Exact arithmetic on IEEE doubles (and long-double atoms) inside TLC.     *)
(*                                                                         *)
(* TLC has 32-bit integers and no reals, but the properties of GM2Calc are *)
(* relations between floating-point numbers ("equal to relative 1e-9",     *)
(* "parts add up to the total", "at least the floor 2.3e-10").  So that    *)
(* the *specification* - not the harness - decides those relations, every  *)
(* number observed from the implementation is logged losslessly as         *)
(*                                                                         *)
(*    [k |-> "fin", s |-> sign in {-1,0,1}, q |-> Int, m |-> limbs]        *)
(*       value = s * (SUM_i m[i] * B^(i-1)) * B^q ,   B = 2^15             *)
(*    [k |-> "nan", ...]   [k |-> "inf", s |-> +-1, ...]                   *)
(*                                                                         *)
(* (little-endian limbs, top limb non-zero, s = 0 iff m = <<>>).  The      *)
(* exponent is a multiple of 15 bits so that alignment is a limb shift.    *)
(* All operators below are exact; rational tolerances are given as a       *)
(* numerator/denominator pair of dyadics (or small integers).              *)
(***************************************************************************)
EXTENDS Integers, Sequences

B == 32768

----------------------------------------------------------------------------
(* Naturals as little-endian limb sequences                                 *)

NatZero == << >>

RECURSIVE NatNorm(_)
NatNorm(a) == IF a = << >> THEN a
              ELSE IF a[Len(a)] = 0 THEN NatNorm(SubSeq(a, 1, Len(a) - 1)) ELSE a

NatCmp(a, b) ==      \* -1, 0, 1 ; a, b normalised
  IF Len(a) # Len(b) THEN (IF Len(a) < Len(b) THEN -1 ELSE 1)
  ELSE LET RECURSIVE go(_)
           go(i) == IF i = 0 THEN 0
                    ELSE IF a[i] < b[i] THEN -1
                    ELSE IF a[i] > b[i] THEN 1 ELSE go(i - 1)
       IN go(Len(a))

NatAdd(a, b) ==
  LET n == IF Len(a) > Len(b) THEN Len(a) ELSE Len(b)
      RECURSIVE go(_, _, _)
      go(i, c, acc) ==
         IF i > n THEN (IF c = 0 THEN acc ELSE Append(acc, c))
         ELSE LET t == (IF i <= Len(a) THEN a[i] ELSE 0)
                     + (IF i <= Len(b) THEN b[i] ELSE 0) + c
              IN go(i + 1, t \div B, Append(acc, t % B))
  IN go(1, 0, << >>)

NatSub(a, b) ==      \* requires a >= b
  LET RECURSIVE go(_, _, _)
      go(i, br, acc) ==
         IF i > Len(a) THEN NatNorm(acc)
         ELSE LET t == a[i] - (IF i <= Len(b) THEN b[i] ELSE 0) - br
              IN IF t < 0 THEN go(i + 1, 1, Append(acc, t + B))
                          ELSE go(i + 1, 0, Append(acc, t))
  IN go(1, 0, << >>)

NatMulSmall(a, c) ==   \* 0 <= c < B
  IF c = 0 \/ a = << >> THEN << >>
  ELSE LET RECURSIVE go(_, _, _)
           go(i, cy, acc) ==
              IF i > Len(a) THEN (IF cy = 0 THEN acc ELSE Append(acc, cy))
              ELSE LET t == a[i] * c + cy
                   IN go(i + 1, t \div B, Append(acc, t % B))
       IN go(1, 0, << >>)

NatShl(a, n) == IF a = << >> \/ n = 0 THEN a ELSE [i \in 1..n |-> 0] \o a

NatMul(a, b) ==
  IF a = << >> \/ b = << >> THEN << >>
  ELSE LET RECURSIVE go(_, _)
           go(j, acc) == IF j > Len(b) THEN acc
                         ELSE go(j + 1, NatAdd(acc, NatShl(NatMulSmall(a, b[j]), j - 1)))
       IN go(1, << >>)

RECURSIVE NatOfInt(_)
NatOfInt(n) == IF n = 0 THEN << >> ELSE <<n % B>> \o NatOfInt(n \div B)

----------------------------------------------------------------------------
(* Dyadic values                                                            *)

Fin(s, q, m) == [k |-> "fin", s |-> s, q |-> q, m |-> m]
Zero   == Fin(0, 0, << >>)
NaN    == [k |-> "nan", s |-> 0, q |-> 0, m |-> << >>]
Inf(s) == [k |-> "inf", s |-> s, q |-> 0, m |-> << >>]

IsFin(a) == a.k = "fin"
IsNaN(a) == a.k = "nan"
IsInf(a) == a.k = "inf"

MkFin(s, q, m) == LET n == NatNorm(m) IN IF n = << >> THEN Zero ELSE Fin(s, q, n)

OfInt(n) == IF n = 0 THEN Zero
            ELSE IF n > 0 THEN Fin(1, 0, NatOfInt(n)) ELSE Fin(-1, 0, NatOfInt(-n))

One == OfInt(1)
Two == OfInt(2)
Ten == OfInt(10)

Neg(a) == [a EXCEPT !.s = -a.s]
Abs(a) == [a EXCEPT !.s = IF a.s = 0 THEN 0 ELSE 1]
Sgn(a) == a.s

\* mantissa of a expressed at exponent q <= a.q
AlignM(a, q) == NatShl(a.m, a.q - q)

Cmp(a, b) ==        \* finite a, b: -1, 0, 1
  IF a.s # b.s THEN (IF a.s < b.s THEN -1 ELSE 1)
  ELSE IF a.s = 0 THEN 0
  ELSE LET q == IF a.q < b.q THEN a.q ELSE b.q
           c == NatCmp(AlignM(a, q), AlignM(b, q))
       IN a.s * c

Lt(a, b) == Cmp(a, b) < 0
Le(a, b) == Cmp(a, b) <= 0
Eq(a, b) == Cmp(a, b) = 0      \* numerical equality (+0 = -0)

Add(a, b) ==
  IF a.s = 0 THEN b ELSE IF b.s = 0 THEN a
  ELSE LET q  == IF a.q < b.q THEN a.q ELSE b.q
           ma == AlignM(a, q)
           mb == AlignM(b, q)
       IN IF a.s = b.s THEN Fin(a.s, q, NatAdd(ma, mb))
          ELSE LET c == NatCmp(ma, mb)
               IN IF c = 0 THEN Zero
                  ELSE IF c > 0 THEN MkFin(a.s, q, NatSub(ma, mb))
                  ELSE MkFin(b.s, q, NatSub(mb, ma))

Sub(a, b) == Add(a, Neg(b))

Mul(a, b) == IF a.s = 0 \/ b.s = 0 THEN Zero
             ELSE Fin(a.s * b.s, a.q + b.q, NatMul(a.m, b.m))

Sq(a) == Mul(a, a)

RECURSIVE Pow(_, _)
Pow(a, n) == IF n = 0 THEN One ELSE Mul(a, Pow(a, n - 1))

Max2(a, b) == IF Cmp(a, b) >= 0 THEN a ELSE b
Min2(a, b) == IF Cmp(a, b) <= 0 THEN a ELSE b

RECURSIVE SumSeq(_)
SumSeq(xs) == IF xs = << >> THEN Zero ELSE Add(Head(xs), SumSeq(Tail(xs)))

RECURSIVE SumAbsSeq(_)
SumAbsSeq(xs) == IF xs = << >> THEN Zero ELSE Add(Abs(Head(xs)), SumAbsSeq(Tail(xs)))

AllFin(xs) == \A i \in DOMAIN xs : IsFin(xs[i])

\* 2^n as a dyadic, any integer n
PowTwo(n) == LET qq == IF n >= 0 THEN n \div 15 ELSE -((-n + 14) \div 15)
                 r  == n - 15 * qq
                 RECURSIVE p2(_)
                 p2(k) == IF k = 0 THEN 1 ELSE 2 * p2(k - 1)
             IN Fin(1, qq, <<p2(r)>>)

\* double-precision machine epsilon 2^-52
Eps == PowTwo(-52)

----------------------------------------------------------------------------
(* Relations with rational tolerances  tol = tn / td  (tn, td dyadics > 0)  *)

\* |a - b| <= (tn/td) * r        <=>   td * |a-b| <= tn * r
WithinRat(a, b, tn, td, r) == Le(Mul(td, Abs(Sub(a, b))), Mul(tn, r))

\* relative closeness  |a-b| <= (tn/td) * max(|a|,|b|)
RelClose(a, b, tn, td) == WithinRat(a, b, tn, td, Max2(Abs(a), Abs(b)))

\* relative closeness with an absolute floor: |a-b| <= (tn/td) * max(|a|,|b|,floor)
RelCloseFloor(a, b, tn, td, floor) ==
   WithinRat(a, b, tn, td, Max2(Max2(Abs(a), Abs(b)), floor))

\* a <= (n/d) * b   for finite a, b and positive d
LeRat(a, n, d, b) == Le(Mul(d, a), Mul(n, b))

\* decimal power 10^n as dyadic (n >= 0)
TenPow(n) == Pow(Ten, n)

\* bit equality of two logged numbers (distinguishes nothing but value & kind;
\* the sign of zero is carried in s only for non-zero values, so -0 = +0 here)
SameValue(a, b) == /\ a.k = b.k
                   /\ (a.k = "fin" => Cmp(a, b) = 0)
                   /\ (a.k = "inf" => a.s = b.s)

\* a decimal literal  d * 10^e  (d integer, e integer) compared without division:
\* returns numerator/denominator dyadics
DecN(d, e) == IF e >= 0 THEN Mul(OfInt(d), TenPow(e)) ELSE OfInt(d)
DecD(d, e) == IF e >= 0 THEN One ELSE TenPow(-e)

=============================================================================
