------------------------------ MODULE Trace_C12 ------------------------------
(***************************************************************************)
(* C12 - matrix decompositions satisfy their documented factorisation      *)
(* contracts.  One event per call of a template of gm2_linalg.hpp:         *)
(*   Decomp(routine, scalar, n, m, s, u, [v], s_errbd, u_errbd, v_errbd)   *)
(* matrices are row-major sequences of <<re, im>> pairs.  The contract of  *)
(* each routine (documentation comments of gm2_linalg.hpp):                *)
(*   fs_svd                         m = u^T diag(s) v,   s >= 0 ascending  *)
(*   svd / reorder_svd              m = u diag(s) vh,    descending / asc. *)
(*   fs_diagonalize_hermitian       m = z^+ diag(w) z,   |w| ascending     *)
(*   diagonalize_hermitian          m = z diag(w) z^+,   w ascending       *)
(*   fs_diagonalize_symmetric       m = u^T diag(s) u,   s >= 0 ascending  *)
(*   reorder_diagonalize_symmetric  m = u diag(s) u^T,   s >= 0 ascending  *)
(*   diagonalize_symmetric          m = u diag(s) u^T,   s >= 0 (complex   *)
(*                                  input: descending; real: unspecified)  *)
(* with unitary factors and finite, non-negative error bounds.             *)
(* Products are evaluated exactly (Dyadic.tla); the residual is measured   *)
(* against c eps n max|m_ik| - relative to the matrix norm, never to small *)
(* entries.  c = 512 (observed <= 29 on the unchanged tree), except for    *)
(* real 3x3 hermitian/symmetric input, where the templates use Eigen's     *)
(* closed-form computeDirect (documented as less accurate; observed        *)
(* 1.1e7 eps for exactly degenerate spectra): c = 2^27.                    *)
(***************************************************************************)
EXTENDS TraceBase, Dyadic

VARIABLES l, viol, nchecked
vars == <<l, viol, nchecked>>

\* complex numbers as <<re, im>>
CZero == <<Zero, Zero>>
CAdd(a, b) == <<Add(a[1], b[1]), Add(a[2], b[2])>>
CSub(a, b) == <<Sub(a[1], b[1]), Sub(a[2], b[2])>>
CMul(a, b) == <<Sub(Mul(a[1], b[1]), Mul(a[2], b[2])), Add(Mul(a[1], b[2]), Mul(a[2], b[1]))>>
CScale(a, r) == <<Mul(a[1], r), Mul(a[2], r)>>
Conj(a) == <<a[1], Neg(a[2])>>
E(A, n, i, k) == A[(i - 1) * n + k]

RECURSIVE CSum(_, _, _)
CSum(f(_), j, n) == IF j > n THEN CZero ELSE CAdd(f(j), CSum(f, j + 1, n))

\* reconstruction entry (i, k) according to the routine's convention
Rec(ev, i, k) ==
  LET n == ev.n  u == ev.u  s == ev.s
      T(j) == CASE ev.routine \in {"fs_svd", "fs_svd_rc"} -> CScale(CMul(E(u, n, j, i), E(ev.v, n, j, k)), s[j])
                [] ev.routine \in {"svd", "reorder_svd"} -> CScale(CMul(E(u, n, i, j), E(ev.v, n, j, k)), s[j])
                [] ev.routine = "fs_diagonalize_hermitian" -> CScale(CMul(Conj(E(u, n, j, i)), E(u, n, j, k)), s[j])
                [] ev.routine = "diagonalize_hermitian" -> CScale(CMul(E(u, n, i, j), Conj(E(u, n, k, j))), s[j])
                [] ev.routine = "fs_diagonalize_symmetric" -> CScale(CMul(E(u, n, j, i), E(u, n, j, k)), s[j])
                [] OTHER -> CScale(CMul(E(u, n, i, j), E(u, n, k, j)), s[j])
  IN CSum(T, 1, n)

\* (A A^+)_{ik}
UU(A, n, i, k) == LET T(j) == CMul(E(A, n, i, j), Conj(E(A, n, k, j))) IN CSum(T, 1, n)

RECURSIVE MaxAbs(_, _)
MaxAbs(A, i) == IF i > Len(A) THEN Zero ELSE Max2(Max2(Abs(A[i][1]), Abs(A[i][2])), MaxAbs(A, i + 1))

FinM(A) == \A i \in DOMAIN A : IsFin(A[i][1]) /\ IsFin(A[i][2])

Direct3(ev) == ev.n = 3 /\ ev.scalar = "real" /\ ev.routine \in {"fs_diagonalize_hermitian", "diagonalize_hermitian",
                   "fs_diagonalize_symmetric", "reorder_diagonalize_symmetric", "diagonalize_symmetric"}
Tol(ev) == IF Direct3(ev) THEN PowTwo(27 - 52) ELSE PowTwo(9 - 52)

Small(c, bound) == Le(Abs(c[1]), bound) /\ Le(Abs(c[2]), bound)

Invs(ev) ==
  LET n == ev.n
      idx == 1..n
      fin == FinM(ev.m) /\ FinM(ev.u) /\ (Has(ev, "v") => FinM(ev.v)) /\ AllFin(ev.s)
      scale == Mul(OfInt(n), MaxAbs(ev.m, 1))
      tolR == Mul(Tol(ev), scale)
      tolU == Mul(Tol(ev), OfInt(n))
      asc(f(_)) == \A i \in 1..(n - 1) : Le(f(i), f(i + 1))
      sAbs(i) == Abs(ev.s[i])
      sVal(i) == ev.s[i]
      sNeg(i) == Neg(ev.s[i])
      isHerm == ev.routine \in {"fs_diagonalize_hermitian", "diagonalize_hermitian"}
      ebs == <<ev.s_errbd>> \o ev.u_errbd \o (IF Has(ev, "v") THEN ev.v_errbd ELSE << >>)
  IN << I("FiniteFactors", fin),
        I("Reconstructs", fin => \A i \in idx, k \in idx : Small(CSub(Rec(ev, i, k), E(ev.m, n, i, k)), tolR)),
        I("UnitaryU", fin => \A i \in idx, k \in idx :
                        Small(CSub(UU(ev.u, n, i, k), IF i = k THEN <<One, Zero>> ELSE CZero), tolU)),
        I("UnitaryV", (fin /\ Has(ev, "v")) => \A i \in idx, k \in idx :
                        Small(CSub(UU(ev.v, n, i, k), IF i = k THEN <<One, Zero>> ELSE CZero), tolU)),
        I("NonNegative", (fin /\ ~isHerm) => \A i \in idx : Sgn(ev.s[i]) >= 0),
        I("Ordered", fin => CASE ev.routine = "svd" -> asc(sNeg)
                              [] ev.routine = "diagonalize_hermitian" -> asc(sVal)
                              [] ev.routine = "diagonalize_symmetric" -> (ev.scalar = "complex" => asc(sNeg))
                              [] OTHER -> asc(sAbs)),
        I("ErrorBounds", \A i \in DOMAIN ebs : IsFin(ebs[i]) /\ Sgn(ebs[i]) >= 0) >>

Init == l = 1 /\ viol = << >> /\ nchecked = 0

TDecomp ==
  /\ l <= NLines /\ TraceLog[l].e = "Decomp"
  /\ LET ev == TraceLog[l] invs == Invs(ev)
     IN viol' = viol \o Failed(invs, l, ev.sig) /\ nchecked' = nchecked + Len(invs)
  /\ l' = l + 1

Next == TDecomp
Spec == Init /\ [][Next]_vars
Report == l = NLines + 1 => WriteReport(l, viol, [nchecked |-> nchecked])
=============================================================================
