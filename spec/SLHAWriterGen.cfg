SPECIFICATION Spec
CONSTANT Variant = "asis"
