"""Random valid parameter points and their input-file renderings (concretisation, seeded)."""
import math


def logu(rnd, a, b):
    return math.exp(rnd.uniform(math.log(a), math.log(b)))


def random_mssm(rnd, lo=300, hi=2000, tb_lo=3, tb_hi=50):
    """a valid point: the left-right mixing entries m_f (A_f - mu tan(beta)) (resp. cot(beta)) stay below a fifth of
    m_L m_R in every sfermion sector, so that no tachyon arises from the random choice itself"""
    while True:
        p = _random_mssm(rnd, lo, hi, tb_lo, tb_hi)
        tb, mu = p["TB"], p["Mu"]
        ok = True
        for i, (ml_, mdn, mup) in enumerate(((0.000511, 0.0047, 0.0022), (p["Mm"], 0.096, 1.28), (p["Mtau"], p["Mb"], p["Mt"]))):
            ok &= ml_ * abs(p["Ae"][i] - mu * tb) < 0.2 * p["ml"][i] * p["me"][i]
            ok &= mdn * abs(p["Ad"][i] - mu * tb) < 0.2 * p["mq"][i] * p["md"][i]
            ok &= mup * abs(p["Au"][i] - mu / tb) < 0.2 * p["mq"][i] * p["mu"][i]
        if ok:
            return p


def _random_mssm(rnd, lo=300, hi=2000, tb_lo=3, tb_hi=50):
    sgn = lambda: rnd.choice([-1.0, 1.0])
    p = {"aMZ": 0.00775531, "a0": 0.00729735, "as": 0.1184, "Mt": 173.34, "Mb": 4.18, "Mm": 0.1056583715,
         "Mtau": 1.777, "MW": 80.385, "MZ": 91.1876}
    p["TB"] = logu(rnd, tb_lo, tb_hi)
    p["Mu"] = sgn() * logu(rnd, lo, hi)
    p["M1"] = sgn() * logu(rnd, lo, hi)
    p["M2"] = sgn() * logu(rnd, lo, hi)
    p["M3"] = sgn() * logu(rnd, 2 * lo, 2 * hi)
    p["MA0"] = logu(rnd, lo, hi)
    for n in ("ml", "me"):
        p[n] = [logu(rnd, lo, hi) for _ in range(3)]
    for n in ("mq", "mu", "md"):
        p[n] = [logu(rnd, 1.5 * lo, 2 * hi) for _ in range(3)]
    p["Ae"] = [sgn() * rnd.uniform(0, 1) * min(p["ml"][i], p["me"][i]) for i in range(3)]
    p["Au"] = [sgn() * rnd.uniform(0, 1) * min(p["mq"][i], p["mu"][i]) for i in range(3)]
    p["Ad"] = [sgn() * rnd.uniform(0, 1) * min(p["mq"][i], p["md"][i]) for i in range(3)]
    p["Q"] = math.sqrt(p["mq"][2] * p["mu"][2])
    return p


def g(x):
    return repr(float(x))


def write_gm2calc(p):
    o = ["Block SMINPUTS", "  3  %s" % g(p["as"]), "  4  %s" % g(p["MZ"]), "  5  %s" % g(p["Mb"]), "  6  %s" % g(p["Mt"]),
         "  7  %s" % g(p["Mtau"]), "  9  %s" % g(p["MW"]), " 13  %s" % g(p["Mm"]),
         "Block GM2CalcInput", "  0  %s" % g(p["Q"]), "  1  %s" % g(p["aMZ"]), "  2  %s" % g(p["a0"]), "  3  %s" % g(p["TB"]),
         "  4  %s" % g(p["Mu"]), "  5  %s" % g(p["M1"]), "  6  %s" % g(p["M2"]), "  7  %s" % g(p["M3"]), "  8  %s" % g(p["MA0"])]
    k = 9
    for n in ("ml", "me", "mq", "mu", "md"):
        for i in range(3):
            o.append(" %2d  %s" % (k, g(p[n][i])))
            k += 1
    for n in ("Ae", "Ad", "Au"):
        for i in range(3):
            o.append(" %2d  %s" % (k, g(p[n][i])))
            k += 1
    return "\n".join(o) + "\n"


def mssm_defects(p, D):
    """apply documented defects (Defects.tla names) to a GM2Calc-format point"""
    p = dict(p, **{k: list(v) for k, v in p.items() if isinstance(v, list)})
    if "MWgeMZ" in D: p["MW"] = p["MZ"] * 1.01
    if "MW0" in D: p["MW"] = 0.0
    if "MZ0" in D: p["MZ"] = 0.0
    if "MM0" in D: p["Mm"] = 0.0
    if "Mu0" in D: p["Mu"] = 0.0
    if "M10" in D: p["M1"] = 0.0
    if "M20" in D: p["M2"] = 0.0
    if "TB0" in D: p["TB"] = 0.0
    if "TBinf" in D: p["TB"] = 1e308
    if "negSoft_mq2_0" in D: p["mq"][0] = -p["mq"][0]
    if "negSoft_mu2_2" in D: p["mu"][2] = -p["mu"][2]
    if "negSoft_md2_0" in D: p["md"][0] = -p["md"][0]
    if "negSoft_ml2_1" in D: p["ml"][1] = -p["ml"][1]
    if "negSoft_me2_2" in D: p["me"][2] = -p["me"][2]
    if "tach_St" in D: p["Au"][2] = 40 * math.sqrt(abs(p["mq"][2] * p["mu"][2]))
    if "tach_Sb" in D: p["Ad"][2] = 3000 * math.sqrt(abs(p["mq"][2] * p["md"][2]))
    if "tach_Stau" in D: p["Ae"][2] = 8000 * math.sqrt(abs(p["ml"][2] * p["me"][2]))
    if "tach_Sm" in D: p["Ae"][1] = 200000 * math.sqrt(abs(p["ml"][1] * p["me"][1]))
    return p


SLHA_DEFECT_BLOCKS = {
    "MWgeMZ": "Block SMINPUTS\n  9  1.0e2\nBlock MASS\n  24  1.0e2\n",
    "MW0": "Block SMINPUTS\n  9  0\n",          # MASS[24] = 0 is ignored by design: remove the MASS[24] entry
    "MZ0": "Block SMINPUTS\n  4  0\n",
    "MM0": "Block SMINPUTS\n  13  0\n",
    "Mu0": "Block HMIX Q= 1.00000000e+03\n  1  0\n",
    "M10": "Block MSOFT Q= 1.00000000e+03\n  1  0\n",
    "M20": "Block MSOFT Q= 1.00000000e+03\n  2  0\n",
    "TB0": "Block HMIX Q= 1.00000000e+03\n  2  0\n",
    "TBinf": "Block HMIX Q= 1.00000000e+03\n  2  1e308\n",
    "negSoft_mq2_0": "Block MSOFT Q= 1.00000000e+03\n  41  -7.0e3\n",
    "negSoft_mu2_2": "Block MSOFT Q= 1.00000000e+03\n  46  -7.0e3\n",
    "negSoft_md2_0": "Block MSOFT Q= 1.00000000e+03\n  47  -7.0e3\n",
    # MSOFT[32] (mmuL) is documented as irrelevant in SLHA format (ml2(2,2) is fitted to the sneutrino
    # pole mass); the slepton-doublet defect is therefore put into the first generation
    "negSoft_ml2_1": "Block MSOFT Q= 1.00000000e+03\n  31  -5.0e2\n",
    "negSoft_me2_2": "Block MSOFT Q= 1.00000000e+03\n  36  -3.0e3\n",
    "tach_St": "Block AU Q= 1.00000000e+03\n  3 3  4.0e5\n",
    "tach_Sb": "Block AD Q= 1.00000000e+03\n  3 3  3.0e7\n",
    "tach_Stau": "Block AE Q= 1.00000000e+03\n  3 3  3.0e7\n",
    "tach_Sm": "Block AE Q= 1.00000000e+03\n  2 2  2.0e8\n",
}


def random_thdm(rnd):
    p = {"type": rnd.randint(1, 6)}
    p["mh"] = 125.0 if rnd.random() < 0.5 else logu(rnd, 20, 300)
    p["mH"] = p["mh"] + logu(rnd, 5, 1500)
    p["mA"] = logu(rnd, 20, 2000)
    p["mHp"] = logu(rnd, 80, 2000)
    p["sba"] = 1.0 - logu(rnd, 1e-6, 2e-2)
    p["l6"] = rnd.uniform(-0.5, 0.5)
    p["l7"] = rnd.uniform(-0.5, 0.5)
    p["tb"] = logu(rnd, 0.3, 60)
    p["m122"] = p["mA"] ** 2 * p["tb"] / (1 + p["tb"] ** 2) * rnd.uniform(0.5, 1.5)
    p["zeta"] = [rnd.uniform(-1.5, 1.5), rnd.uniform(-50, 50), rnd.uniform(-100, 100)] if p["type"] == 5 else [0, 0, 0]
    p["lam"] = None
    return p


def thdm_defects(p, D):
    p = dict(p)
    if "tb0" in D: p["tb"] = 0.0
    if "tbneg" in D: p["tb"] = -p["tb"]
    if "mhgtmH" in D: p["mh"] = p["mH"] * 1.5
    if "sba_gt1" in D: p["sba"] = 1.5
    if "neg_mh" in D: p["mh"] = -p["mh"]
    if "neg_mH" in D: p["mH"] = -p["mH"]
    if "neg_mA" in D: p["mA"] = -p["mA"]
    if "neg_mHp" in D: p["mHp"] = -p["mHp"]
    if "badtype" in D: p["type"] = 7
    if "tach_gauge" in D:
        p["lam"] = [-5.0, 0.6, 0.5, 0.4, 0.3, 0.2, 0.1]
        p["m122"] = -40000.0
    if "undecidable" in D:
        p["lam"] = [0.7, 0.6, 0.5, 0.4, 0.3, p["l6"], p["l7"]]
        p["keepmass"] = True
    return p


def write_thdm(p):
    o = ["Block SMINPUTS", "  1  128.94579", "  3  0.1184", "  4  91.1876", "  5  4.18", "  6  173.34", "  7  1.77684",
         "  9  80.385", " 13  0.1056583715", " 24  1.28", "Block GM2CalcInput", " 33  125.09",
         "Block MINPAR", "  3  %s" % g(p["tb"]), " 18  %s" % g(p["m122"]), " 21  %s" % g(p["zeta"][0]),
         " 22  %s" % g(p["zeta"][1]), " 23  %s" % g(p["zeta"][2]), " 24  %d" % p["type"]]
    if p.get("lam") is not None:
        for i, v in enumerate(p["lam"]):
            o.append(" %d  %s" % (11 + i, g(v)))
    if p.get("lam") is None or p.get("keepmass"):
        if p.get("lam") is None:
            o += [" 16  %s" % g(p["l6"]), " 17  %s" % g(p["l7"])]
        o += [" 20  %s" % g(p["sba"]), "Block MASS", " 25  %s" % g(p["mh"]), " 35  %s" % g(p["mH"]),
              " 36  %s" % g(p["mA"]), " 37  %s" % g(p["mHp"])]
    return "\n".join(o) + "\n"
