------------------------------- MODULE CLIGen -------------------------------
(***************************************************************************)
(* Case generation for the program-level checks: environments of CLI.tla   *)
(* (argument vector, readability, GM2CalcConfig entries, input class).     *)
(***************************************************************************)
EXTENDS CLIDefs, Json, IOUtils, Randomization

NRand == atoi(IOEnv.GEN_NRAND)

SeqsUpTo(S, n) == UNION {[1..k -> S] : k \in 0..n}
WF == {e \in CfgEntry : WellFormedEntry(e)}
B2I(b) == IF b THEN 1 ELSE 0
FullCfg(o) == << [k |-> 0, v |-> o.fmt, c |-> "ok"], [k |-> 1, v |-> o.loop, c |-> "ok"],
                 [k |-> 2, v |-> B2I(o.tb), c |-> "ok"], [k |-> 3, v |-> B2I(o.force), c |-> "ok"],
                 [k |-> 4, v |-> B2I(o.verbose), c |-> "ok"], [k |-> 5, v |-> B2I(o.unc), c |-> "ok"],
                 [k |-> 6, v |-> B2I(o.running), c |-> "ok"] >>

Case(av, rd, cf, b) == [argv |-> av, readable |-> rd, cfg |-> cf, outcome |-> b]

\* A: every argument vector up to length 2 (and a sample of length 3), readable or not
A == {Case(av, rd, << >>, "ok") : av \in SeqsUpTo(ArgTok, 2), rd \in BOOLEAN}
     \cup {Case(<<RandomElement(ArgTok), RandomElement(ArgTok), RandomElement(ArgTok)>>, TRUE, << >>, "ok") : j \in 1..40}
\* B: every single configuration entry (valid, invalid, not a number, unknown key) x input class x type
B == {Case(<<t>>, TRUE, cf, b) : t \in InTypes, cf \in SeqsUpTo(WF, 1), b \in BaseClasses}
\* C: random entry sequences of length 2..4 (later entries override, errors stop the fill)
RandCfg(n) == [i \in 1..n |-> RandomElement(WF)]
C == {Case(<<RandomElement(InTypes)>>, TRUE, RandCfg(2 + (j % 3)), RandomElement(BaseClasses)) : j \in 1..NRand}
\* D: complete option vectors (all 480 in the thorough tier: GEN_ALLOPTS = 1)
OptSet == IF IOEnv.GEN_ALLOPTS = "1" THEN Opts ELSE RandomSubset(40, Opts)
D == {Case(<<t>>, TRUE, FullCfg(o), b) : t \in InTypes, o \in OptSet, b \in {"ok", "tachyon", "forceable"}}

VARIABLE x
Init == x = 0
Next == UNCHANGED x
Spec == Init /\ [][Next]_x
ASSUME JsonSerialize(IOEnv.GEN_OUT, [cases |-> A \cup B \cup C \cup D])
=============================================================================
