"""C18 - uncertainty estimates are finite, non-negative and ordered as documented."""
import json
import os

import build
import core
import tlc
import cases


def run(tier, seed):
    cx = core.Ctx("C18", tier, seed, "exploration")
    per = 40 if tier == "quick" else 1500
    cs = cases.get("C18")                    # TLC-enumerated abstract classes
    traces = []
    for model, drv in (("mssm", "d_mssm"), ("thdm", "d_thdm")):
        exe = build.driver_build(drv)
        cf = cx.path("cases_%s.txt" % model)
        n = 0
        with open(cf, "w") as fh:
            for c in cs:
                if c["model"] != model:
                    continue
                for j in range(per):
                    fh.write("%s_%s_%d %s\n" % (model, c["cls"], j, c["cls"]))
                    n += 1
        tr = cx.path("trace_%s.ndjson" % model)
        core.run_driver(exe, ["c18", cf, tr])
        traces += tlc.split_trace(tr, 8 if tier == "thorough" else 2)
    for rep in tlc.validate_traces("Trace_C18.tla", traces):
        cx.add_report(rep)
    # coverage accounting from the traces themselves
    for t in traces:
        for ln in open(t):
            ev = json.loads(ln)
            cx.evaluations += 1
            if ev.get("exc") == "" and ev["a1L"]["k"] == "fin":
                cx.distinct.add((ev["model"], tuple(ev["a1L"]["b"]), tuple(ev["a2L"]["b"])))
                if len(cx.cov["samples"]) < 4:
                    cx.sample({"case": ev["case"], "a1L": core.dy(ev["a1L"]), "a2L": core.dy(ev["a2L"]),
                               "u0": core.dy(ev["u0"]), "u1": core.dy(ev["u1"]), "u2": core.dy(ev["u2"])})
    cx.assumptions += ["lossless limb encoding of doubles (harness/drv/trace.hpp)",
                       "TLC evaluates Trace_C18.tla invariants exactly (Dyadic.tla)"]
    cx.selftest_corruption("Trace_C18.tla", traces[0], lambda ev: ev["u1"] if ev["e"] == "Unc" and ev["exc"] == "" else None, "Unc1LDef")
    return cx.finish(rule="random MSSM/THDM models per TLC-enumerated class (Cases.tla: C18Cases); a case is "
                          "non-trivial when the model was built without exception and a_mu is finite; distinct "
                          "= distinct (model, bits of a1L, bits of a2L)")
