SPECIFICATION Spec
CONSTANT BugC = "clearall"
INVARIANTS ConvergedOrWarned WarnOnlyIfNotConverged LoopBound
PROPERTY FlagsIndependent
CHECK_DEADLOCK FALSE
