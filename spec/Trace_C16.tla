------------------------------ MODULE Trace_C16 ------------------------------
(***************************************************************************)
(* C16 - unphysical input is rejected or flagged, never silently computed. *)
(* One event per execution:                                                *)
(*   Defect(model, entry, fmt, force, D, exc, code, warned, problem,       *)
(*          finite, exit, physics)                                         *)
(* entry = "cpp" (library API), "c" (C API), "cli" (gm2calc.x).  The rules *)
(* are the predicates of Defects.tla.  Under force-output the calculation  *)
(* must proceed (with a warning or a flagged problem) for every defect     *)
(* outside Defects!NotLiftable; what is never accepted is a result that    *)
(* is neither refused, nor flagged as problem, nor accompanied by a        *)
(* warning.                                                                *)
(***************************************************************************)
EXTENDS TraceBase, Defects

VARIABLES l, viol, nchecked
vars == <<l, viol, nchecked>>

ToSet(s) == {s[i] : i \in DOMAIN s}

Init == l = 1 /\ viol = << >> /\ nchecked = 0

TDefect ==
  /\ l <= NLines /\ TraceLog[l].e = "Defect"
  /\ LET ev == TraceLog[l]
         o == [model |-> ev.model, entry |-> ev.entry, force |-> ev.force, D |-> ToSet(ev.D),
               refused |-> ev.refused, exc |-> ev.exc, code |-> ev.code, warned |-> ev.warned,
               problem |-> ev.problem, finite |-> ev.finite, exit |-> ev.exit, physics |-> ev.physics]
         invs == << I("KnownDefects", o.D \subseteq (MSSMDefects \cup THDMDefects \cup CLIOnlyDefects)),
                    I("RefusedWithoutForce", RefusedWithoutForce(o)),
                    I("ProceedsUnderForce", ProceedsUnderForce(o)),
                    I("DocumentedClass", DocumentedClass(o)),
                    I("NeverSilent", NeverSilent(o)),
                    I("QuietMeansFinite", QuietMeansFinite(o)),
                    I("ValidAccepted", ValidAccepted(o)),
                    I("ExitStatus", ExitStatus(o)) >>
     IN /\ viol' = viol \o Failed(invs, l, ev.sig) /\ nchecked' = nchecked + Len(invs)
  /\ l' = l + 1

Next == TDefect
Spec == Init /\ [][Next]_vars
Report == l = NLines + 1 => WriteReport(l, viol, [nchecked |-> nchecked])
=============================================================================
