"""C10 - THDM contributions vanish in the SM limit and decouple with the heavy scale."""
import json

import build
import cases
import core
import tlc


def run(tier, seed):
    cx = core.Ctx("C10", tier, seed, "exploration")
    cs = cases.get("C10")
    reps = 4 if tier == "quick" else 120
    exe = build.driver_build("d_thdm")
    cf = cx.path("cases.txt")
    n = 0
    with open(cf, "w") as fh:
        for rep in range(reps):
            for c in cs:
                fh.write("c%d %s %d %s\n" % (n, c["kind"], c["ytype"], c["tb"]))
                n += 1
    tr = cx.path("trace.ndjson")
    core.run_driver(exe, ["c10", cf, tr])
    shards = tlc.split_trace(tr, 16 if tier == "thorough" else 4, group_key="case")
    for rep in tlc.validate_traces("Trace_C10.tla", shards, jobs=16):
        cx.add_report(rep)
        cx.cov["invariant_evaluations"] = cx.cov.get("invariant_evaluations", 0) + rep["extra"]["nchecked"]
    fam = {}
    for ln in open(tr):
        ev = json.loads(ln)
        cx.evaluations += 1
        if ev["exc"] == "":
            fam.setdefault((ev["e"], ev["case"]), []).append(ev)
    for (k, c), es in fam.items():
        if len(es) >= 3:
            cx.distinct.add((k, c))
            if len(cx.cov["samples"]) < 3 and k == "Decouple":
                cx.sample({"family": es[0]["sig"], "M": [core.dy(e["M"]) for e in es], "a1L": [core.dy(e["a1L"]) for e in es],
                           "a2LF": [core.dy(e["a2LF"]) for e in es], "a2LB": [core.dy(e["a2LB"]) for e in es]})
    cx.assumptions += ["scales S_1, S_F, S_B: sums of magnitudes of the sub-parts (S_1 computed by the driver from the Yukawa getters and masses)",
                       "first decoupling step 1 -> 3.16 TeV asserted with 0.65 instead of 0.45 (valid points reach 0.59 there)",
                       "m_hSM is set to the light Higgs mass of each decoupling point (a_mu(THDM) is the difference to the SM)"]
    cx.selftest_corruption("Trace_C10.tla", shards[0], lambda ev: ev["a2LF"] if ev["e"] == "Decouple" and ev["k"] == 2 and ev["exc"] == "" else None, "DecoupleF", every=True, big=True)
    return cx.finish(rule="families per TLC-enumerated class (Cases.tla: C10Cases: kind x Yukawa type x tan(beta) class): SM-limit families "
                          "over 6 values of the common Higgs mass, decoupling families over M = 1, 3.16, 10, 31.6 TeV; "
                          "distinct_nontrivial = families with >= 3 members built")
