------------------------------ MODULE Trace_C01 ------------------------------
(***************************************************************************)
(* C01 - one-variable loop and special functions equal their mathematical  *)
(* definitions.  One event per evaluation:                                 *)
(*   Eval(id, fn, cls, a = <<x>>, y, at)     (cdilog: a = <<re, im>>, yi)  *)
(* x and y are the exact doubles passed to / returned by the library       *)
(* (harness/drv/d_ff.cpp), cls the argument class of Regimes.tla that x    *)
(* was drawn from, at the atoms of Defs.tla.                               *)
(*                                                                         *)
(*   Definition   x in [1e-14, 1e12], x # 1:  |y - N/D| <= 1e-7 max(|N/D|, *)
(*                S), N/D the closed form of Defs.tla, S the largest       *)
(*                magnitude of f within 1 % of x (matters only where f     *)
(*                itself crosses zero)                                     *)
(*   AtOne, AtZero  the documented values at exactly 1 and 0               *)
(*   NegativeIsNaN                                                         *)
(*   Li2, Cl2, CLi2  1e-13 against the atom (for Cl2 relative to its local *)
(*                magnitude and degraded by the factor 1 + |x| of the      *)
(*                unavoidable argument reduction)                          *)
(* Continuity across a change of regime follows: the classes winLoOut /    *)
(* winLoIn, ..., hiEdgeLo / hiEdgeHi are adjacent doubles on both sides of *)
(* every regime boundary and each must match the one definition.           *)
(***************************************************************************)
EXTENDS TraceBase, Defs

VARIABLES l, viol, nchecked
vars == <<l, viol, nchecked>>

Tol7 == TenPow(7)
Tol13 == TenPow(13)
\* 1e-14 <= x <= 1e12 as 1e14 x >= 1 and x <= 1e12
InDomain(x) == Le(One, Mul(TenPow(14), x)) /\ Le(x, TenPow(12))

OneVarFns == {"F1C", "F2C", "F3C", "F4C", "F1N", "F2N", "F3N", "F4N", "G3", "G4", "f_PS", "f_S", "f_sferm", "f_CSl", "F1", "F1t", "F2", "F3"}
Windowed == {"F1C", "F2C", "F3C", "F4C", "F1N", "F2N", "F3N", "F4N", "G3", "G4"}

OneVarInvs(ev) ==
  LET f == ev.fn   x == ev.a[1]   y == ev.y
  IN IF ~IsFin(x) THEN << >>
     ELSE IF x.s < 0 THEN << I("NegativeIsNaN", IsNaN(y)) >>
     ELSE IF x.s = 0 THEN (IF ev.zero = "none" THEN << >>
                           ELSE << I("AtZero", IsFin(y) /\ Within(y, AtZero(f), Zero, One, Tol7)) >>)
     ELSE IF ~InDomain(x) THEN << >>
     ELSE IF Eq(x, One) /\ f \in Windowed THEN << I("AtOne", IsFin(y) /\ Within(y, AtOne(f), Zero, One, Tol7)) >>
     ELSE << I("Definition", IsFin(y) /\ Within(y, Def(f, x, ev.at), ev.at.S, One, Tol7)) >>

SpecialInvs(ev) ==
  LET f == ev.fn   x == ev.a[1]   y == ev.y
      atom == Frac(ev.at.R, One)
  IN CASE f = "dilog" -> << I("Li2", IsFin(y) /\ Within(y, atom, Zero, One, Tol13)) >>
       [] f = "clausen_2" -> << I("Cl2", IsFin(y) /\ Within(y, atom, ev.at.S, Add(One, Abs(x)), Tol13)) >>
       [] f = "cdilog" ->
            LET err == Add(Abs(Sub(y, ev.at.R)), Abs(Sub(ev.yi, ev.at.I)))
                mag == Add(Abs(ev.at.R), Abs(ev.at.I))
            IN << I("CLi2", IsFin(y) /\ IsFin(ev.yi) /\ Le(Mul(Tol13, err), mag)) >>
       [] OTHER -> << >>

Init == l = 1 /\ viol = << >> /\ nchecked = 0

TEval ==
  /\ l <= NLines /\ TraceLog[l].e = "Eval"
  /\ LET ev == TraceLog[l]
         invs == << I("KnownFunction", ev.known) >> \o
                 (IF ev.fn \in OneVarFns THEN OneVarInvs(ev)
                  ELSE IF \A i \in DOMAIN ev.a : IsFin(ev.a[i]) THEN SpecialInvs(ev) ELSE << >>)
     IN /\ viol' = viol \o Failed(invs, l, ev.fn \o "/" \o ev.cls) /\ nchecked' = nchecked + Len(invs)
  /\ l' = l + 1

Next == TEval
Spec == Init /\ [][Next]_vars
Report == l = NLines + 1 => WriteReport(l, viol, [nchecked |-> nchecked])
=============================================================================
