"""C02 - many-variable loop functions: definition, symmetry and degenerate limits."""
import itertools
import json
import math
import os
import random

import build
import cases
import core
import tlc
from props.c01 import add_atoms, logu, ulps

MW, MT, MB, MC, MS, MU, MD = 80.385, 173.34, 4.18, 1.28, 0.096, 0.0022, 0.0047


def near(rnd, x, k):
    """a double at relative distance about 10^-k from x"""
    return x * (1 + rnd.choice([-1, 1]) * logu(rnd, 0.3, 3) * 10.0 ** (-k))


def dom(rnd, lo=1e-6, hi=1e6):
    return logu(rnd, lo, hi)


def pair_fab(cls, rnd):
    """(x, y), in-domain flag"""
    if cls == "generic":
        return (dom(rnd, 1e-3, 1e3), dom(rnd, 1e-3, 1e3)), True
    if cls == "hier":
        return (dom(rnd, 1e-6, 1e-3), dom(rnd, 1e2, 1e6)), True
    if cls == "equal":
        x = dom(rnd, 1e-4, 1e4)
        return (x, x), True
    if cls == "bothOne":
        return (1.0, 1.0), True
    if cls == "winOneIn":
        return (1 + rnd.uniform(-1, 1) * 1e-4, 1 + rnd.uniform(-1, 1) * 1e-4), True
    if cls == "winOneEdge":
        e = 2e-4 * (1 + rnd.uniform(-1, 1) * 1e-3)       # is_equal_rel(x, 1, 1e-4): |x - 1| < 1e-4 (1 + max)
        return (1 + rnd.choice([-1, 1]) * e, 1 + rnd.uniform(-1, 1) * 1e-4), True
    if cls == "xOne":
        return (1.0, dom(rnd, 1e-3, 1e3)), True
    if cls == "xNearOne":
        return (near(rnd, 1.0, rnd.choice([2, 3, 5, 8])), dom(rnd, 1e-3, 1e3)), True
    if cls == "bothSmall":                               # both below 1e-5: is_equal_rel(x, y, 1e-5) holds for any such pair
        return (logu(rnd, 1e-6, 1e-5), logu(rnd, 1e-6, 1e-5)), True
    if cls == "smallApart":
        x = logu(rnd, 1e-6, 3e-6)
        return (x, x * rnd.uniform(2, 3)), True
    if cls == "zeroLarge":                               # the larger argument 0 => both 0: documented value 0
        return (0.0, 0.0), True
    k = int(cls[4:])
    x = dom(rnd, 1e-3, 1e3) if rnd.random() < 0.7 else near(rnd, 1.0, rnd.choice([1, 2, 3]))
    return (x, near(rnd, x, k)), True


NQ_DECADES = [1, 1.5, 2, 2.25, 2.5, 2.75, 3, 3.5, 4, 5, 6, 8, 10, 12]
_NQ = 0


def pair_quot(cls, rnd):
    if cls == "generic":
        x = dom(rnd, 1e-4, 1e4)
        y = dom(rnd, 1e-4, 1e4)
        return (x, y), abs(x - y) >= 1e-3 * max(x, y)
    if cls == "equal":
        x = dom(rnd, 1e-3, 9e2)
        return (x, x), True
    if cls == "equalQuarter":
        return (0.25, 0.25), True
    if cls == "equalNearQuarter":                         # equal scales on either side of the special-cased 1/4,
        global _NQ                                        # distances stratified by (half-)decades
        u = NQ_DECADES[_NQ % len(NQ_DECADES)]
        _NQ += 1
        x = 0.25 * (1 + rnd.choice([-1, 1]) * rnd.uniform(0.8, 1.25) * 10.0 ** (-u))
        return (x, x), True
    if cls == "equalLarge":
        x = dom(rnd, 1e3, 1e6)
        return (x, x), True
    if cls == "equalSmall":
        x = dom(rnd, 1e-6, 1e-3)
        return (x, x), True
    if cls == "xZero":
        return (0.0, dom(rnd)), True
    if cls == "apart3":
        x = dom(rnd, 1e-3, 1e3)
        return (x, x * (1 + rnd.choice([-1, 1]) * rnd.uniform(1.1e-3, 3e-3))), True
    if cls == "crossQuarter":
        return (rnd.uniform(0.01, 0.24), rnd.uniform(0.26, 5)), True
    if cls == "large":
        return (dom(rnd, 1e2, 1e6), dom(rnd, 1e2, 1e6)), True
    if cls == "small":
        return (dom(rnd, 1e-6, 1e-2), dom(rnd, 1e-6, 1e-2)), True
    raise KeyError(cls)


def triple_i(cls, rnd):
    """Iabc takes unsquared arguments: squared ratios in [1e-6, 1e6] <=> ratios in [1e-3, 1e3]"""
    s = logu(rnd, 50, 5000)
    g = lambda: s * logu(rnd, 0.05, 20)
    if cls == "generic":
        return (g(), g(), g()), True
    if cls == "hier":
        return (s * logu(rnd, 1e-3, 1e-2), s, s * logu(rnd, 1e2, 1e3)), True
    if cls == "allEqual":
        return (s, s, s), True
    if cls == "twoEqualLo":
        return (s, s, s * logu(rnd, 1.5, 100)), True
    if cls == "twoEqualHi":
        return (s * logu(rnd, 0.01, 0.7), s, s), True
    if cls == "allNear":
        return (s, near(rnd, s, rnd.choice([3, 5, 6, 9])), near(rnd, s, rnd.choice([3, 5, 6, 9]))), True
    if cls == "oneIsMax":
        return (1.0, logu(rnd, 1e-2, 0.9), logu(rnd, 1e-2, 0.9)), True
    if cls == "oneZero":
        return (0.0, g(), g()), True
    if cls == "twoZero":
        return (0.0, 0.0, g()), True
    if cls == "allZero":
        return (0.0, 0.0, 0.0), True
    k = int(cls[4:])
    a = g()
    return (a, near(rnd, a, k), g()), True


def triple_phi(cls, rnd):
    s = logu(rnd, 1e-2, 1e6)
    if cls in ("generic", "hier"):
        r = 1e3 if cls == "generic" else 1e6
        return (s * logu(rnd, 1 / r, 1), s * logu(rnd, 1 / r, 1), s), True
    if cls == "kallenPos":                   # sqrt(x) + sqrt(y) < sqrt(z)
        a, b = rnd.uniform(0.05, 0.45), rnd.uniform(0.05, 0.45)
        return (s * a * a, s * b * b, s), True
    if cls == "kallenNeg":                   # a triangle
        a, b = rnd.uniform(0.55, 1.0), rnd.uniform(0.55, 1.0)
        return (s * a * a, s * b * b, s), True
    if cls == "kallenZero":
        m = rnd.choice([(1.0, 4.0, 9.0), (4.0, 9.0, 25.0), (1.0, 1.0, 4.0), (2.25, 6.25, 16.0)])
        k = 2.0 ** rnd.randint(-8, 12)
        return tuple(k * v for v in m), True
    if cls.startswith("kallenNear"):
        k = int(cls[10:])
        a = rnd.uniform(0.1, 0.9)
        b = (1 - a) * (1 + rnd.choice([-1, 1]) * logu(rnd, 0.3, 3) * 10.0 ** (-k))
        return (s * a * a, s * b * b, s), True
    if cls == "pairEqual":
        x = s * logu(rnd, 1e-3, 1)
        return (x, x, s), True
    if cls == "pairNear":
        x = s * logu(rnd, 1e-3, 1)
        return (x, near(rnd, x, rnd.choice([3, 6, 9, 12, 15])), s), True
    if cls == "uOne":
        return (s, s * logu(rnd, 1e-3, 1), s), True
    if cls == "allEqual":
        return (s, s, s), True
    if cls == "oneTiny":
        return (s * logu(rnd, 1e-6, 2e-4), s * rnd.uniform(0.05, 0.95), s), True
    if cls == "smallUV":
        return (s * logu(rnd, 1e-6, 1e-4), s * logu(rnd, 1e-6, 1e-4), s), True
    raise KeyError(cls)


def cs_args(cls, rnd):
    qu, qd = 2.0, -1.0
    if cls == "physical":
        mu, md = rnd.choice([(MT, MB), (MC, MS), (MU, MD)])
        m = logu(rnd, 50, 5000)
        return (mu * mu / (m * m), md * md / (m * m), qu, qd), True
    if cls == "generic":
        return (dom(rnd, 1e-4, 1e2), dom(rnd, 1e-4, 1e2), qu, qd), True
    if cls == "kallenNear":                  # sqrt(xu) + sqrt(xd) = 1 up to 1e-k: lambda^2(xu, xd, 1) ~ 0
        a = rnd.uniform(0.2, 0.8)
        b = (1 - a) * (1 + rnd.choice([-1, 1]) * 10.0 ** (-rnd.choice([3, 5, 7, 9, 12])))
        return (a * a, b * b, qu, qd), True
    if cls == "xdZero":
        return (dom(rnd, 1e-3, 10), 0.0, qu, qd), True
    raise KeyError(cls)


def fcw_args(cls, rnd):
    qu, qd = 2.0, -1.0
    mu, md = rnd.choice([(MT, MB), (MC, MS), (MU, MD)])
    if cls == "generic":
        mu, md = logu(rnd, 1e-3, 200), logu(rnd, 1e-3, 200)
    m = logu(rnd, 50, 5000)
    if cls == "equalScales":
        m = MW
    ok = abs(m - MW) >= 1e-3 * max(m, MW)
    return (mu * mu / (m * m), md * md / (m * m), mu * mu / (MW * MW), md * md / (MW * MW), qu, qd), ok


SYMMETRIC = {"Fa", "Fb", "Iabc", "Phi", "lambda_2", "FPZ", "FSZ", "FCWl", "Phi_over_lambda_2"}
HOMOGENEOUS = {"Iabc", "Phi", "lambda_2"}


def run(tier, seed):
    cx = core.Ctx("C02", tier, seed, "exploration")
    rnd = random.Random(seed)
    cs = sorted(cases.get("C02"), key=lambda c: (c["fn"], c["cls"]))
    n = 3 if tier == "quick" else 40
    exe = build.driver_build("d_ff")
    cf = cx.path("cases.txt")
    meta = {}
    k = 0
    with open(cf, "w") as fh:
        def emit(fn, cls, args, grp, role, indom, kk=1.0):
            nonlocal k
            cid = "e%d" % k
            k += 1
            meta[cid] = {"grp": grp, "role": role, "indomain": indom, "kf": kk}
            fh.write("%s %s %s %s\n" % (cid, fn, cls, " ".join(float(v).hex() for v in args)))
        g = 0
        for c in cs:
            fn, cls = c["fn"], c["cls"]
            for _ in range(n * 5 if cls == "equalNearQuarter" else n * 2 if cls in ("large", "small", "generic") else n):
                if fn in ("Fa", "Fb"):
                    args, ok = pair_fab(cls, rnd)
                elif fn in ("FPZ", "FSZ", "FCWl"):
                    args, ok = pair_quot(cls, rnd)
                elif fn == "Iabc":
                    args, ok = triple_i(cls, rnd)
                elif fn in ("Phi", "lambda_2", "Phi_over_lambda_2"):
                    args, ok = triple_phi(cls, rnd)
                    args = tuple(rnd.sample(list(args), 3))
                elif fn in ("f_CSd", "f_CSu"):
                    args, ok = cs_args(cls, rnd)
                else:
                    args, ok = fcw_args(cls, rnd)
                g += 1
                emit(fn, cls, args, g, "base", ok)
                if fn in SYMMETRIC:
                    perms = [p for p in itertools.permutations(args) if p != tuple(args)]
                    for p in perms:                      # every other ordering of the arguments
                        emit(fn, cls, p, g, "perm", ok)
                if fn in HOMOGENEOUS:
                    kk = 2.0 ** rnd.choice([-7, -2, 3, 10])
                    emit(fn, cls, tuple(kk * v for v in args), g, "scale", ok, kk)
    raw = cx.path("raw.ndjson")
    core.run_driver(exe, [cf, raw])
    shards_raw = tlc.split_trace(raw, 16, group_key="id")
    # keep groups together: split_trace groups by id; regroup by grp so that perm/scale events follow their base
    evs = [json.loads(ln) for ln in open(raw)]
    nsh = 16
    per = (g + nsh - 1) // nsh
    files = [cx.path("sh%02d.raw" % i) for i in range(nsh)]
    outs = [open(f, "w") for f in files]
    for ev in evs:
        m = meta[ev["id"]]
        outs[min((m["grp"] - 1) // per, nsh - 1)].write(json.dumps(ev) + "\n")
    for o in outs:
        o.close()
    import concurrent.futures as cf_

    def one(s):
        add_atoms(s, s + ".at")
        out = s + ".tr"
        with open(out, "w") as fo:
            for ln in open(s + ".at"):
                ev = json.loads(ln)
                m = meta[ev["id"]]
                ev.update({"grp": m["grp"], "role": m["role"], "indomain": m["indomain"], "k": core.dyadic_of(m["kf"])})
                fo.write(json.dumps(ev) + "\n")
        return out
    files = [f for f in files if os.path.getsize(f)]
    with cf_.ThreadPoolExecutor(16) as ex:
        shards = list(ex.map(one, files))
    for rep in tlc.validate_traces("Trace_C02.tla", shards, jobs=16, heap="3g"):
        cx.add_report(rep)
        cx.cov["invariant_evaluations"] = cx.cov.get("invariant_evaluations", 0) + rep["extra"]["nchecked"]
    for sh in shards:
        if any('"fn": "Iabc"' in ln and '"generic"' in ln for ln in open(sh)):
            cx.selftest_corruption("Trace_C02.tla", sh, lambda ev: ev["y"] if ev["fn"] == "Iabc" and ev["cls"] == "generic" and ev["role"] == "base" else None,
                                   "Definition")
            break
    for ev in evs:
        if ev["cls"] in ("near6", "kallenNear8", "physical", "equalLarge") and len(cx.cov["samples"]) < 5:
            cx.sample({"fn": ev["fn"], "class": ev["cls"], "args": [core.dy(a) for a in ev["a"]], "y": core.dy(ev["y"]), "role": meta[ev["id"]]["role"]})
    for ev in evs:
        cx.evaluations += 1
        cx.distinct.add((ev["fn"], ev["cls"]))
    cx.assumptions += ["atoms (logs, Li2, the Davydychev-Tausk function, f_PS / f_S / f_CSl values and x f'(x) - f(x)) from mpmath at 400 bits; "
                       "the case analysis of the degenerate configurations and all rational structure is in spec/Defs.tla",
                       "absolute floor 1e-13 M^p (M the largest argument, p the degree of homogeneity)",
                       "FCWu / FCWd at exactly equal scales (m_H+ = m_W) are outside the definitional comparison here (covered by C11 paths)"]
    return cx.finish(rule="every (function, argument class) of Regimes.tla (C02Cases) concretised with random tuples; each base tuple of a "
                          "symmetric function is followed by permutations, of Iabc / Phi / lambda_2 also by the tuple scaled with a power of two; "
                          "distinct_nontrivial = (function, class) pairs")
