#!/usr/bin/env python3
"""Applies a stored seeded change (seeded/<name>/patch.diff) to /repo's working tree, runs checks against it
and restores the tree.  usage: seeded.py <name> [--tier quick|thorough] [--props C13,C15]   (default: the property
named in meta.json).  Exit 0 if at least one of the checks reported a violation (the change is detected)."""
import argparse
import json
import os
import subprocess
import sys
import time

V = os.path.dirname(os.path.dirname(os.path.abspath(__file__)))
REPO = "/repo"


def sh(cmd, **kw):
    return subprocess.run(cmd, shell=True, text=True, capture_output=True, **kw)


def main():
    ap = argparse.ArgumentParser()
    ap.add_argument("name")
    ap.add_argument("--tier", default="quick")
    ap.add_argument("--props", default="")
    a = ap.parse_args()
    d = os.path.join(V, "seeded", a.name)
    meta = json.load(open(os.path.join(d, "meta.json")))
    props = a.props.split(",") if a.props else [meta["property"]]
    dirty = sh("git -C %s status --porcelain --untracked-files=no" % REPO).stdout.strip()
    if dirty:
        print("refusing: /repo working tree is not clean:\n" + dirty)
        return 2
    r = sh("git -C %s apply %s" % (REPO, os.path.join(d, "patch.diff")))
    if r.returncode:
        print("patch does not apply:", r.stderr)
        return 2
    results = {}
    try:
        for p in props:
            t0 = time.time()
            r = sh("python3 %s/harness/check.py %s --tier %s" % (V, p, a.tier), cwd=V)
            viol = [ln for ln in r.stdout.splitlines() if ln.startswith("VIOLATION")]
            results[p] = {"exit": r.returncode, "violations": len(viol), "first": viol[:5], "wall_s": round(time.time() - t0, 1),
                          "tail": r.stdout.splitlines()[-1:] }
            print(p, a.tier, "exit", r.returncode, "violations", len(viol))
            for v in viol[:5]:
                print("   ", v[:260])
    finally:
        sh("git -C %s checkout -- ." % REPO)
    out = os.path.join(d, "result_%s.json" % a.tier)
    json.dump({"name": a.name, "tier": a.tier, "results": results,
               "detected": any(x["exit"] == 1 and x["violations"] for x in results.values())}, open(out, "w"), indent=1)
    return 0 if any(x["exit"] == 1 and x["violations"] for x in results.values()) else 1


if __name__ == "__main__":
    sys.exit(main())
