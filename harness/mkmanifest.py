#!/usr/bin/env python3
"""Regenerates /verif/MANIFEST.json from the table below (one entry per claimed property)."""
import json
import os
import subprocess

V = os.path.dirname(os.path.dirname(os.path.abspath(__file__)))

CHECKS = {
 "C01": ("exploration",
         "Regimes.tla holds, per one-variable function, its evaluation regimes (Taylor window around 1, large-argument expansion, special-cased points 0, 1/4, 1, tiny-argument branch) as argument classes; TLC enumerates (function, class), the harness places adjacent doubles on both sides of every regime boundary and random points inside every regime; Defs.tla holds the published closed forms as exact polynomial identities N(x, atoms)/D(x) and Trace_C01.tla decides |y - N/D| <= 1e-7 max(|N/D|, S) in exact arithmetic on the logged doubles (1e-13 for Li2, Cl2, complex Li2), the documented values at 0 and 1, and NaN for negative arguments",
         "K8, K9 repaired (large-argument expansions); transcendental atoms (log, Li2, f_PS, Cl2) from mpmath at 400 bits are trusted; points are sampled within each class",
         "TLA+ trace validation (Trace_C01.tla, Defs.tla, Dyadic.tla) over TLC-enumerated regime classes (Regimes.tla)", "DESIGN 10.3 and 5/C01"),
 "C02": ("exploration",
         "Regimes.tla holds the case analysis of the many-variable functions as argument classes (generic, exactly equal, nearly equal at 1e-12..1e-1, an argument equal or close to 1, both in the 1e-4 window around 1, both small, vanishing Kaellen function exactly and at 1e-12..1e-3, zero arguments, physical quark masses over charged-Higgs masses); Defs.tla holds the definitions with their degenerate cases (Fa, Fb from G3, G4 and their derivatives, Iabc with its equal-argument and zero limits, Phi and Phi/lambda^2 from the Davydychev-Tausk function, the Kaellen polynomial, the difference quotients FPZ, FSZ, FCWl with the limit x f' - f, f_CSd, f_CSu of Eqs.(61),(62) and their quotients FCWu, FCWd); Trace_C02.tla decides the definitional comparison (1e-6, Fa / Fb 1e-4, floor 1e-13 M^p), permutation invariance and homogeneity (Iabc, Phi, lambda^2) in exact arithmetic",
         "K10, K19 repaired; atoms from mpmath at 400 bits are trusted; FCWu / FCWd at exactly equal scales are left to the C11 paths; tuples are sampled within each class",
         "TLA+ trace validation (Trace_C02.tla, Defs.tla, Dyadic.tla) over TLC-enumerated argument classes (Regimes.tla)", "DESIGN 10.3 and 5/C02"),
 "C03": ("exploration",
         "Trace_C03.tla holds Eqs.(2.11a,b) with the couplings (2.5a,b,o,p) of arXiv:1311.1775 and the flavour-summed one-loop THDM expression of arXiv:1607.06292 (scalar, pseudoscalar, charged Higgs, minus the SM Higgs term) and evaluates them in exact complex / rational arithmetic from the couplings, masses, mixing matrices and Yukawa matrices the public getters report, with loop functions from their closed forms at 400 bits; the library's amu1LChi0, amu1LChipm, calculate_amu_1loop must agree to 1e-8 of the sum of the magnitudes of the terms.  Points per TLC-enumerated class: all sign patterns of mu, M1, M2 x tan(beta) x spectrum x tree / converted Yukawa; THDM all six Yukawa types x basis of origin x lepton-flavour-violating Delta / Pi x tan(beta)",
         "the diagonalisation itself is decided by C04 on the same kind of points (assume-guarantee); magnitudes sampled; formulas transcribed from the cited equations",
         "TLA+ trace validation (Trace_C03.tla: formulas in the spec, exact arithmetic in Dyadic.tla) over TLC-enumerated classes", "DESIGN 10.3 and 5/C03"),
 "C04": ("exploration",
         "Trace_C04.tla contains the tree-level mass matrices of the nine sfermion sectors, three sneutrinos, charginos and neutralinos written from the Lagrangian (D-terms from T3 and Q, GUT-normalised g1, SLHA sign of mu) and validates, with exact products, that every reported mass/mixing pair reconstructs them (Z^T diag(m^2) Z, U^T diag(m) V, N^T diag(m) N), that mixing matrices are unitary, masses non-negative and ordered, Goldstones at index 0 with MZ, MW, the tree-level Higgs identities and chargino/neutralino trace/determinant relations hold, a tachyon is reported exactly for a negative eigenvalue of a monitored sector, and exchanging two generations exchanges the spectra",
         "Higgs-sector matrices are not reconstructed (their soft masses are fixed internally by the tadpole equations): identities only; magnitudes sampled; tolerance 1e-11 of the matrix norm",
         "TLA+ trace validation (Trace_C04.tla: mass matrices transcribed into the spec, exact arithmetic in Dyadic.tla)", "DESIGN 10.3 and 5/C04"),
 "C05": ("model_checking",
         "MSSMModel.tla models the conversion as the sequence of steps the code takes (start, each iteration of the two fixed-point fits, stop by convergence / iteration limit / no improvement / NaN, root finder, reset, flag or unflag, final clear_problems) as a function Enabled/Apply over an ordered precision domain; TLC explores all step sequences over 4 precision levels and checks ConvergedOrWarned, WarnOnlyIfNotConverged, LoopBound, FlagsIndependent and termination; two wrong variants violate ConvergedOrWarned.  The guarded hooks of MSSMNoFV_onshell.cpp emit exactly these steps; Trace_C05.tla replays them on the same Enabled/Apply (precisions as exact dyadic numbers), flags any step the model does not allow, and checks at the fit's end that the smuon pole mass is met or the warning set; on the final public observation it checks chargino / bino-like neutralino / sneutrino / right-smuon residuals against the requested precision and the round trip of mu, M1, M2, ml2, me2 and a_mu",
         "K15 (final spectrum misses the right-smuon pole mass after the last Yukawa update) is a known finding; round trip asserted on the well-conditioned subset; inputs generated from on-shell points",
         "TLC model checking of MSSMModel.tla + TLA+ trace validation (Trace_C05.tla) replaying hook events on the same machine", "DESIGN 10.3 and 5/C05"),
 "C06": ("exploration",
         "all 2^13 sign patterns are enumerated by TLC (a seeded subset in the quick tier), each concretised with random magnitudes; every function of the three public headers and of the helper headers and every mass is recorded for the original and the flipped point and compared by TLC at relative 1e-9; the discrete sign algebra is an ASSUME of the trace spec",
         "magnitudes are sampled; trusted: TLC, Dyadic.tla, the lossless encoder",
         "TLA+ trace validation (Trace_C06.tla) of paired executions; TLC-enumerated sign patterns", "DESIGN 10.3 and 5/C06"),
 "C07": ("exploration",
         "families of models scaled by k = 1..64 from TLC-enumerated classes; the trace spec keeps the previous family member and checks the 1/k^2 laws, the fixed tan(beta) correction and the uncertainty floor as division-free inequalities in exact arithmetic",
         "constants C1, C2 in Trace_C07.tla are 10 x the maxima observed on the unchanged tree; corrections are measured against the sum of magnitudes of the terms",
         "TLA+ trace validation (Trace_C07.tla) with family state", "DESIGN 10.3 and 5/C07"),
 "C08": ("model_checking",
         "THDMModel.tla models the extraction of the CP-even mixing angle on the lattice of multiples of pi/16 (exact sign tables) for every beta, beta-alpha and eigenvector sign; AlphaOK holds for the atan2 extraction and is violated by the asin extraction of the unchanged tree (K1).  Trace_C08.tla validates models built from TLC-enumerated classes (sector of sin(beta-alpha) x tan(beta) class x Yukawa type x real/complex CKM x basis of origin): masses, angle (with cos >= 0), tan(beta), lambda_6/7, m12^2 reproduced; vector bosons, Goldstones at index 0, fermion masses = SM input; |Vu Vd^dagger| = |CKM|; rebuild in the other basis gives the same spectrum/quartics",
         "tolerances: 1e-9 of the largest squared mass, angle conditioned by M2/(mH^2-mh^2), measured margins >= 100 on the repaired tree; magnitudes sampled",
         "TLC model checking of THDMModel.tla + TLA+ trace validation (Trace_C08.tla, exact complex products in Dyadic.tla)", "DESIGN 10.3 and 5/C08"),
 "C09": ("model_checking",
         "Yukawa.tla holds Table 1 of arXiv:1607.06292 as symbols, rho_f per type and the read/ignore matrix, checked by TLC (ASSUME); Trace_C09.tla validates pairs of real models: type I/II/X/Y vs aligned with the table's zeta_f (all results and the twelve Yukawa getters, running on and off), aligned(zeta, Delta) vs general(Pi) with running off (one-loop, fermionic two-loop, Yukawas), and every (type, ignored parameter) pair of the matrix perturbed (bit-identical results)",
         "relative 1e-9 with a floor of 1e-12 |a_mu| (observed <= 1e-11); magnitudes sampled",
         "TLC-checked Yukawa.tla + TLA+ trace validation (Trace_C09.tla) of paired models", "DESIGN 10.3 and 5/C09"),
 "C10": ("exploration",
         "Trace_C10.tla keeps the reference / previous member of each family: SM-limit families (cos(beta-alpha) = 0, m_h = m_hSM = m over six values) must be independent of m within 1e-9 of one light-Higgs term; decoupling families (M = 1..31.6 TeV, fixed quartics, m_hSM = m_h) must shrink per component by 0.45 per factor sqrt(10) relative to the magnitude of the component's sub-parts",
         "first decoupling step only asserted not to grow (valid large-tan(beta) points reach 0.72); K12 (bosonic 2L noise >= 10 TeV) is a known finding; scales computed by the driver",
         "TLA+ trace validation (Trace_C10.tla) with family state", "DESIGN 10.3 and 5/C10"),
 "C11": ("exploration",
         "Trace_C11.tla collects the 23 offsets d = 0, +-1e-13 .. +-1e-3 of a one-parameter path through a TLC-enumerated mass coincidence (Regimes.tla: m = a, 2a, a/2, a + b, |a - b| over the masses of a THDM point, and mass / parameter coincidences of MSSM points located by bisection; components: bosonic / fermionic two-loop and one-loop parameter structs, and the public mass-basis path) and evaluates at the end of the path, in exact arithmetic: every value finite; if the path is usable (<= 20 % change between the ends) every value within 1 % of the contribution's magnitude of the line through the ends",
         "K16, K17, K18 are known findings (K2 repaired); MSSM paths move a Lagrangian parameter through the bisected coincidence; uncertainties are exempt from the band where a_mu^1L or a_mu^2L changes sign on the path (kink of |.| in their definition)",
         "TLA+ trace validation (Trace_C11.tla, Dyadic.tla) over TLC-enumerated coincidences (Regimes.tla)", "DESIGN 10.3 and 5/C11"),
 "C12": ("model_checking",
         "Linalg.tla models, on exact Gaussian-integer matrices with integer eigenvector matrices (Q Q^T = c I), what GM2Calc composes on top of the numerical back ends - eigen -> sort by |w| -> adjoint; eigen -> phase i for negative eigenvalues -> sort -> transpose; svd -> reverse values and permute vectors -> transpose - with the back end abstracted as 'any exact decomposition in its own convention' (all tie-breakings explored); the documented contracts hold for all matrices in the bounded class and four convention slips violate them.  Trace_C12.tla validates calls of the real templates (fs_svd, svd, reorder_svd, [fs_]diagonalize_hermitian, [fs_|reorder_]diagonalize_symmetric; real and complex; 2x2..4x4) on TLC-enumerated classes (distinct/double/triple/all-equal/zero/negative-pair/hierarchical/integer/zero-row spectra x diagonal/signed-permutation/random-unitary bases): reconstruction, unitarity, sign, ordering and error bounds with exact products",
         "tolerance relative to the matrix norm (512 eps; 2^27 eps for real 3x3 eigen problems solved by Eigen's closed-form computeDirect); non-square instantiations are not exercised",
         "TLC model checking of Linalg.tla + TLA+ trace validation (Trace_C12.tla, exact complex matrix products in Dyadic.tla)", "DESIGN 10.3 and 5/C12"),
 "C13": ("model_checking",
         "SLHA.tla: an operational model of the reader (append lines, ordered passes over same-named blocks, scale filter, token conversion) is model-checked exhaustively against the denotation of a file (last assignment per block/key among the blocks read) and against the rewrite classes of the property, with wrong reader variants as non-vacuity checks; TLC-enumerated abstract files are rendered in several concrete layouts and in the normal form of their denotation, read by the real GM2_slha_io, and the recorded parameters/exception classes are validated by TLC (Trace_C13.tla); every documented key of the three formats is changed alone and must move exactly the documented parameter; whole-program runs of rewritten complete inputs must give the same result; every GM2CalcConfig entry is read with every value at and around its documented range (rejected iff invalid, stored as given otherwise)",
         "bounded files (MaxLen 3 quick / 5 thorough over a 19-symbol alphabet); matrix blocks only through whole-program runs; trusted: TLC, renderer (harness/lib/slha_render.py)",
         "TLC model checking of SLHA.tla + TLA+ trace validation (Trace_C13.tla) of the real reader on TLC-generated files", "DESIGN 10.3 and 5/C13"),
 "C14": ("model_checking",
         "CLI.tla: the program as a machine (argument parsing, source, GM2CalcConfig entries in file order, reader/model outcome per input class, writer, catch, exit) is model-checked for all argument vectors, configuration-entry sequences, all 480 option vectors and six input classes: termination under fairness, exit status in {0,1}, every failure diagnosed, clean stdout, and membership in the declarative predicate Allowed; wrong variants demonstrate non-vacuity.  TLC-enumerated environments are concretised (real argv, real input files per input class, real GM2CalcConfig text, stdin) and run on the ASan+UBSan(+float-cast-overflow)+leak build; Trace_C14.tla replays CLI.tla's own actions for each environment and requires the observed exit status / stdout items to equal the machine's; mutated shipped inputs, directed extreme values and random bytes are validated against Allowed; a subset of the same runs is repeated under valgrind memcheck on the plain build (uninitialised memory)",
         "memory safety and UB are observed through the sanitizer build, not derived from the model; 'any byte sequence' is sampled; trusted: stdout abstraction (harness/lib/cli.py), TLC",
         "TLC model checking of CLI.tla + trace validation replaying CLI.tla actions (Trace_C14.tla) on executions of the sanitizer build", "DESIGN 10.3 and 5/C14"),
 "C15": ("model_checking",
         "CLI.tla (CLI_full.cfg) checks the slot table - which symbolic quantity is printed in which slot for each of the 480 option vectors and 3 input types, default format per input type, uncertainty placement - as invariants; Trace_C15.tla validates executions of gm2calc.x against API values recorded from the library for the same input: printed decimals equal the API value to the printed precision (minimal, SLHA blocks, every number of both detailed reports incl. products and sums), parts add up to totals, every percentage is 100 x component / reference, the same text in formats 0/2/3/4, uncertainty exactly where documented, SLHA echo token-for-token; SLHAWriter.tla models the output document (read, fill_block_entry, write) as a machine (EchoOthers, WriterSeesResult, ReaderSeesResult, BlockPlacement, three wrong variants) and Trace_Writer.tla validates the library's printed document after every operation on all 4033 bounded input documents",
         "quick tier: covering subset of 60 option vectors per input (all 480 in the thorough tier), shipped inputs and test points; trusted: decimal/stdout parsing in the harness, TLC",
         "TLC model checking of CLI.tla slot invariants and of the SLHAWriter.tla output-document machine + TLA+ trace validation (Trace_C15.tla, Trace_Writer.tla) of program output against recorded API values and of the library's writer against the specification", "DESIGN 10.3 and 5/C15"),
 "C16": ("model_checking",
         "Defects.tla holds the catalogue of documented defects, the exception classes a refusal may carry and the rules of the property as predicates; TLC enumerates all defect sets of size <= 2; CLI.tla is model-checked for the exit-status rules (refused / problem flagged / warnings only) over all input classes, force-output and formats.  Every defect set x force-output is applied to random valid points through the C++ API, the C API and gm2calc.x in the three input formats; Trace_C16.tla evaluates the rules on each recorded outcome (exception class / error code, stderr warnings, problem flag, finiteness, exit status, presence of physics output)",
         "a refusal under force-output counts as rejection; the massless-chargino defect is not enumerated (not realisable exactly from outside); SLHA-format program runs use the shipped example point; trusted: Defects.tla transcription of the documentation, TLC",
         "TLC enumeration of defect sets + model checking of CLI.tla + TLA+ trace validation (Trace_C16.tla) of library and program outcomes", "DESIGN 10.3 and 5/C16"),
 "C17": ("model_checking",
         "CAPI.tla: handles and the mirrored C++ object as a state machine (null/live/freed, tan(beta) set or not, THDM built with a valid or out-of-range enum, spectrum calculated); all call sequences over 28 action classes are explored to depth 8 (NeverAborts holds with exception-tight wrappers; the unchanged tree's protection table violates it - model-level reproduction of K6); TLC simulates call histories of depth 40 which are concretised (random function of each class, finite and non-finite values, buffer lengths 0..64, NULL arguments) and replayed on a C handle and a mirrored C++ object in a forked child of the ASan+UBSan build; Trace_C17.tla checks per call: bit-for-bit agreement with the mirror, NaN / error code for a throwing mirror, get(set(x)) = x, bounded and terminated string getters, and per sequence that the process survived",
         "use-after-free, out-of-range indices and enum values outside the enumeration's value range 0..7 (whose load is UB in C++) are outside the alphabet; trusted: the C -> C++ correspondence table of the driver (from the header documentation), fork/waitpid observation, TLC",
         "TLC model checking + simulation of CAPI.tla; TLA+ trace validation (Trace_C17.tla) of C-API call sequences replayed against a C++ mirror under sanitizers", "DESIGN 10.3 and 5/C17"),
 "C19": ("model_checking",
         "Purity.tla: each API function as a process Begin -> (CopyModel -> MutateCopy)? -> Read -> End with read set (the caller's model) and write set (its own copy only); all interleavings of the threads' micro-steps are model-checked for NoConflict, SharedUnchanged, Pure and Deterministic; the variants 'function-static cache' and 'convert the caller's model in place and restore' violate them (non-vacuity).  TLC-sampled schedules (2..16 threads) are replayed on identical objects sequentially, in reverse thread order and concurrently from a barrier with random yields, on the plain build and under ThreadSanitizer; Trace_C19.tla requires the bit-exact hash of the complete public state of every argument to be unchanged by const calls, the result bits to be a function of (model, operation, state hash) across phases/threads/orders, agreement on a copy, and no ThreadSanitizer report",
         "race freedom is observed (TSan), not derived; interleavings are exhaustive only in the model (2 threads quick / 3 threads thorough, 2 operations each); trusted: state projection of the harness, TLC",
         "TLC model checking of Purity.tla (all interleavings) + TLA+ trace validation (Trace_C19.tla) of sequential / permuted / concurrent replays incl. ThreadSanitizer", "DESIGN 10.3 and 5/C19"),
 "C20": ("exploration",
         "Trace_C20.tla: CKM from Wolfenstein (inside / edge / outside / non-finite) and angle input: unitarity V V^dagger = 1 to 1e-14 as exact complex products, rejection outside the range; electroweak relations of gm2calc::SM as division-free identities (4 pi as a dyadic enclosure); running masses on geometric scale ladders: finite and positive, strictly decreasing, m(Q_k)^2 = m(Q_{k-1}) m(Q_{k+1}) (composition), boundary values, Lambda_QCD fallback; THDM lepton Yukawas with running on/off",
         "K14 (mb running NaN for alpha_s >~ 0.18 at small m_b) is a known finding; the mt boundary value is only bracketed; scale <= 0 bypass not reachable through the API",
         "TLA+ trace validation (Trace_C20.tla, Dyadic.tla)", "DESIGN 10.3 and 5/C20"),
 "C18": ("exploration",
         "random MSSM/THDM models from TLC-enumerated classes; every recorded call of the uncertainty API is validated by TLC against the documented definitions (floor, sums, overload agreement) in exact arithmetic",
         "sampling inside classes is not exhaustive; trusted: TLC, lossless double encoder, class generators",
         "TLA+ trace validation (Trace_C18.tla, Dyadic.tla) of traces recorded from the real library", "DESIGN 10.3 and 5/C18"),
}

NOT_YET = "not yet built in this round (specification and harness in progress)"
NA = {}


def main():
    props = [json.loads(l)["id"] for l in open(os.path.join(V, "properties.jsonl"))]
    hooks_commits = ["ca001f5 verification hooks in the DR-bar to on-shell conversion (inactive unless -DGM2CALC_VERIF)"]
    m = {
        "version": 1,
        "setup_cmd": "python3 harness/check.py setup",
        "hooks": {"guard": "GM2CALC_VERIF",
                  "enable": "checks build /repo's working tree with -DGM2CALC_VERIF in CMAKE_CXX_FLAGS (harness/lib/build.py); hook events (src/gm2_verif.hpp: GM2CALC_VERIF_EMIT) add the internal steps of the DR-bar to on-shell conversion; every other observation uses the public API",
                  "baseline_off_cmd": "cmake -S /repo -B /repo/_build -G Ninja && cmake --build /repo/_build && ctest --test-dir /repo/_build -j8 --timeout 900",
                  "source_commits": hooks_commits, "add_only": True},
        "engines": [{"name": "tlc-trace", "path": "harness/check.py", "serves_properties": sorted(CHECKS),
                     "kind_free_text": "explicit TLA+ specification suite (spec/*.tla) model-checked with TLC; TLC-generated behaviours/cases are concretised by C++ drivers linked against the library built from /repo's working tree; recorded ndjson traces are validated by TLC against trace specifications that evaluate the property invariants in exact dyadic arithmetic (Dyadic.tla)"}],
        "checks": [],
        "not_applicable": [],
        "notes": "see DESIGN.md; known_findings.json lists genuine defects (fixed / recorded)",
    }
    for pid in props:
        if pid in CHECKS:
            cat, text, note, tech, ref = CHECKS[pid]
            m["checks"].append({
                "property_id": pid,
                "quick_cmd": "python3 harness/check.py %s --tier quick" % pid,
                "thorough_cmd": "python3 harness/check.py %s --tier thorough" % pid,
                "evidence_file": "evidence/%s.json" % pid,
                "replay_cmd_template": "cat {path}/violation.json",
                "engine": "tlc-trace",
                "level_claimed": {"category": cat, "text": text, "design_ref": ref},
                "level_note": note, "technique": tech})
        else:
            m["not_applicable"].append({"property_id": pid, "reason": NA.get(pid, NOT_YET)})
    json.dump(m, open(os.path.join(V, "MANIFEST.json"), "w"), indent=1)
    try:
        subprocess.run(["python3-vt", "-c",
                        "import json,jsonschema;jsonschema.validate(json.load(open('%s/MANIFEST.json')),"
                        "json.load(open('/root/.vp/MANIFEST.schema.json')));print('MANIFEST valid')" % V], check=True)
    except Exception as e:
        print("validation skipped/failed:", e)


if __name__ == "__main__":
    main()
