----------------------------- MODULE SLHAWriter -----------------------------
(***************************************************************************)
(* The SLHA output document as a state machine: any input document, then   *)
(* up to MaxOps fill_block_entry calls.  Operators: SLHAWriterDefs.tla.    *)
(***************************************************************************)
EXTENDS SLHAWriterDefs
CONSTANT MaxOps

VARIABLES doc, n, lastOp

vars == <<doc, n, lastOp>>

NoOp == [form |-> "none", name |-> "OTH", entry |-> 6, v |-> "x"]

Init == doc \in Docs0 /\ n = 0 /\ lastOp = NoOp

Fill(op) == /\ n < MaxOps
            /\ doc' = Apply(doc, op)
            /\ n' = n + 1
            /\ lastOp' = op
Next == \E op \in Ops : Fill(op)

Spec == Init /\ [][Next]_vars

-----------------------------------------------------------------------------
(* Properties *)

EchoOthers == [][\E op \in Ops : lastOp' = op /\ EchoStep(doc, op, doc')]_vars

\* the writer finds its own value again
WriterSeesResult == lastOp.form # "none" => FirstRead(doc, lastOp.name, lastOp.entry) = lastOp.v

\* the library's reader sees the written value unless the input shadows it (action property: needs the pre-state)
ReaderSeesResult ==
   [][\A op \in Ops : lastOp' = op /\ ~Shadowed(doc, op) /\ ~Respelled(doc, op) /\ ~TwoBlocks(doc, op)
                        => LastRead(doc', op.name, op.entry) = op.v]_vars

\* a new block appears only when none of that name existed: at the end for values, in front for SPINFO
BlockPlacement ==
   [][\A op \in Ops : lastOp' = op =>
        IF \E i \in 1..Len(doc) : Canon(doc[i].name) = Canon(op.name) THEN Len(doc') = Len(doc)
        ELSE /\ Len(doc') = Len(doc) + 1
             /\ IF op.form = "value" THEN doc'[Len(doc')].name = op.name /\ SubSeq(doc', 1, Len(doc)) = doc
                ELSE doc'[1].name = op.name /\ SubSeq(doc', 2, Len(doc')) = doc]_vars

\* writing the same entry twice is the same as writing it once with the second value
Idempotent == \A op \in Ops : Apply(Apply(doc, op), op) = Apply(doc, op)

TypeOK == /\ \A i \in 1..Len(doc) : doc[i].name \in Names /\ \A j \in 1..Len(doc[i].lines) : doc[i].lines[j] \in Line
          /\ n \in 0..MaxOps
=============================================================================
