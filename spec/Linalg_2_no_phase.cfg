SPECIFICATION Spec
CONSTANTS
  N = 2
  VMax = 2
  Bug = "no_phase"
INVARIANTS Contract Ordered NonNegative ScaledUnitary
CHECK_DEADLOCK FALSE
