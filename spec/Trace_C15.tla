------------------------------ MODULE Trace_C15 ------------------------------
(***************************************************************************)
(* C15 - every reported number is consistent with every other report of    *)
(* the same quantity.                                                      *)
(*                                                                         *)
(*  Api(key, itype, exc, res)   what the library API returns for the model *)
(*        defined by the input (key = force/running flags, which are the   *)
(*        only options that reach the model)                               *)
(*  Out(akey, t, o, exit, kinds, slots, sci, pct, echoIn, echoOut)         *)
(*        what gm2calc.x printed for the same input and option vector o    *)
(*                                                                         *)
(* The slot table (which symbolic quantity is printed where) is CLIDefs'   *)
(* Amu/Unc/AmuBlock plus the two detailed reports below; printed decimals  *)
(* are compared with the API values to the printed precision; reported     *)
(* parts must add up; percentages must be 100 x component / reference.     *)
(***************************************************************************)
EXTENDS TraceBase, Dyadic, CLIDefs

VARIABLES l, api, seen, viol, nchecked
vars == <<l, api, seen, viol, nchecked>>

\* ---- symbolic expressions over API names --------------------------------------------------
V(n)        == [op |-> "v", n |-> n, a |-> 0, b |-> 0]
Plus(a, b)  == [op |-> "add", n |-> "", a |-> a, b |-> b]
Times(a, b) == [op |-> "mul", n |-> "", a |-> a, b |-> b]
MinusOne(a) == [op |-> "m1", n |-> "", a |-> a, b |-> 0]
ZeroE       == [op |-> "zero", n |-> "", a |-> 0, b |-> 0]

RECURSIVE Ev(_, _)
Ev(e, res) == CASE e.op = "v"    -> res[e.n]
                [] e.op = "add"  -> Add(Ev(e.a, res), Ev(e.b, res))
                [] e.op = "mul"  -> Mul(Ev(e.a, res), Ev(e.b, res))
                [] e.op = "m1"   -> Sub(Ev(e.a, res), One)
                [] e.op = "zero" -> Zero
RECURSIVE Names(_)
Names(e) == CASE e.op = "v" -> {e.n} [] e.op \in {"add", "mul"} -> Names(e.a) \cup Names(e.b)
              [] e.op = "m1" -> Names(e.a) [] OTHER -> {}
FinE(e, res) == \A n \in Names(e) : IsFin(res[n])

\* the quantity behind CLIDefs' symbolic names
Q(sym, t) ==
  CASE sym = "0" -> ZeroE
    [] sym = "a1L" -> V("amu1L") [] sym = "a1L+a2L" -> Plus(V("amu1L"), V("amu2L"))
    [] sym = "a1Lnr" -> V("amu1L_nr") [] sym = "a1Lnr+a2Lnr" -> Plus(V("amu1L_nr"), V("amu2L_nr"))
    [] sym = "u0" -> V("unc0L") [] sym = "u1" -> V("unc1L") [] sym = "u2" -> V("unc2L")

TB == V("tan_beta_cor")
\* detailed MSSM report (gm2calc.cpp, Detailed_writer<MSSMNoFV_onshell>): numbers in order of appearance
MSSMSci == << Plus(V("amu1L"), V("amu2L")), V("unc2L"), V("amu1LChi0"), V("amu1LChipm"), V("amu1L"), V("amu1L_nr"),
              Times(V("amu1LWHnu"), TB), Times(V("amu1LWHmuL"), TB), Times(V("amu1LBHmuL"), TB),
              Times(V("amu1LBHmuR"), TB), Times(V("amu1LBmuLmuR"), TB), V("amu1Lapprox"),
              V("amu2L"), V("amu2L_nr"), V("amu2LChi0Photonic"), V("amu2LChipmPhotonic"),
              Plus(V("amu2LChipmPhotonic"), V("amu2LChi0Photonic")),
              Times(V("amu2LWHnu"), TB), Times(V("amu2LWHmuL"), TB), Times(V("amu2LBHmuL"), TB),
              Times(V("amu2LBHmuR"), TB), Times(V("amu2LBmuLmuR"), TB), V("amu2LFSfapprox"),
              V("amu2LaSferm"), V("amu2LaCha"), Plus(V("amu2LaSferm"), V("amu2LaCha")),
              Times(MinusOne(TB), V("amu1L_nr")) >>
Best == Plus(V("amu1L"), V("amu2L"))
\* percentages: <<component, reference>> ("% of full 1L + 2L result", "... of 2L result")
MSSMPct == << <<V("amu1L"), Best>>, <<V("amu2L"), Best>>,
              <<Plus(V("amu2LChipmPhotonic"), V("amu2LChi0Photonic")), Best>>, <<V("amu2LFSfapprox"), Best>>,
              <<Plus(V("amu2LaSferm"), V("amu2LaCha")), Best>>, <<Times(MinusOne(TB), V("amu1L_nr")), V("amu1L_nr")>> >>
THDMSci == << Best, V("unc2L"), V("amu1L"), V("amu2LB"), V("amu2LF"), V("amu2L") >>
THDMPct == << <<V("amu1L"), Best>>, <<V("amu2LB"), V("amu2L")>>, <<V("amu2LF"), V("amu2L")>>, <<V("amu2L"), Best>> >>

\* ---- printed decimals --------------------------------------------------------------------
\* d = [k, s, n (limbs), e10]: value s * n * 10^e10 ;  x matches d to the printed precision:
\* 2 |x - d| <= 10^e10 (half a unit of the last printed digit) + rounding slack of x itself
DecMatches(d, x) ==
  IF d.k # "fin" \/ ~IsFin(x) THEN d.k = x.k /\ (d.k = "inf" => d.s = x.s)
  ELSE LET N == MkFin(d.s, 0, d.n)
           slack == Mul(Abs(x), PowTwo(-44))
       IN IF d.e10 >= 0
          THEN Le(Mul(Two, Abs(Sub(x, Mul(N, TenPow(d.e10))))), Add(TenPow(d.e10), slack))
          ELSE Le(Mul(Two, Abs(Sub(Mul(x, TenPow(-d.e10)), N))), Add(One, Mul(slack, TenPow(-d.e10))))

\* percentage printed with one decimal: |p ref - 100 comp| <= 0.05 |ref| (+ slack)
PctMatches(d, comp, ref) ==
  IF ~IsFin(comp) \/ ~IsFin(ref) \/ Sgn(ref) = 0 \/ d.k # "fin" THEN TRUE     \* nan/inf percentages: not judged
  ELSE LET N == MkFin(d.s, 0, d.n)      \* p * 10^(-e10), e10 = -1
           lhs == Abs(Sub(Mul(N, ref), Mul(Mul(OfInt(100), TenPow(-d.e10)), comp)))
           rhs == Add(Mul(TenPow(-d.e10), Abs(ref)), Mul(Mul(Abs(N), Abs(ref)), PowTwo(-40)))
       IN Le(Mul(Two, lhs), rhs)

SumsTo(parts, tot) == WithinRat(SumSeq(parts), tot, One, PowTwo(44), Add(SumAbsSeq(parts), Abs(tot)))

\* ---- invariants on an Api event (parts add up) ---------------------------------------------
ApiInvs(ev) ==
  LET r == ev.res
      P(n) == r[n]
      fin == \A n \in DOMAIN r : IsFin(r[n])
  IN IF ev.exc # "" \/ ~fin THEN << >>
     ELSE IF ev.itype = "thdm"
     THEN << I("Parts:2L=B+F", SumsTo(<<P("amu2LB"), P("amu2LF")>>, P("amu2L"))),
             I("Parts:B=EWadd+nonYuk+Yuk", SumsTo(<<P("B_EWadd"), P("B_nonYuk"), P("B_Yuk")>>, P("B"))),
             I("Parts:F=charged+neutral", SumsTo(<<P("F_charged"), P("F_neutral")>>, P("F"))),
             I("Parts:B=bosonic", P("B").b = P("amu2LB").b),
             I("Parts:F=fermionic", P("F").b = P("amu2LF").b),
             I("Parts:1L", P("amu1L_pars").b = P("amu1L").b) >>
     ELSE << I("Parts:1L=chi0+chipm", SumsTo(<<P("amu1LChi0"), P("amu1LChipm")>>, P("amu1L"))),
             I("Parts:2L=FSf+photonic+2La",
                 SumsTo(<<P("amu2LFSfapprox"), P("amu2LChipmPhotonic"), P("amu2LChi0Photonic"), P("amu2LaSferm"),
                          P("amu2LaCha")>>, P("amu2L"))),
             I("Parts:FSf=sum*tbcor",
                 SumsTo(<<Mul(P("amu2LWHnu"), P("tan_beta_cor")), Mul(P("amu2LWHmuL"), P("tan_beta_cor")),
                          Mul(P("amu2LBHmuL"), P("tan_beta_cor")), Mul(P("amu2LBHmuR"), P("tan_beta_cor")),
                          Mul(P("amu2LBmuLmuR"), P("tan_beta_cor"))>>, P("amu2LFSfapprox"))),
             I("Parts:FSf_nr=sum",
                 SumsTo(<<P("amu2LWHnu"), P("amu2LWHmuL"), P("amu2LBHmuL"), P("amu2LBHmuR"), P("amu2LBmuLmuR")>>,
                        P("amu2LFSfapprox_nr"))),
             I("Parts:1Lapprox=sum*tbcor",
                 SumsTo(<<Mul(P("amu1LWHnu"), P("tan_beta_cor")), Mul(P("amu1LWHmuL"), P("tan_beta_cor")),
                          Mul(P("amu1LBHmuL"), P("tan_beta_cor")), Mul(P("amu1LBHmuR"), P("tan_beta_cor")),
                          Mul(P("amu1LBmuLmuR"), P("tan_beta_cor"))>>, P("amu1Lapprox"))) >>

\* ---- invariants on an Out event ------------------------------------------------------------
OptsOf(o) == [fmt |-> o.fmt, loop |-> o.loop, tb |-> o.tb, force |-> o.force, verbose |-> o.verbose,
              unc |-> o.unc, running |-> o.running]

SlotName(f) == AmuBlock(f)[1] \o "_" \o ToString(AmuBlock(f)[2])

RECURSIVE SeqInvs(_, _, _, _, _)
SeqInvs(pre, ds, es, res, i) ==      \* printed sci numbers against expressions
  IF i > Len(es) THEN << >>
  ELSE <<I(pre \o ToString(i), i <= Len(ds) /\ (FinE(es[i], res) => DecMatches(ds[i], Ev(es[i], res))))>>
       \o SeqInvs(pre, ds, es, res, i + 1)

RECURSIVE PctInvs(_, _, _, _, _)
PctInvs(pre, ds, es, res, i) ==
  IF i > Len(es) THEN << >>
  ELSE <<I(pre \o ToString(i), i <= Len(ds) /\ ((FinE(es[i][1], res) /\ FinE(es[i][2], res)) =>
                                                PctMatches(ds[i], Ev(es[i][1], res), Ev(es[i][2], res))))>>
       \o PctInvs(pre, ds, es, res, i + 1)

OutInvs(ev, a) ==
  LET o == OptsOf(ev.o)
      t == ev.t
      res == a.res
      amuE == Q(Amu(t, o), t)
      uncE == Q(Unc(o), t)
      \* API functions the selected output needs (the detailed writer catches errors of the
      \* non-resummed values itself and never refuses because of them)
      needed == CASE o.fmt = 0 -> (IF o.unc THEN Names(uncE) ELSE Names(amuE))
                  [] o.fmt = 1 -> {}
                  [] OTHER -> Names(amuE) \cup (IF o.unc THEN Names(uncE) ELSE {})
      thr == {a.thr[i] : i \in DOMAIN a.thr}
      ok == a.exc = "" /\ needed \cap thr = {}
      hasRes == \E i \in DOMAIN ev.kinds : ev.kinds[i] \in {"number", "report"} \/
                                           (Len(ev.kinds[i]) > 7 /\ SubSeq(ev.kinds[i], 1, 7) = "result:")
  IN << I("RefusedIffApiThrows", ok <=> hasRes) >> \o
     (IF ~ok \/ ~hasRes THEN << >>
      ELSE IF o.fmt = 0
      THEN << I("Minimal:number", "number" \in DOMAIN ev.slots /\
                  LET e == IF o.unc THEN uncE ELSE amuE IN (FinE(e, res) => DecMatches(ev.slots["number"], Ev(e, res)))) >>
      ELSE IF o.fmt = 1
      THEN (IF t = "thdm" THEN SeqInvs("Report:sci", ev.sci, THDMSci, res, 1) \o PctInvs("Report:pct", ev.pct, THDMPct, res, 1)
                          ELSE SeqInvs("Report:sci", ev.sci, MSSMSci, res, 1) \o PctInvs("Report:pct", ev.pct, MSSMPct, res, 1))
      ELSE << I("SLHA:amu", SlotName(o.fmt) \in DOMAIN ev.slots /\
                   (FinE(amuE, res) => DecMatches(ev.slots[SlotName(o.fmt)], Ev(amuE, res)))),
              I("SLHA:onlyOwnBlock", \A f \in (2..4) \ {o.fmt} : SlotName(f) \notin DOMAIN ev.slots),
              I("SLHA:uncWhereDocumented", o.unc <=> "GM2CalcOutput_1" \in DOMAIN ev.slots),
              I("SLHA:unc", o.unc /\ "GM2CalcOutput_1" \in DOMAIN ev.slots =>
                   (FinE(uncE, res) => DecMatches(ev.slots["GM2CalcOutput_1"], Ev(uncE, res)))),
              I("SLHA:echo", ev.echoOut = ev.echoIn) >>)

\* the printed a_mu is the same text in formats 0, 2, 3, 4 for the same calculation options
AmuText(ev) == IF ev.o.fmt = 0 /\ ~ev.o.unc /\ "number" \in DOMAIN ev.slots THEN ev.slots["number"]
               ELSE IF ev.o.fmt \in 2..4 /\ SlotName(ev.o.fmt) \in DOMAIN ev.slots THEN ev.slots[SlotName(ev.o.fmt)]
               ELSE [k |-> "none"]

Init == l = 1 /\ api = [x \in {} |-> 0] /\ seen = [x \in {} |-> 0] /\ viol = << >> /\ nchecked = 0

TApi ==
  /\ l <= NLines /\ TraceLog[l].e = "Api"
  /\ LET ev == TraceLog[l]
         invs == ApiInvs(ev)
     IN /\ api' = (IF ev.first THEN [x \in {ev.key} |-> ev] ELSE [x \in DOMAIN api \cup {ev.key} |-> IF x = ev.key THEN ev ELSE api[x]])
        /\ seen' = IF ev.first THEN [x \in {} |-> 0] ELSE seen
        /\ viol' = viol \o Failed(invs, l, ev.sig) /\ nchecked' = nchecked + Len(invs)
  /\ l' = l + 1

TOut ==
  /\ l <= NLines /\ TraceLog[l].e = "Out"
  /\ LET ev == TraceLog[l]
         a  == api[ev.akey]
         invs == OutInvs(ev, a)
         txt == AmuText(ev)
         same == IF txt.k = "none" THEN << >>
                 ELSE << I("SameAcrossFormats", ev.ckey \in DOMAIN seen => seen[ev.ckey] = txt) >>
     IN /\ viol' = viol \o Failed(invs \o same, l, ev.sig) /\ nchecked' = nchecked + Len(invs) + Len(same)
        /\ seen' = IF txt.k = "none" \/ ev.ckey \in DOMAIN seen THEN seen
                   ELSE [x \in DOMAIN seen \cup {ev.ckey} |-> IF x = ev.ckey THEN txt ELSE seen[x]]
  /\ UNCHANGED api /\ l' = l + 1

\* Prefilled(fmt, echoIn, echoOut, slotPresent): the input already contains result blocks of a spectrum generator
\* (LOWEN, SPhenoLowEnergy, GM2CalcOutput with further entries).  The SLHA output must echo the input blocks
\* unchanged: every line except the result entries of the selected format itself (and SPINFO) is the same, in order.
TPrefilled ==
  /\ l <= NLines /\ TraceLog[l].e = "Prefilled"
  /\ LET ev == TraceLog[l]
         invs == IF ev.produced THEN << I("SLHA:echoPrefilled", ev.echoOut = ev.echoIn),
                                        I("SLHA:resultWritten", ev.slotPresent) >> ELSE << >>
     IN viol' = viol \o Failed(invs, l, ev.sig) /\ nchecked' = nchecked + Len(invs)
  /\ UNCHANGED <<api, seen>> /\ l' = l + 1

Next == TApi \/ TOut \/ TPrefilled
Spec == Init /\ [][Next]_vars
TraceReport == l = NLines + 1 => WriteReport(l, viol, [nchecked |-> nchecked])
=============================================================================
