"""Abstract case sets enumerated by TLC from spec/Cases.tla (cached per process)."""
import os
import tempfile

import tlc

_cache = None


def all_cases():
    global _cache
    if _cache is None:
        out = os.path.join(tlc._work(), "cases_%d.json" % os.getpid())
        _cache, _ = tlc.generate_json("Cases.tla", "Cases.cfg", out, workers=1, heap="2g")
        os.remove(out)
    return _cache


def get(pid):
    return all_cases()[pid]
