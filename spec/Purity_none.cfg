SPECIFICATION Spec
CONSTANTS
  Threads = {1, 2, 3}
  Bug = "none"
  MaxOps = 2
INVARIANTS NoConflict SharedUnchanged Pure Deterministic
CHECK_DEADLOCK FALSE
