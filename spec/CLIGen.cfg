SPECIFICATION Spec
