"""C14 - the command-line program is total and memory-safe on arbitrary input."""
import json
import os
import random
import re
from concurrent.futures import ThreadPoolExecutor

import build
import cli
import core
import tlc

ARG = {"help": ["--help", "-h"], "version": ["--version", "-v"],
       "unknown": ["--bogus", "-x", "input.slha", "--slha-input-file", "--thdm-input-file ", "--HELP", ""]}
RESULT_NAMES = re.compile(r"(?i)SPINFO|GM2CalcOutput|LOWEN|SPhenoLowEnergy")


def model_runs(cx, tier):
    for cfg, label in (("CLI_seq_quick.cfg" if tier == "quick" else "CLI_seq.cfg", "all argv x config-entry sequences x input classes"),
                       ("CLI_full.cfg", "all 480 option vectors x 3 input types x 6 input classes"),
                       ("CLI_live.cfg", "termination under fairness")):
        r = tlc.model_check("CLI.tla", cfg, workers=16, heap="8g", timeout=3000)
        cx.add_model(r, "CLI.tla %s: %s" % (cfg, label))
    for bug, inv in (("silentfail", "Diagnosed"), ("exit2", "TypeOK")):
        r = tlc.model_check("CLI.tla", "CLI_bug_%s.cfg" % bug, expect_violation=inv, workers=8, heap="4g")
        cx.add_model(r, "non-vacuity: wrong variant '%s' must violate %s" % (bug, inv))


def gen_cases(cx, tier, seed):
    out = cx.path("clicases.json")
    env = {"GEN_NRAND": "150", "GEN_ALLOPTS": "0"} if tier == "quick" else {"GEN_NRAND": "3000", "GEN_ALLOPTS": "1"}
    data, _ = tlc.generate_json("CLIGen.tla", "CLIGen.cfg", out, env=env, workers=1, heap="4g", extra=["-seed", str(seed)])
    return data["cases"]


def concretise(case, bases, fdir, n, rnd):
    """abstract environment -> (argv list, stdin bytes or None, sig)"""
    itype = "slha"
    for a in case["argv"]:
        if a in ("slha", "gm2calc", "thdm"):
            itype = a
    text = bases[(itype, case["outcome"])] + cli.render_cfg(case["cfg"], rnd)
    path = os.path.join(fdir, "case%05d.in" % n)
    open(path, "w").write(text)
    use_stdin = case["readable"] and rnd.random() < 0.15
    argv = []
    for a in case["argv"]:
        if a in ("slha", "gm2calc", "thdm"):
            src = "-" if use_stdin else (path if case["readable"] else os.path.join(fdir, "does-not-exist-%d" % n))
            argv.append("--%s-input-file=%s" % (a, src))
        else:
            argv.append(rnd.choice(ARG[a]))
    return argv, (text.encode() if use_stdin else None), "%s/%s" % (itype, case["outcome"])


def mutate(text, rnd):
    """structure-aware mutation of an input file (token replacement, line duplication/truncation,
    header damage, byte noise)"""
    lines = text.split("\n")
    ops = rnd.randint(1, 4)
    for _ in range(ops):
        if not lines:
            break
        op = rnd.randrange(9)
        i = rnd.randrange(len(lines))
        f = lines[i].split()
        if op == 0 and f:
            j = rnd.randrange(len(f))
            f[j] = rnd.choice(["nan", "inf", "-inf", "1e400", "-0", "99999999999999999999", "", "1e-400", "0x1p3",
                               "2147483648", "-2147483649", "1e300", "-1e300", "4.9e-324", "1e", ".", "+", "1..2"])
            lines[i] = " " + "  ".join(f)
        elif op == 1:
            lines.insert(i, lines[i])
        elif op == 2:
            lines = lines[:i] if rnd.random() < 0.5 else lines[i:]
        elif op == 3 and f and f[0].upper() == "BLOCK":
            lines[i] = rnd.choice(["Block", "Block ", "BLOCK Q= 1", "Block " + "A" * 300, "Blok " + " ".join(f[1:]),
                                   "Block %s Q=" % (f[1] if len(f) > 1 else "X"), "Block %s Q= abc" % (f[1] if len(f) > 1 else "X"),
                                   "DECAY 25 1.0", "Block # none"])
        elif op == 4:
            lines[i] = lines[i][:rnd.randrange(len(lines[i]) + 1)]
        elif op == 5:
            lines[i] = "".join(chr(rnd.randrange(1, 256)) for _ in range(rnd.randrange(1, 40)))
        elif op == 6 and f:
            lines[i] = " " + f[0] + " " + " ".join(rnd.choice(["1e300", "-1e300", "1e-300", "0", "-0.0"]) for _ in f[1:])
        elif op == 7:
            lines.insert(i, "Block GM2CalcConfig\n %d %s" % (rnd.randrange(8), rnd.choice(["0", "1", "2", "4", "5", "-1", "1.5", "nan", "1e10", "1e300"])))
        else:
            lines[i] = lines[i].replace(" ", "\t") + "\r"
    return "\n".join(lines)


def fuzz_inputs(tier, rnd):
    repo = build.REPO
    files = [("slha", os.path.join(repo, "input", "example.slha")), ("gm2calc", os.path.join(repo, "input", "example.gm2")),
             ("thdm", os.path.join(repo, "input", "example.thdm"))]
    tp = os.path.join(repo, "test", "test_points")
    for f in sorted(os.listdir(tp)):
        if f.endswith(".in"):
            kind = "thdm" if f.startswith("thdm") else ("slha" if ("slha" in open(os.path.join(tp, f)).read().lower() or "HMIX" in open(os.path.join(tp, f)).read()) else "gm2calc")
            files.append((kind, os.path.join(tp, f)))
    n_mut = 240 if tier == "quick" else 6000
    n_rand = 40 if tier == "quick" else 600
    out = []
    for i in range(n_mut):
        kind, path = files[i % len(files)]
        text = open(path, errors="replace").read()
        data = mutate(text, rnd).encode("utf-8", "surrogateescape")
        it = kind if rnd.random() < 0.8 else rnd.choice(["slha", "gm2calc", "thdm"])
        out.append((it, data, "mut/%s/%s" % (it, os.path.basename(path))))
    # directed: extreme values for every entry that is converted to an integer / enum / flag
    ex = {t: open(os.path.join(repo, "input", f)).read() for t, f in (("slha", "example.slha"), ("gm2calc", "example.gm2"), ("thdm", "example.thdm"))}
    extremes = ["1e300", "-1e300", "2147483648", "-2147483649", "3e9", "-3e9", "1e10", "4294967297", "0.5", "-0", "1e-300", "7", "-1"]
    for v in extremes:
        out.append(("thdm", (ex["thdm"] + "Block MINPAR\n    24   %s\n" % v).encode(), "directed/thdm/MINPAR[24]"))
        for t in ("slha", "gm2calc", "thdm"):
            k = rnd.randrange(7)
            out.append((t, (ex[t] + "Block GM2CalcConfig\n    %d   %s\n" % (k, v)).encode(), "directed/%s/GM2CalcConfig" % t))
    for i in range(n_rand):
        n = rnd.choice([0, 1, 7, 64, 1000, 65536])
        style = rnd.randrange(3)
        if style == 0:
            data = bytes(rnd.randrange(256) for _ in range(n))
        elif style == 1:
            data = bytes(rnd.choice(b" \t\n0123456789.eE+-#BlockQ=") for _ in range(n))
        else:
            data = ("Block GM2CalcInput\n" + "\n".join(" %d %s" % (rnd.randrange(40), rnd.choice(["1", "0", "-1", "1e300", "1e-300"]))
                                                          for _ in range(min(n, 200)))).encode()
        out.append((rnd.choice(["slha", "gm2calc", "thdm"]), data, "rand/style%d/len%d" % (style, n)))
    return out


def run(tier, seed):
    cx = core.Ctx("C14", tier, seed, "model_checking")
    rnd = random.Random(seed)
    model_runs(cx, tier)
    cases = gen_cases(cx, tier, seed)
    exe = build.gm2calc_x("asan")
    bases = cli.base_inputs()
    fdir = cx.path("inputs")
    os.makedirs(fdir)
    jobs = []
    for n, c in enumerate(cases):
        argv, stdin, sig = concretise(c, bases, fdir, n, rnd)
        jobs.append(("case", c, argv, stdin, sig))
    for n, (it, data, sig) in enumerate(fuzz_inputs(tier, rnd)):
        if RESULT_NAMES.search(data.decode("latin-1")):
            data = RESULT_NAMES.sub("XBLOCK", data.decode("latin-1")).encode("latin-1")
        p = os.path.join(fdir, "fuzz%05d.in" % n)
        open(p, "wb").write(data)
        if rnd.random() < 0.1:
            jobs.append(("fuzz", it, ["--%s-input-file=-" % it], data, sig))
        else:
            jobs.append(("fuzz", it, ["--%s-input-file=%s" % (it, p)], None, sig))

    def do(j):
        return cli.run(exe, j[2], stdin=j[3], timeout=120)
    with ThreadPoolExecutor(max_workers=16) as ex:
        results = list(ex.map(do, jobs))
    tr = cx.path("trace.ndjson")
    sanit = 0
    with open(tr, "w") as fh:
        for j, r in zip(jobs, results):
            kinds = cli.classify(r["stdout"])
            # a sanitizer report is an abnormal termination: exit codes 98/99 are observed as such
            if "ERROR: AddressSanitizer" in r["stderr"] or "runtime error:" in r["stderr"] or "LeakSanitizer" in r["stderr"]:
                sanit += 1
            obs = {"exit": r["exit"], "signal": r["signal"], "timeout": r["timeout"], "kinds": kinds,
                   "stderrEmpty": r["stderr"].strip() == "", "sig": j[4]}
            if j[0] == "case":
                c = j[1]
                fh.write(json.dumps({"e": "Case", "argv": c["argv"], "readable": c["readable"], "cfg": c["cfg"],
                                     "outcome": c["outcome"], "case": j[4]}) + "\n")
                obs["e"] = "Run"
                cx.distinct.add(json.dumps(c, sort_keys=True))
            else:
                obs.update({"e": "Fuzz", "argvKind": "file", "itype": j[1]})
                cx.distinct.add(("fuzz", r["exit"], tuple(kinds), j[4]))
            fh.write(json.dumps(obs) + "\n")
            cx.evaluations += 1
            if r["exit"] not in (0, 1) or r["signal"] or r["timeout"]:
                cx.note("abnormal: %s argv=%s exit=%s signal=%s stderr=%s" % (j[4], j[2], r["exit"], r["signal"], r["stderr"][-300:]))
                # keep the input for replay
                keep = cx.path("abnormal_%d.txt" % cx.evaluations)
                open(keep, "w").write("argv: %s\nstderr:\n%s\n" % (j[2], r["stderr"][-3000:]))
    cx.cov["sanitizer_reports"] = sanit
    # memcheck pass (uninitialised memory): an evenly spread subset of the same jobs on the plain build under valgrind
    plain = build.gm2calc_x("plain")
    nmc = 64 if tier == "quick" else 1200
    step = max(1, len(jobs) // nmc)
    sub = [(j, r) for j, r in list(zip(jobs, results))[rnd.randrange(step)::step] if not r["timeout"] and not r["signal"]]

    def vg(jr):
        j = jr[0]
        return cli.run("valgrind", ["-q", "--error-exitcode=97", "--track-origins=no", plain] + list(j[2]), stdin=j[3], timeout=600)
    with ThreadPoolExecutor(max_workers=16) as ex:
        vres = list(ex.map(vg, sub))
    with open(tr, "a") as fh:
        for (j, r), v in zip(sub, vres):
            reports = len(re.findall(r"(?m)^==\d+== (?:Conditional jump|Use of uninitialised|Invalid read|Invalid write|Syscall param|Invalid free|Mismatched free)", v["stderr"]))
            fh.write(json.dumps({"e": "Memcheck", "vgexit": v["exit"], "reports": reports, "timeout": v["timeout"], "exit": r["exit"],
                                 "sig": "memcheck/" + j[4]}) + "\n")
            cx.evaluations += 1
            if v["exit"] == 97 or reports:
                open(cx.path("memcheck_%d.txt" % cx.evaluations), "w").write("argv: %s\nstderr:\n%s\n" % (j[2], v["stderr"][-4000:]))
    cx.cov["memcheck_runs"] = len(sub)
    # split: a Case line and its Run line must stay together
    lines = open(tr).read().splitlines()
    groups, i = [], 0
    while i < len(lines):
        if lines[i].startswith('{"e": "Case"'):
            groups.append(lines[i:i + 2]); i += 2
        else:
            groups.append(lines[i:i + 1]); i += 1
    nsh = 8
    shards = []
    for s in range(nsh):
        p = "%s.s%02d" % (tr, s)
        with open(p, "w") as fh:
            for g in groups[s::nsh]:
                fh.write("\n".join(g) + "\n")
        shards.append(p)
    for rep in tlc.validate_traces("Trace_C14.tla", shards, jobs=8, cfg="Trace_C14.cfg"):
        cx.add_report(rep)
    cx.sample({"case": cases[len(cases) // 2], "argv": jobs[len(cases) // 2][2]})
    cx.sample({"fuzz_input_signature": jobs[-1][4], "argv": jobs[-1][2]})
    cx.assumptions += ["memory safety / UB are observed, not derived: the replayed binary is the ASan+UBSan(+float-cast-overflow) build with leak check, any report is an abnormal exit (98/99) or a signal; uninitialised memory: a subset of the same runs under valgrind memcheck on the plain build",
                       "stdout abstraction function harness/lib/cli.py:classify",
                       "'for any byte sequence' is sampled; exhaustive only over the abstract environments of CLI.tla"]
    return cx.finish(rule="environments of CLI.tla enumerated by TLC (CLIGen.tla: all argv up to 2 tokens, every single "
                          "GM2CalcConfig entry x 6 input classes x 3 types, random entry sequences, option vectors) replayed "
                          "into the sanitizer build and validated step by step against the machine; plus structure-aware "
                          "mutations of the shipped inputs/test points and random bytes checked against Allowed. "
                          "distinct_nontrivial = distinct abstract environments + distinct (fuzz signature, outcome)")
