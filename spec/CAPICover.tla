----------------------------- MODULE CAPICover -----------------------------
(***************************************************************************)
(* Transition cover of CAPI.tla: one call history per distinct             *)
(*   (abstract state of the handle before, call with argument class,       *)
(*    abstract state after)                                                *)
(* of the MSSM handle and of the THDM handle.  TLC's breadth-first search  *)
(* finds each such transition first along a shortest history; the VIEW     *)
(* identifies states that agree on the transition just taken, and the      *)
(* invariant EmitCover prints the history of every distinct one.  The      *)
(* harness replays each history into the real C interface                  *)
(* (harness/props/c17.py), so that every call class is exercised with      *)
(* every argument class from every abstract state, e.g. the string getters *)
(* with every buffer-length class while a problem is flagged.              *)
(***************************************************************************)
EXTENDS CAPI

VARIABLE pre
CInit == Init /\ pre = << >>
CNext == Next /\ pre' = <<m, t>>
CSpec == CInit /\ [][CNext]_<<vars, pre>>

LastCall == IF hist = << >> THEN [c |-> "-", a |-> "-"] ELSE hist[Len(hist)]
IsT(c) == c \in TCalls
\* the two handles are independent: a transition of one is identified without the state of the other
CView == IF hist = << >> THEN <<"init">>
         ELSE IF IsT(LastCall.c) THEN <<"T", pre[2], LastCall, t, aborted>>
         ELSE <<"M", pre[1], LastCall, m, aborted>>
EmitCover == hist = << >> \/ PrintT(<<"HIST", ToJson(hist)>>)
=============================================================================
