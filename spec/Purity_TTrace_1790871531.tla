---- MODULE Purity_TTrace_1790871531 ----
EXTENDS Sequences, TLCExt, Toolbox, Purity, Naturals, TLC

_expression ==
    LET Purity_TEExpression == INSTANCE Purity_TEExpression
    IN Purity_TEExpression!expression
----

_trace ==
    LET Purity_TETrace == INSTANCE Purity_TETrace
    IN Purity_TETrace!trace
----

_inv ==
    ~(
        TLCGet("level") = Len(_TETrace)
        /\
        op = (<<"amu_nr", "none", "none">>)
        /\
        res = ({})
        /\
        pc = (<<"mutated", "idle", "idle">>)
        /\
        readers = ((<<"shared", 0>> :> {1} @@ <<"priv", 1>> :> {} @@ <<"priv", 2>> :> {} @@ <<"priv", 3>> :> {} @@ <<"copy", 1>> :> {} @@ <<"copy", 2>> :> {} @@ <<"copy", 3>> :> {} @@ <<"cache", 0>> :> {}))
        /\
        atBegin = (<<0, 0, 0>>)
        /\
        sawContent = (<<0, 0, 0>>)
        /\
        arg = (<<<<"shared", 0>>, <<"shared", 0>>, <<"shared", 0>>>>)
        /\
        writers = ((<<"shared", 0>> :> {1} @@ <<"priv", 1>> :> {} @@ <<"priv", 2>> :> {} @@ <<"priv", 3>> :> {} @@ <<"copy", 1>> :> {} @@ <<"copy", 2>> :> {} @@ <<"copy", 3>> :> {} @@ <<"cache", 0>> :> {}))
        /\
        done = (<<0, 0, 0>>)
        /\
        content = ((<<"shared", 0>> :> 100 @@ <<"priv", 1>> :> 0 @@ <<"priv", 2>> :> 0 @@ <<"priv", 3>> :> 0 @@ <<"copy", 1>> :> 0 @@ <<"copy", 2>> :> 0 @@ <<"copy", 3>> :> 0 @@ <<"cache", 0>> :> 0))
        /\
        conflict = (FALSE)
    )
----

_init ==
    /\ done = _TETrace[1].done
    /\ content = _TETrace[1].content
    /\ readers = _TETrace[1].readers
    /\ atBegin = _TETrace[1].atBegin
    /\ op = _TETrace[1].op
    /\ pc = _TETrace[1].pc
    /\ conflict = _TETrace[1].conflict
    /\ res = _TETrace[1].res
    /\ sawContent = _TETrace[1].sawContent
    /\ writers = _TETrace[1].writers
    /\ arg = _TETrace[1].arg
----

_next ==
    /\ \E i,j \in DOMAIN _TETrace:
        /\ \/ /\ j = i + 1
              /\ i = TLCGet("level")
        /\ done  = _TETrace[i].done
        /\ done' = _TETrace[j].done
        /\ content  = _TETrace[i].content
        /\ content' = _TETrace[j].content
        /\ readers  = _TETrace[i].readers
        /\ readers' = _TETrace[j].readers
        /\ atBegin  = _TETrace[i].atBegin
        /\ atBegin' = _TETrace[j].atBegin
        /\ op  = _TETrace[i].op
        /\ op' = _TETrace[j].op
        /\ pc  = _TETrace[i].pc
        /\ pc' = _TETrace[j].pc
        /\ conflict  = _TETrace[i].conflict
        /\ conflict' = _TETrace[j].conflict
        /\ res  = _TETrace[i].res
        /\ res' = _TETrace[j].res
        /\ sawContent  = _TETrace[i].sawContent
        /\ sawContent' = _TETrace[j].sawContent
        /\ writers  = _TETrace[i].writers
        /\ writers' = _TETrace[j].writers
        /\ arg  = _TETrace[i].arg
        /\ arg' = _TETrace[j].arg

\* Uncomment the ASSUME below to write the states of the error trace
\* to the given file in Json format. Note that you can pass any tuple
\* to `JsonSerialize`. For example, a sub-sequence of _TETrace.
    \* ASSUME
    \*     LET J == INSTANCE Json
    \*         IN J!JsonSerialize("Purity_TTrace_1790871531.json", _TETrace)

=============================================================================

 Note that you can extract this module `Purity_TEExpression`
  to a dedicated file to reuse `expression` (the module in the 
  dedicated `Purity_TEExpression.tla` file takes precedence 
  over the module `Purity_TEExpression` below).

---- MODULE Purity_TEExpression ----
EXTENDS Sequences, TLCExt, Toolbox, Purity, Naturals, TLC

expression == 
    [
        \* To hide variables of the `Purity` spec from the error trace,
        \* remove the variables below.  The trace will be written in the order
        \* of the fields of this record.
        done |-> done
        ,content |-> content
        ,readers |-> readers
        ,atBegin |-> atBegin
        ,op |-> op
        ,pc |-> pc
        ,conflict |-> conflict
        ,res |-> res
        ,sawContent |-> sawContent
        ,writers |-> writers
        ,arg |-> arg
        
        \* Put additional constant-, state-, and action-level expressions here:
        \* ,_stateNumber |-> _TEPosition
        \* ,_doneUnchanged |-> done = done'
        
        \* Format the `done` variable as Json value.
        \* ,_doneJson |->
        \*     LET J == INSTANCE Json
        \*     IN J!ToJson(done)
        
        \* Lastly, you may build expressions over arbitrary sets of states by
        \* leveraging the _TETrace operator.  For example, this is how to
        \* count the number of times a spec variable changed up to the current
        \* state in the trace.
        \* ,_doneModCount |->
        \*     LET F[s \in DOMAIN _TETrace] ==
        \*         IF s = 1 THEN 0
        \*         ELSE IF _TETrace[s].done # _TETrace[s-1].done
        \*             THEN 1 + F[s-1] ELSE F[s-1]
        \*     IN F[_TEPosition - 1]
    ]

=============================================================================



Parsing and semantic processing can take forever if the trace below is long.
 In this case, it is advised to uncomment the module below to deserialize the
 trace from a generated binary file.

\*
\*---- MODULE Purity_TETrace ----
\*EXTENDS IOUtils, Purity, TLC
\*
\*trace == IODeserialize("Purity_TTrace_1790871531.bin", TRUE)
\*
\*=============================================================================
\*

---- MODULE Purity_TETrace ----
EXTENDS Purity, TLC

trace == 
    <<
    ([op |-> <<"none", "none", "none">>,res |-> {},pc |-> <<"idle", "idle", "idle">>,readers |-> (<<"shared", 0>> :> {} @@ <<"priv", 1>> :> {} @@ <<"priv", 2>> :> {} @@ <<"priv", 3>> :> {} @@ <<"copy", 1>> :> {} @@ <<"copy", 2>> :> {} @@ <<"copy", 3>> :> {} @@ <<"cache", 0>> :> {}),atBegin |-> <<0, 0, 0>>,sawContent |-> <<0, 0, 0>>,arg |-> <<<<"shared", 0>>, <<"shared", 0>>, <<"shared", 0>>>>,writers |-> (<<"shared", 0>> :> {} @@ <<"priv", 1>> :> {} @@ <<"priv", 2>> :> {} @@ <<"priv", 3>> :> {} @@ <<"copy", 1>> :> {} @@ <<"copy", 2>> :> {} @@ <<"copy", 3>> :> {} @@ <<"cache", 0>> :> {}),done |-> <<0, 0, 0>>,content |-> (<<"shared", 0>> :> 0 @@ <<"priv", 1>> :> 0 @@ <<"priv", 2>> :> 0 @@ <<"priv", 3>> :> 0 @@ <<"copy", 1>> :> 0 @@ <<"copy", 2>> :> 0 @@ <<"copy", 3>> :> 0 @@ <<"cache", 0>> :> 0),conflict |-> FALSE]),
    ([op |-> <<"amu_nr", "none", "none">>,res |-> {},pc |-> <<"begun", "idle", "idle">>,readers |-> (<<"shared", 0>> :> {1} @@ <<"priv", 1>> :> {} @@ <<"priv", 2>> :> {} @@ <<"priv", 3>> :> {} @@ <<"copy", 1>> :> {} @@ <<"copy", 2>> :> {} @@ <<"copy", 3>> :> {} @@ <<"cache", 0>> :> {}),atBegin |-> <<0, 0, 0>>,sawContent |-> <<0, 0, 0>>,arg |-> <<<<"shared", 0>>, <<"shared", 0>>, <<"shared", 0>>>>,writers |-> (<<"shared", 0>> :> {} @@ <<"priv", 1>> :> {} @@ <<"priv", 2>> :> {} @@ <<"priv", 3>> :> {} @@ <<"copy", 1>> :> {} @@ <<"copy", 2>> :> {} @@ <<"copy", 3>> :> {} @@ <<"cache", 0>> :> {}),done |-> <<0, 0, 0>>,content |-> (<<"shared", 0>> :> 0 @@ <<"priv", 1>> :> 0 @@ <<"priv", 2>> :> 0 @@ <<"priv", 3>> :> 0 @@ <<"copy", 1>> :> 0 @@ <<"copy", 2>> :> 0 @@ <<"copy", 3>> :> 0 @@ <<"cache", 0>> :> 0),conflict |-> FALSE]),
    ([op |-> <<"amu_nr", "none", "none">>,res |-> {},pc |-> <<"mutated", "idle", "idle">>,readers |-> (<<"shared", 0>> :> {1} @@ <<"priv", 1>> :> {} @@ <<"priv", 2>> :> {} @@ <<"priv", 3>> :> {} @@ <<"copy", 1>> :> {} @@ <<"copy", 2>> :> {} @@ <<"copy", 3>> :> {} @@ <<"cache", 0>> :> {}),atBegin |-> <<0, 0, 0>>,sawContent |-> <<0, 0, 0>>,arg |-> <<<<"shared", 0>>, <<"shared", 0>>, <<"shared", 0>>>>,writers |-> (<<"shared", 0>> :> {1} @@ <<"priv", 1>> :> {} @@ <<"priv", 2>> :> {} @@ <<"priv", 3>> :> {} @@ <<"copy", 1>> :> {} @@ <<"copy", 2>> :> {} @@ <<"copy", 3>> :> {} @@ <<"cache", 0>> :> {}),done |-> <<0, 0, 0>>,content |-> (<<"shared", 0>> :> 100 @@ <<"priv", 1>> :> 0 @@ <<"priv", 2>> :> 0 @@ <<"priv", 3>> :> 0 @@ <<"copy", 1>> :> 0 @@ <<"copy", 2>> :> 0 @@ <<"copy", 3>> :> 0 @@ <<"cache", 0>> :> 0),conflict |-> FALSE])
    >>
----


=============================================================================

---- CONFIG Purity_TTrace_1790871531 ----
CONSTANTS
    Threads = { 1 , 2 , 3 }
    Bug = "mutatecaller"
    MaxOps = 2

INVARIANT
    _inv

CHECK_DEADLOCK
    \* CHECK_DEADLOCK off because of PROPERTY or INVARIANT above.
    FALSE

INIT
    _init

NEXT
    _next

CONSTANT
    _TETrace <- _trace

ALIAS
    _expression
=============================================================================
\* Generated on Thu Oct 01 16:18:52 UTC 2026