------------------------------ MODULE Trace_C14 ------------------------------
(***************************************************************************)
(* C14 (and the program-level parts of C15/C16): executions of the real    *)
(* gm2calc.x validated against the machine CLI.tla.                        *)
(*                                                                         *)
(*  Case(argv, readable, cfg, outcome)  the environment of one execution   *)
(*        (abstract argument vector, GM2CalcConfig entries in file order,  *)
(*        outcome class the chosen input is built to produce); resets the  *)
(*        machine.  The machine then takes its own steps (ParseArg, ...,   *)
(*        RunModel) silently until pc = "exit".                            *)
(*  Run(exit, signal, timeout, kinds, stderrEmpty)  what was observed; it  *)
(*        must equal the observation the machine predicts (RunAsSpecified) *)
(*        and satisfy Allowed.                                             *)
(*  Fuzz(argvKind, itype, exit, signal, timeout, kinds, stderrEmpty)       *)
(*        an execution on arbitrary bytes: only Allowed is required.       *)
(* All CLI.tla invariants are evaluated in every state of the replay.      *)
(***************************************************************************)
EXTENDS CLI, TraceBase

VARIABLES l, viol, nchecked
tvars == <<l, viol, nchecked>>

TInit == /\ l = 1 /\ viol = << >> /\ nchecked = 0
         /\ argv = << >> /\ ai = 1 /\ pc = "idle" /\ itype = "slha" /\ haveSource = FALSE
         /\ readable = TRUE /\ cfg = << >> /\ ci = 1 /\ opts = DefaultOpts("slha") /\ outcome = "ok"
         /\ stdout = << >> /\ stderrNonEmpty = FALSE /\ exit = -1

TCase ==
  /\ l <= NLines /\ TraceLog[l].e = "Case" /\ pc \in {"idle", "exit"}
  /\ LET ev == TraceLog[l] IN
       /\ argv' = ev.argv /\ readable' = ev.readable /\ cfg' = ev.cfg /\ outcome' = ev.outcome
       /\ ai' = 1 /\ pc' = "args" /\ itype' = "slha" /\ haveSource' = FALSE /\ ci' = 1
       /\ opts' = DefaultOpts("slha") /\ stdout' = << >> /\ stderrNonEmpty' = FALSE /\ exit' = -1
  /\ l' = l + 1 /\ UNCHANGED <<viol, nchecked>>

\* the machine's own steps between a Case and its Run
TStep == /\ pc \notin {"idle", "exit"} /\ Next /\ UNCHANGED tvars

\* SPINFO[1,2,3] (warnings recorded in the model's problem object, e.g. non-convergence) may
\* precede any SLHA-format result; whether a point produces one is not part of the environment
StripWarn(k) == IF Len(k) >= 3 /\ SubSeq(k, 1, 3) = <<"spinfo:1", "spinfo:2", "spinfo:3">> THEN SubSeq(k, 4, Len(k)) ELSE k

ObsOf(ev, ak, it) == [argvKind |-> ak, itype |-> it, exit |-> ev.exit, signal |-> ev.signal,
                      kinds |-> ev.kinds, stderrEmpty |-> ev.stderrEmpty]

TRun ==
  /\ l <= NLines /\ TraceLog[l].e = "Run" /\ pc = "exit"
  /\ LET ev == TraceLog[l]
         o  == ObsOf(ev, ArgvKind(argv), itype)
         invs == << I("Terminated", ev.timeout = 0),
                    I("NoSignal", ev.signal = 0),
                    I("ExitZeroOrOne", ev.signal = 0 /\ ev.timeout = 0 => ev.exit \in {0, 1}),
                    I("Allowed", ev.signal = 0 /\ ev.timeout = 0 => Allowed(o)),
                    I("RunAsSpecified", ev.signal = 0 /\ ev.timeout = 0 =>
                          /\ ev.exit = exit /\ StripWarn(ev.kinds) = Kinds(stdout)
                          /\ (stderrNonEmpty => ~ev.stderrEmpty)) >>
     IN /\ viol' = viol \o Failed(invs, l, ev.sig) /\ nchecked' = nchecked + Len(invs)
  /\ l' = l + 1 /\ pc' = "idle"
  /\ UNCHANGED <<argv, ai, itype, haveSource, readable, cfg, ci, opts, outcome, stdout, stderrNonEmpty, exit>>

TFuzz ==
  /\ l <= NLines /\ TraceLog[l].e = "Fuzz" /\ pc \in {"idle", "exit"}
  /\ LET ev == TraceLog[l]
         o  == ObsOf(ev, ev.argvKind, ev.itype)
         invs == << I("Terminated", ev.timeout = 0),
                    I("NoSignal", ev.signal = 0),
                    I("ExitZeroOrOne", ev.signal = 0 /\ ev.timeout = 0 => ev.exit \in {0, 1}),
                    I("Allowed", ev.signal = 0 /\ ev.timeout = 0 => Allowed(o)) >>
     IN /\ viol' = viol \o Failed(invs, l, ev.sig) /\ nchecked' = nchecked + Len(invs)
  /\ l' = l + 1
  /\ UNCHANGED vars

\* Memcheck(vgexit, reports): the same command line and input replayed under valgrind memcheck on the plain build
\* (use of uninitialised memory is invisible to ASan / UBSan); 97 is valgrind's --error-exitcode
TMemcheck ==
  /\ l <= NLines /\ TraceLog[l].e = "Memcheck" /\ pc \in {"idle", "exit"}
  /\ LET ev == TraceLog[l]
         invs == << I("NoUninitialisedUse", ev.vgexit # 97 /\ ev.reports = 0),
                    I("SameExitUnderMemcheck", ev.timeout = 0 /\ ev.vgexit # 97 => ev.vgexit = ev.exit) >>
     IN /\ viol' = viol \o Failed(invs, l, ev.sig) /\ nchecked' = nchecked + Len(invs)
  /\ l' = l + 1
  /\ UNCHANGED vars

TNext == TCase \/ TStep \/ TRun \/ TFuzz \/ TMemcheck
TSpec == TInit /\ [][TNext]_<<vars, tvars>>

\* invariants of CLI.tla, evaluated on the replayed machine states
MachineInvs == pc # "idle" => /\ ExitStatus /\ Diagnosed /\ StdoutClean /\ ExitAllowed /\ NoDiagnosticOnStdout
TraceReport == l = NLines + 1 /\ pc \in {"idle", "exit"} => WriteReport(l, viol, [nchecked |-> nchecked])
=============================================================================
