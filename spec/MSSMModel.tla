------------------------------ MODULE MSSMModel ------------------------------
(***************************************************************************)
(* The DR-bar -> on-shell conversion of the MSSM model object              *)
(* (MSSMNoFV_onshell::convert_to_onshell and the loops it runs:            *)
(* convert_Mu_M1_M2, convert_me2_fpi, convert_me2_root, the flag/unflag    *)
(* decisions and the final clear_problems), as a state machine over the    *)
(* steps that the guarded hooks of src/MSSMNoFV/MSSMNoFV_onshell.cpp emit. *)
(*                                                                         *)
(* The machine is a function:  Enabled(s, ev) / Apply(s, ev)  on a state   *)
(* record s and a step ev = [name, it, prec, old, flag], so that the very  *)
(* same definitions are (a) explored exhaustively by TLC over an abstract  *)
(* precision domain (Next below) and (b) replayed on the hook events of    *)
(* real conversions (Trace_C05.tla), where precisions are exact dyadic     *)
(* numbers.  The order on precisions is a parameter: Above(p) means        *)
(* "p > precision goal", NotBetter(p, q) means "p >= q".                   *)
(*                                                                         *)
(* Property C05 at this level:  ConvergedOrWarned - when the conversion    *)
(* is done, each of the two fits either reached the goal or its            *)
(* non-convergence warning is set (and survives the final clear_problems). *)
(***************************************************************************)
EXTENDS Integers, Sequences, TLC

CONSTANTS Above(_), NotBetter(_, _),    \* order on precisions (relative to the goal)
          Bug                             \* "none" | "clearall" | "noflag" (deliberately wrong variants)

Idle == [phase |-> "idle", itMu |-> 0, precMu |-> 0, warnMu |-> FALSE, itMe |-> 0, precMe |-> 0, warnMe |-> FALSE,
         maxIt |-> 0, reset |-> FALSE]

Looping(s, it, prec) == Above(prec) /\ it < s.maxIt

\* is step ev possible in state s?
Enabled(s, ev) ==
  CASE ev.name = "MuStart"  -> s.phase \in {"idle", "done"}
    [] ev.name = "MuStep"   -> s.phase = "mu" /\ Looping(s, s.itMu, s.precMu) /\ ~NotBetter(ev.prec, s.precMu) /\ ev.it = s.itMu
    [] ev.name = "MuStopNoImprovement" -> s.phase = "mu" /\ Looping(s, s.itMu, s.precMu) /\ NotBetter(ev.prec, s.precMu) /\ ev.it = s.itMu
    [] ev.name = "MuStopNaN" -> s.phase = "mu" /\ Looping(s, s.itMu, s.precMu)
    [] ev.name = "MuDone"   -> \/ s.phase = "muStopped"
                               \/ s.phase = "mu" /\ ~Looping(s, s.itMu, s.precMu)
    [] ev.name = "FpiStart" -> s.phase = "ml2"
    [] ev.name = "FpiStep"  -> s.phase = "fpi" /\ Looping(s, s.itMe, s.precMe) /\ ~NotBetter(ev.prec, s.precMe) /\ ev.it = s.itMe
    [] ev.name = "FpiStopNoImprovement" -> s.phase = "fpi" /\ Looping(s, s.itMe, s.precMe) /\ NotBetter(ev.prec, s.precMe) /\ ev.it = s.itMe
    [] ev.name = "Me2FpiDone" -> \/ s.phase = "fpiStopped"
                                 \/ s.phase = "fpi"            \* loop left normally, or a NaN made it return DBL_MAX (reset)
    [] ev.name = "Me2RootDone" -> s.phase = "root"
    [] ev.name = "Me2Done"  -> s.phase = "me2flag"
    [] ev.name = "ConvFinal" -> s.phase = "final"
    [] OTHER -> FALSE

Apply(s, ev) ==
  CASE ev.name = "MuStart"  -> [Idle EXCEPT !.phase = "mu", !.precMu = ev.prec, !.maxIt = ev.maxit]
    [] ev.name = "MuStep"   -> [s EXCEPT !.precMu = ev.prec, !.itMu = s.itMu + 1]
    [] ev.name = "MuStopNoImprovement" ->
          \* the parameters have already been overwritten: the (worse) precision is the achieved one
          IF Bug = "noflag" THEN [s EXCEPT !.precMu = ev.prec, !.phase = "ml2"]
          ELSE [s EXCEPT !.precMu = ev.prec, !.phase = "muStopped"]
    [] ev.name = "MuStopNaN" -> [s EXCEPT !.phase = "muStopped"]
    [] ev.name = "MuDone"   -> [s EXCEPT !.warnMu = Above(s.precMu), !.phase = "ml2"]
    [] ev.name = "FpiStart" -> [s EXCEPT !.phase = "fpi", !.precMe = ev.prec, !.itMe = 0]
    [] ev.name = "FpiStep"  -> [s EXCEPT !.precMe = ev.prec, !.itMe = s.itMe + 1]
    [] ev.name = "FpiStopNoImprovement" -> [s EXCEPT !.precMe = ev.prec, !.phase = "fpiStopped"]
    [] ev.name = "Me2FpiDone" -> [s EXCEPT !.precMe = ev.prec, !.phase = IF Above(ev.prec) THEN "root" ELSE "me2flag"]
    [] ev.name = "Me2RootDone" -> [s EXCEPT !.precMe = ev.prec, !.phase = "me2flag"]
    [] ev.name = "Me2Done"  -> [s EXCEPT !.warnMe = Above(s.precMe), !.phase = "final"]
    [] ev.name = "ConvFinal" -> IF Bug = "clearall" THEN [s EXCEPT !.phase = "done", !.warnMu = FALSE, !.warnMe = FALSE]
                                ELSE [s EXCEPT !.phase = "done"]       \* clear_problems() keeps the warnings

\* ---- properties (state predicates on s) ------------------------------------------------------------
ConvergedOrWarnedS(s) == s.phase = "done" => /\ (s.warnMu \/ ~Above(s.precMu))
                                             /\ (s.warnMe \/ ~Above(s.precMe))
WarnOnlyIfNotConvergedS(s) == s.phase = "done" => /\ (s.warnMu => Above(s.precMu))
                                                  /\ (s.warnMe => Above(s.precMe))
LoopBoundS(s) == s.itMu <= s.maxIt /\ s.itMe <= s.maxIt

\* ---- exhaustive exploration over an abstract precision domain ---------------------------------------
CONSTANTS Precs, MaxIts
VARIABLE st
Steps == {[name |-> n, it |-> i, prec |-> p, maxit |-> m] :
            n \in {"MuStart", "MuStep", "MuStopNoImprovement", "MuStopNaN", "MuDone", "FpiStart", "FpiStep",
                   "FpiStopNoImprovement", "Me2FpiDone", "Me2RootDone", "Me2Done", "ConvFinal"},
            i \in 0..3, p \in Precs, m \in MaxIts}
Init == st = Idle
Next == \E ev \in Steps : Enabled(st, ev) /\ st.phase # "done" /\ st' = Apply(st, ev)
Spec == Init /\ [][Next]_st
FairSpec == Spec /\ WF_st(Next)

ConvergedOrWarned == ConvergedOrWarnedS(st)
WarnOnlyIfNotConverged == WarnOnlyIfNotConvergedS(st)
LoopBound == LoopBoundS(st)
Terminates == <>(st.phase = "done")
\* a flag set by one fit is never changed by the other fit
FlagsIndependent == [][(st.phase \notin {"mu", "muStopped", "idle", "done"}) => st'.warnMu = st.warnMu]_st
=============================================================================
