"""C08 - a constructed THDM reproduces the inputs it was constructed from."""
import json
import random

import build
import cases
import core
import tlc


def run(tier, seed):
    cx = core.Ctx("C08", tier, seed, "model_checking")
    r = tlc.model_check("THDMModel.tla", "THDMModel_atan2.cfg", workers=4)
    cx.add_model(r, "THDMModel.tla: alpha extraction on the pi/16 lattice, all (beta, beta-alpha, eigenvector sign): AlphaOK")
    r = tlc.model_check("THDMModel.tla", "THDMModel_asin.cfg", expect_violation="AlphaOK", workers=4)
    cx.add_model(r, "non-vacuity / finding K1 in the model: extraction by asin of one component violates AlphaOK")
    cs = cases.get("C08")
    rnd = random.Random(seed)
    rnd.shuffle(cs)
    reps = 1
    if tier == "quick":
        cs = cs[:256]
    else:
        reps = 6
    exe = build.driver_build("d_thdm")
    cf = cx.path("cases.txt")
    with open(cf, "w") as fh:
        for rep in range(reps):
            for i, c in enumerate(cs):
                fh.write("c%d_%d %s %s %d %s %s\n" % (i, rep, c["sec"], c["tb"], c["ytype"], c["ckm"], c["origin"]))
    tr = cx.path("trace.ndjson")
    core.run_driver(exe, ["c08", cf, tr])
    shards = tlc.split_trace(tr, 16, group_key="case")
    for rep in tlc.validate_traces("Trace_C08.tla", shards, jobs=16):
        cx.add_report(rep)
        cx.cov["invariant_evaluations"] = cx.cov.get("invariant_evaluations", 0) + rep["extra"]["nchecked"]
    for ln in open(tr):
        ev = json.loads(ln)
        cx.evaluations += 1
        if ev["exc"] == "":
            cx.distinct.add((ev["e"], ev["case"]))
            if ev["e"] == "Built" and ev["basis"] == "mass" and len(cx.cov["samples"]) < 3:
                cx.sample({"case": ev["sig"], "input": {k: core.dy(v) for k, v in ev["in"].items()},
                           "reported": {k: core.dy(ev["st"][k]) for k in ("Mhh0", "Mhh1", "MAh1", "MHm1", "sba", "cba", "tan_beta")}})
    cx.assumptions += ["tolerances of Trace_C08.tla: 1e-9 of the largest squared mass; angle conditioned by M2/(mH^2-mh^2)",
                       "CKM reproduced up to quark-field rephasing (moduli of Vu Vd^dagger)"]
    return cx.finish(rule="cases enumerated by TLC (Cases.tla: C08Cases, 768 classes; quick: seeded subset of 256) concretised with random "
                          "magnitudes over the property's ranges; each case builds a model, rebuilds it in the other basis; "
                          "distinct_nontrivial = models built without exception")
