"""C07 - MSSM contributions decouple like 1/M_SUSY^2."""
import json

import build
import cases
import core
import tlc


def run(tier, seed):
    cx = core.Ctx("C07", tier, seed, "exploration")
    per = 100 if tier == "quick" else 3000
    exe = build.driver_build("d_mssm")
    cf = cx.path("cases.txt")
    with open(cf, "w") as fh:
        for cls in cases.get("C07"):
            for j in range(per):
                fh.write("%s_%d %s\n" % (cls, j, cls))
    tr = cx.path("trace.ndjson")
    core.run_driver(exe, ["c07", cf, tr])
    shards = tlc.split_trace(tr, 16 if tier == "thorough" else 4, group_key="case")
    for rep in tlc.validate_traces("Trace_C07.tla", shards, jobs=16):
        cx.add_report(rep)
        cx.cov["invariant_evaluations"] = cx.cov.get("invariant_evaluations", 0) + rep["extra"]["nchecked"]
    fam = {}
    for ln in open(tr):
        ev = json.loads(ln)
        cx.evaluations += 1
        if ev["exc"] == "":
            fam.setdefault(ev["case"], []).append(ev)
    for c, es in fam.items():
        if len(es) == 7:
            cx.distinct.add(c)
            if len(cx.cov["samples"]) < 2:
                cx.sample({"family": c, "k": [e["k"] for e in es], "a1L": [core.dy(e["a1L"]) for e in es],
                           "a2L": [core.dy(e["a2L"]) for e in es], "unc2L": [core.dy(e["unc2L"]) for e in es]})
    cx.assumptions += ["constants C1 = 5/2, C2 = 3/10 of Trace_C07.tla: 10 x maxima observed on the unchanged tree",
                       "corrections are measured against the sum of magnitudes of the individual terms"]
    cx.selftest_corruption("Trace_C07.tla", shards[0], lambda ev: ev["a1L"] if ev["e"] == "Scaled" and ev["k"] == 4 and ev["exc"] == "" else None, "Decouple", every=True)
    return cx.finish(rule="base points per TLC-enumerated class (Cases.tla: C07Cases), each scaled by k = 1..64; "
                          "evaluations = models built; distinct_nontrivial = families whose 7 members were all built")
