------------------------------- MODULE Defects -------------------------------
(***************************************************************************)
(* The catalogue of input defects that the documentation declares          *)
(* untreatable (README, MSSMNoFV_onshell.hpp, THDM.hpp; DESIGN D.3), with   *)
(* the exception classes the library may answer them with, and the rules    *)
(* of property C16.  Constant-level; used for case enumeration (all defect  *)
(* sets of size <= 2) and by Trace_C16.tla.                                 *)
(***************************************************************************)
EXTENDS Integers, Sequences, FiniteSets

MSSMDefects == {"MWgeMZ", "MW0", "MZ0", "MM0", "Mu0", "M10", "M20", "TB0", "TBinf",
                "negSoft_mq2_0", "negSoft_mu2_2", "negSoft_md2_0", "negSoft_ml2_1", "negSoft_me2_2",
                "tach_St", "tach_Sb", "tach_Stau", "tach_Sm"}
\* ("massless lightest chargino" is documented too, but the code tests MCha(0) = 0 to machine
\*  precision, which no input reachable from outside realises exactly; it is not enumerated)
THDMDefects == {"tb0", "tbneg", "mhgtmH", "sba_gt1", "neg_mh", "neg_mH", "neg_mA", "neg_mHp",
                "tach_gauge", "badtype"}
CLIOnlyDefects == {"undecidable"}          \* THDM input with masses and lambda_1..5 (or neither)

Defects(model) == IF model = "mssm" THEN MSSMDefects ELSE THDMDefects

IsPrefix(p, s) == Len(s) >= Len(p) /\ SubSeq(s, 1, Len(p)) = p

\* exception classes a refusal caused by this defect may carry
Classes(d) ==
  IF IsPrefix("tach_", d) THEN {"EPhysicalProblem"}
  ELSE IF IsPrefix("negSoft_", d) THEN {"EInvalidInput", "EPhysicalProblem"}   \* "soft mass squared < 0" or the tachyon it causes
  ELSE IF d = "badtype" THEN {"ESetupError", "EInvalidInput"}                  \* the class is not documented; both accepted
  ELSE {"EInvalidInput"}

\* C error codes (gm2_error.h)
CodeOf(c) == CASE c = "" -> 0 [] c = "EInvalidInput" -> 1 [] c = "EPhysicalProblem" -> 2 [] OTHER -> 3

\* defects that touch the same input field, or different bases, are not combined
Field(d) == CASE d \in {"MWgeMZ", "MW0"} -> "MW" [] d \in {"TB0", "TBinf"} -> "TB" [] d \in {"tb0", "tbneg"} -> "tb"
              [] d \in {"mhgtmH", "neg_mh"} -> "mh" [] d \in {"M20", "masslessCha"} -> "M2"
              [] d \in {"tach_Stau", "negSoft_me2_2"} -> "stau" [] d \in {"tach_Sm", "negSoft_ml2_1"} -> "smu"
              [] d \in {"tach_St", "negSoft_mu2_2"} -> "stop" [] OTHER -> d
Compatible(a, b) == /\ Field(a) # Field(b)
                    /\ ~(a = "tach_gauge" /\ b \in {"mhgtmH", "sba_gt1", "neg_mh", "neg_mH", "neg_mA", "neg_mHp"})
                    /\ ~(b = "tach_gauge" /\ a \in {"mhgtmH", "sba_gt1", "neg_mh", "neg_mH", "neg_mA", "neg_mHp"})
                    /\ ~("Mu0" \in {a, b} /\ "masslessCha" \in {a, b})

DefectSets(model) == {S \in SUBSET Defects(model) :
                         /\ Cardinality(S) \in 1..2
                         /\ \A a \in S, b \in S : a # b => Compatible(a, b)}

\* ---- the rules of C16, as predicates on one observed outcome -----------------------------------
\* o = [model, entry, force, D (set), refused, exc, code, warned, problem, finite, exit, physics]
AllowedClasses(D) == UNION {Classes(d) : d \in D}

RefusedWithoutForce(o) == (o.D # {} /\ ~o.force) => o.refused
DocumentedClass(o)     == (o.refused /\ o.entry # "cli" /\ o.D # {}) =>
                             IF o.entry = "c" THEN o.code \in {CodeOf(c) : c \in AllowedClasses(o.D)}
                             ELSE o.exc \in AllowedClasses(o.D)
\* Force-output turns the refusal into a warning and the calculation proceeds (README, GM2CalcConfig[3]).  On the
\* pinned tree that is so for every catalogued defect except four, for which no calculation is possible or a later
\* stage refuses: a Yukawa type outside the enumeration, an undecidable basis, MW = 0 and tan(beta) = inf (the
\* spectrum is not finite).  A refusal there is still a rejection, never a silent result, and is accepted.
NotLiftable == {"MW0", "TBinf", "badtype", "undecidable"}
ProceedsUnderForce(o)  == (o.force /\ o.D # {} /\ o.D \cap NotLiftable = {}) => ~o.refused
NeverSilent(o)         == (o.D # {} /\ ~o.refused) => (o.warned \/ o.problem)
QuietMeansFinite(o)    == (~o.refused /\ ~o.problem /\ ~o.warned) => o.finite
ValidAccepted(o)       == o.D = {} => (~o.refused /\ o.finite)
ExitStatus(o)          == o.entry = "cli" =>
                             /\ o.refused => (o.exit = 1 /\ ~o.physics)
                             /\ ~o.refused => o.physics
                             /\ (~o.refused /\ o.model = "thdm") => o.exit = 0
                             /\ (~o.refused /\ o.model = "mssm") => (o.exit = 1 <=> o.problem)
=============================================================================
