------------------------------ MODULE SLHAGen ------------------------------
(***************************************************************************)
(* Case generation for C13: abstract input files together with their       *)
(* denotation, written as JSON for the concretiser.  Exhaustive up to      *)
(* GEN_EXH lines, GEN_NRAND random files of GEN_MINLEN..GEN_MAXLEN lines.  *)
(***************************************************************************)
EXTENDS SLHAContent, Json, IOUtils, Randomization

Exh    == atoi(IOEnv.GEN_EXH)
NRand  == atoi(IOEnv.GEN_NRAND)
MinLen == atoi(IOEnv.GEN_MINLEN)
MaxL   == atoi(IOEnv.GEN_MAXLEN)

AllUpTo(n) == UNION {[1..k -> Alphabet] : k \in 0..n}

\* random files: start with a header with probability ~1/2 so that most data lines are owned
\* (operators take a dummy argument: TLC caches zero-arity constant definitions)
GoodHeaders == {Hdr("FREE", "NoQ"), Hdr("HMIX", "Q1"), Hdr("HMIX", "Q1n"), Hdr("HMIX", "Q2"), Hdr("DEP", "Q1"),
                Hdr("DEP", "Q1n"), Hdr("DEP", "Q2"), Hdr("DEP", "NoQ"), Hdr("X", "NoQ")}
GoodDatas   == {Dat("k1", "va"), Dat("k1", "vb"), Dat("k2", "va"), Dat("kx", "vb")}
RandLine(i) == LET r == RandomElement(1..20)
               IN IF r <= 6 THEN RandomElement(GoodHeaders)
                  ELSE IF r <= 16 THEN RandomElement(GoodDatas)
                  ELSE IF r = 17 THEN RandomElement(Datas)
                  ELSE IF r = 18 THEN RandomElement(Headers)
                  ELSE IF r = 19 THEN RandomElement(Alphabet) ELSE Cmt
RandFile(n) == [i \in 1..n |-> IF i = 1 THEN RandomElement(GoodHeaders) ELSE RandLine(i)]
RandFiles == {RandFile(MinLen + (j % (MaxL - MinLen + 1))) : j \in 1..NRand}

DenList(fmt, f) == LET d == Denote(fmt, f)
                       S == {bk \in BlockKey : d[bk] # Unset}
                   IN {[b |-> bk[1], k |-> bk[2], v |-> d[bk]] : bk \in S}

Case(fmt, f) == [fmt |-> fmt, file |-> f, err |-> DenoteErr(fmt, f), errLate |-> DenoteErrLate(fmt, f),
                 den |-> IF DenoteErr(fmt, f) = "none" THEN DenList(fmt, f) ELSE {}]

Files == AllUpTo(Exh) \cup RandFiles
Cases == {Case(fmt, f) : fmt \in {"slha", "flat"}, f \in Files}

VARIABLE x
Init == x = 0
Next == UNCHANGED x
Spec == Init /\ [][Next]_x

ASSUME JsonSerialize(IOEnv.GEN_OUT, [cases |-> Cases])
=============================================================================
