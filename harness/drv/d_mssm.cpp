// MSSM driver: concretises abstract cases (one per line of the case file, produced from
// TLC-enumerated case sets) into real MSSMNoFV_onshell objects of the working tree's
// library and records what the public API returns.  No comparison is made here.
//
// usage: d_mssm <mode> <casefile> <tracefile>        (seed from VERIF_SEED)
#include "models.hpp"

#include <fstream>
#include <iostream>
#include <sstream>

using namespace gm2calc;
using vm::MssmPt;
using vm::NV;

namespace {

std::vector<std::vector<std::string>> read_cases(const char* path)
{
   std::vector<std::vector<std::string>> cases;
   std::ifstream in(path);
   std::string line;
   while (std::getline(in, line)) {
      std::istringstream is(line);
      std::vector<std::string> f;
      std::string t;
      while (is >> t) f.push_back(t);
      if (!f.empty()) cases.push_back(f);
   }
   return cases;
}

struct Built {
   MSSMNoFV_onshell model;
   std::string exc;     // exception class of calculate_masses, "" if none
};

Built build(const MssmPt& p, bool force = false)
{
   Built b;
   b.model.do_force_output(force);
   b.exc = vm::exc_class([&] { vm::apply(b.model, p); b.model.calculate_masses(); });
   return b;
}

// ---- C18 -------------------------------------------------------------------------------
// case line: <id> <class>      class in generic | cancel | heavy | light
void run_c18(const std::vector<std::vector<std::string>>& cases, vt::Rng& rng)
{
   for (const auto& c : cases) {
      const std::string& id = c.at(0);
      const std::string& cls = c.at(1);
      MssmPt p;
      if (cls == "heavy") p = vm::random_mssm(rng, 3000, 30000);
      else if (cls == "light") p = vm::random_mssm(rng, 100, 400, 2, 60);
      else p = vm::random_mssm(rng);
      if (cls == "cancel") {
         // 1L and 2L have opposite sign generically (2L photonic ~ -7% of 1L); enhance by large logs
         p.M3 = rng.sign() * rng.logu(5000, 20000);
      }
      Built b = build(p);
      vt::Ev ev("Unc");
      ev.str("model", "mssm").str("case", id).str("sig", "mssm/" + cls).str("exc", b.exc);
      if (b.exc.empty()) {
         const double a1 = calculate_amu_1loop(b.model);
         const double a2 = calculate_amu_2loop(b.model);
         ev.num("a1L", a1).num("a2L", a2)
           .num("u0", calculate_uncertainty_amu_0loop(b.model))
           .num("u1", calculate_uncertainty_amu_1loop(b.model))
           .num("u2", calculate_uncertainty_amu_2loop(b.model))
           .num("u0h", calculate_uncertainty_amu_0loop(b.model, a1))
           .num("u1h", calculate_uncertainty_amu_1loop(b.model, a2))
           .num("a2LaCha", amu2LaCha(b.model)).num("a2LaSferm", amu2LaSferm(b.model));
      }
      ev.raw("pt", vm::named_json(vm::pt_fields(p)));
      ev.emit();
   }
}

// ---- C06 -------------------------------------------------------------------------------
// case line: <id> <13 signs as +/- string: mu M1 M2 M3 Au0 Au1 Au2 Ad0 Ad1 Ad2 Ae0 Ae1 Ae2>
void run_c06(const std::vector<std::vector<std::string>>& cases, vt::Rng& rng)
{
   for (const auto& c : cases) {
      const std::string& id = c.at(0);
      const std::string& sg = c.at(1);
      auto s = [&](int i) { return sg.at(i) == '-' ? -1.0 : 1.0; };
      MssmPt p = vm::random_mssm(rng);
      p.Mu = s(0) * std::fabs(p.Mu); p.M1 = s(1) * std::fabs(p.M1); p.M2 = s(2) * std::fabs(p.M2);
      p.M3 = s(3) * std::fabs(p.M3);
      for (int i = 0; i < 3; ++i) {
         p.Au[i] = s(4 + i) * std::fabs(p.Au[i]);
         p.Ad[i] = s(7 + i) * std::fabs(p.Ad[i]);
         p.Ae[i] = s(10 + i) * std::fabs(p.Ae[i]);
      }
      MssmPt q = p;
      q.Mu = -p.Mu; q.M1 = -p.M1; q.M2 = -p.M2; q.M3 = -p.M3;
      for (int i = 0; i < 3; ++i) { q.Au[i] = -p.Au[i]; q.Ad[i] = -p.Ad[i]; q.Ae[i] = -p.Ae[i]; }
      const MssmPt* pts[2] = {&p, &q};
      const char* role[2] = {"orig", "flip"};
      for (int k = 0; k < 2; ++k) {
         Built b = build(*pts[k]);
         vt::Ev ev("Eval");
         ev.str("role", role[k]).str("case", id).str("sig", sg).str("exc", b.exc);
         if (b.exc.empty()) {
            ev.raw("res", vm::named_json(vm::mssm_results(b.model)));
            ev.raw("mass", vm::named_json(vm::mssm_masses(b.model)));
         }
         ev.raw("pt", vm::named_json(vm::pt_fields(*pts[k])));
         ev.emit();
      }
   }
}

// ---- C07 -------------------------------------------------------------------------------
// case line: <id> <class>      class in generic | hightb | compressed
void run_c07(const std::vector<std::vector<std::string>>& cases, vt::Rng& rng)
{
   for (const auto& c : cases) {
      const std::string& id = c.at(0);
      const std::string& cls = c.at(1);
      MssmPt p0 = cls == "hightb" ? vm::random_mssm(rng, 320, 1500, 30, 80)
                : cls == "compressed" ? vm::random_mssm(rng, 320, 420)
                : vm::random_mssm(rng, 320, 2000);
      for (int k = 1; k <= 64; k *= 2) {
         MssmPt p = p0;
         p.Mu *= k; p.M1 *= k; p.M2 *= k; p.M3 *= k; p.MA0 *= k; p.Q *= k;
         for (int i = 0; i < 3; ++i) {
            p.ml2[i] *= double(k) * k; p.me2[i] *= double(k) * k; p.mq2[i] *= double(k) * k;
            p.mu2[i] *= double(k) * k; p.md2[i] *= double(k) * k;
            p.Au[i] *= k; p.Ad[i] *= k; p.Ae[i] *= k;
         }
         Built b = build(p);
         vt::Ev ev("Scaled");
         ev.str("case", id).str("sig", cls).i("k", k).str("exc", b.exc);
         if (b.exc.empty()) {
            // lightest SUSY mass of the point
            double mmin = 1e300;
            for (const auto& nv : vm::mssm_masses(b.model)) {
               const std::string& n = nv.first;
               if (n.rfind("MS", 0) == 0 || n.rfind("MChi", 0) == 0 || n.rfind("MCha", 0) == 0)
                  mmin = std::min(mmin, std::fabs(nv.second));
            }
            ev.num("a1L", calculate_amu_1loop(b.model)).num("a2L", calculate_amu_2loop(b.model))
              .num("tbcor", tan_beta_cor(b.model)).num("unc2L", calculate_uncertainty_amu_2loop(b.model))
              .num("mmin", mmin).num("MZ", p.MZ);
            // magnitudes of the individual terms (scale against which O(MZ^2/M^2) corrections are measured)
            const double s1 = std::fabs(amu1LWHnu(b.model)) + std::fabs(amu1LWHmuL(b.model))
               + std::fabs(amu1LBHmuL(b.model)) + std::fabs(amu1LBHmuR(b.model)) + std::fabs(amu1LBmuLmuR(b.model));
            const double s1b = std::fabs(amu1LChi0(b.model)) + std::fabs(amu1LChipm(b.model));
            const double s2 = std::fabs(amu2LWHnu(b.model)) + std::fabs(amu2LWHmuL(b.model))
               + std::fabs(amu2LBHmuL(b.model)) + std::fabs(amu2LBHmuR(b.model)) + std::fabs(amu2LBmuLmuR(b.model))
               + std::fabs(amu2LChi0Photonic(b.model)) + std::fabs(amu2LChipmPhotonic(b.model))
               + std::fabs(amu2LaSferm(b.model)) + std::fabs(amu2LaCha(b.model));
            ev.num("S1", std::max(s1, s1b)).num("S2", s2);
         }
         ev.emit();
      }
   }
}

} // namespace

int main(int argc, char** argv)
{
   if (argc < 4) { std::fprintf(stderr, "usage: d_mssm <mode> <casefile> <tracefile>\n"); return 2; }
   const std::string mode = argv[1];
   const auto cases = read_cases(argv[2]);
   vt::open_trace(argv[3]);
   vt::install_terminate();
   vt::Rng rng(vt::env_seed());
   if (mode == "c18") run_c18(cases, rng);
   else if (mode == "c06") run_c06(cases, rng);
   else if (mode == "c07") run_c07(cases, rng);
   else { std::fprintf(stderr, "unknown mode %s\n", mode.c_str()); return 2; }
   vt::flush_trace();
   return 0;
}
