---- MODULE THDMModel_TTrace_1790871927 ----
EXTENDS Sequences, TLCExt, Toolbox, Naturals, TLC, THDMModel

_expression ==
    LET THDMModel_TEExpression == INSTANCE THDMModel_TEExpression
    IN THDMModel_TEExpression!expression
----

_trace ==
    LET THDMModel_TETrace == INSTANCE THDMModel_TETrace
    IN THDMModel_TETrace!trace
----

_inv ==
    ~(
        TLCGet("level") = Len(_TETrace)
        /\
        phase = ("extracted")
        /\
        bmaOut = (-6)
        /\
        vecSign = (1)
        /\
        bmaIn = (-8)
        /\
        beta = (1)
    )
----

_init ==
    /\ bmaIn = _TETrace[1].bmaIn
    /\ vecSign = _TETrace[1].vecSign
    /\ phase = _TETrace[1].phase
    /\ bmaOut = _TETrace[1].bmaOut
    /\ beta = _TETrace[1].beta
----

_next ==
    /\ \E i,j \in DOMAIN _TETrace:
        /\ \/ /\ j = i + 1
              /\ i = TLCGet("level")
        /\ bmaIn  = _TETrace[i].bmaIn
        /\ bmaIn' = _TETrace[j].bmaIn
        /\ vecSign  = _TETrace[i].vecSign
        /\ vecSign' = _TETrace[j].vecSign
        /\ phase  = _TETrace[i].phase
        /\ phase' = _TETrace[j].phase
        /\ bmaOut  = _TETrace[i].bmaOut
        /\ bmaOut' = _TETrace[j].bmaOut
        /\ beta  = _TETrace[i].beta
        /\ beta' = _TETrace[j].beta

\* Uncomment the ASSUME below to write the states of the error trace
\* to the given file in Json format. Note that you can pass any tuple
\* to `JsonSerialize`. For example, a sub-sequence of _TETrace.
    \* ASSUME
    \*     LET J == INSTANCE Json
    \*         IN J!JsonSerialize("THDMModel_TTrace_1790871927.json", _TETrace)

=============================================================================

 Note that you can extract this module `THDMModel_TEExpression`
  to a dedicated file to reuse `expression` (the module in the 
  dedicated `THDMModel_TEExpression.tla` file takes precedence 
  over the module `THDMModel_TEExpression` below).

---- MODULE THDMModel_TEExpression ----
EXTENDS Sequences, TLCExt, Toolbox, Naturals, TLC, THDMModel

expression == 
    [
        \* To hide variables of the `THDMModel` spec from the error trace,
        \* remove the variables below.  The trace will be written in the order
        \* of the fields of this record.
        bmaIn |-> bmaIn
        ,vecSign |-> vecSign
        ,phase |-> phase
        ,bmaOut |-> bmaOut
        ,beta |-> beta
        
        \* Put additional constant-, state-, and action-level expressions here:
        \* ,_stateNumber |-> _TEPosition
        \* ,_bmaInUnchanged |-> bmaIn = bmaIn'
        
        \* Format the `bmaIn` variable as Json value.
        \* ,_bmaInJson |->
        \*     LET J == INSTANCE Json
        \*     IN J!ToJson(bmaIn)
        
        \* Lastly, you may build expressions over arbitrary sets of states by
        \* leveraging the _TETrace operator.  For example, this is how to
        \* count the number of times a spec variable changed up to the current
        \* state in the trace.
        \* ,_bmaInModCount |->
        \*     LET F[s \in DOMAIN _TETrace] ==
        \*         IF s = 1 THEN 0
        \*         ELSE IF _TETrace[s].bmaIn # _TETrace[s-1].bmaIn
        \*             THEN 1 + F[s-1] ELSE F[s-1]
        \*     IN F[_TEPosition - 1]
    ]

=============================================================================



Parsing and semantic processing can take forever if the trace below is long.
 In this case, it is advised to uncomment the module below to deserialize the
 trace from a generated binary file.

\*
\*---- MODULE THDMModel_TETrace ----
\*EXTENDS IOUtils, TLC, THDMModel
\*
\*trace == IODeserialize("THDMModel_TTrace_1790871927.bin", TRUE)
\*
\*=============================================================================
\*

---- MODULE THDMModel_TETrace ----
EXTENDS TLC, THDMModel

trace == 
    <<
    ([phase |-> "built",bmaOut |-> 99,vecSign |-> 1,bmaIn |-> -8,beta |-> 1]),
    ([phase |-> "extracted",bmaOut |-> -6,vecSign |-> 1,bmaIn |-> -8,beta |-> 1])
    >>
----


=============================================================================

---- CONFIG THDMModel_TTrace_1790871927 ----
CONSTANTS
    Extraction = "asin"

INVARIANT
    _inv

CHECK_DEADLOCK
    \* CHECK_DEADLOCK off because of PROPERTY or INVARIANT above.
    FALSE

INIT
    _init

NEXT
    _next

CONSTANT
    _TETrace <- _trace

ALIAS
    _expression
=============================================================================
\* Generated on Thu Oct 01 16:25:28 UTC 2026