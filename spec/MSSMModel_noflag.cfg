SPECIFICATION Spec
CONSTANT BugC = "noflag"
INVARIANTS ConvergedOrWarned WarnOnlyIfNotConverged LoopBound
PROPERTY FlagsIndependent
CHECK_DEADLOCK FALSE
