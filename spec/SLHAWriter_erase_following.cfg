SPECIFICATION Spec
CONSTANTS
  Variant = "erase_following"
  MaxOps = 2
INVARIANTS TypeOK WriterSeesResult Idempotent
PROPERTIES EchoOthers ReaderSeesResult BlockPlacement
CHECK_DEADLOCK FALSE
