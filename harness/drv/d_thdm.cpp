// THDM / SM driver: concretises abstract cases into real gm2calc::THDM objects and records
// what the public API returns.  No comparison is made here.
//
// usage: d_thdm <mode> <casefile> <tracefile>        (seed from VERIF_SEED)
#include "models.hpp"
#include "gm2_mf.hpp"

#include <fstream>
#include <iostream>
#include <memory>
#include <sstream>

using namespace gm2calc;
using vm::NV;
using vm::ThdmPt;

namespace {

std::vector<std::vector<std::string>> read_cases(const char* path)
{
   std::vector<std::vector<std::string>> cases;
   std::ifstream in(path);
   std::string line;
   while (std::getline(in, line)) {
      std::istringstream is(line);
      std::vector<std::string> f;
      std::string t;
      while (is >> t) f.push_back(t);
      if (!f.empty()) cases.push_back(f);
   }
   return cases;
}

struct Built {
   std::unique_ptr<THDM> model;
   std::string exc;
};

Built build(const ThdmPt& p)
{
   Built b;
   b.exc = vm::exc_class([&] {
      if (p.mass_basis) b.model.reset(new THDM(p.mb, p.sm, p.cfg));
      else b.model.reset(new THDM(p.gb, p.sm, p.cfg));
   });
   return b;
}

// ---- C18 -------------------------------------------------------------------------------
void run_c18(const std::vector<std::vector<std::string>>& cases, vt::Rng& rng)
{
   for (const auto& c : cases) {
      const std::string& id = c.at(0);
      const std::string& cls = c.at(1);
      ThdmPt p = vm::random_thdm_mass(rng, 1 + rng.below(6), rng.coin());
      if (cls == "heavy") {
         p.mb.mH = rng.logu(2000, 10000); p.mb.mA = rng.logu(2000, 10000); p.mb.mHp = rng.logu(2000, 10000);
         p.mb.m122 = p.mb.mA * p.mb.mA * p.mb.tan_beta / (1 + p.mb.tan_beta * p.mb.tan_beta);
      } else if (cls == "lightNP") {
         // new-physics scale near (and below) the muon mass: the logarithm in the 2L uncertainty changes sign
         p.mb.mA = rng.logu(0.03, 1.0);
         p.mb.m122 = rng.uni(-100, 100);
      } else if (cls == "decoupled") {
         // aligned and heavy: a_mu far below the documented floor 2e-12 of the two-loop uncertainty
         p.mb.mH = rng.logu(3000, 10000); p.mb.mA = p.mb.mH * rng.uni(0.98, 1.02); p.mb.mHp = p.mb.mH * rng.uni(0.98, 1.02);
         p.mb.sin_beta_minus_alpha = 1.0;
         p.mb.lambda_6 = 0; p.mb.lambda_7 = 0;
         p.mb.tan_beta = rng.logu(0.5, 5);
         p.mb.m122 = p.mb.mA * p.mb.mA * p.mb.tan_beta / (1 + p.mb.tan_beta * p.mb.tan_beta);
      } else if (cls == "leptophobic") {
         // type I / Y at large tan(beta): lepton couplings suppressed by cot(beta)
         p.mb.yukawa_type = rng.coin() ? thdm::Yukawa_type::type_1 : thdm::Yukawa_type::type_Y;
         p.mb.tan_beta = rng.logu(20, 100);
         p.mb.mA = rng.logu(100, 600); p.mb.mHp = rng.logu(100, 600); p.mb.mH = p.mb.mh + rng.logu(10, 500);
         p.mb.sin_beta_minus_alpha = rng.coin() ? 1.0 : 1.0 - rng.logu(1e-8, 1e-4);
      } else if (cls == "cancel") {
         // large tan(beta) type II/X: 1L (negative from A/H) against 2L Barr-Zee (positive from A)
         p.mb.yukawa_type = rng.coin() ? thdm::Yukawa_type::type_2 : thdm::Yukawa_type::type_X;
         p.mb.tan_beta = rng.logu(20, 100);
         p.mb.mA = rng.logu(15, 80);
      }
      p.cfg.running_couplings = rng.coin();
      Built b = build(p);
      vt::Ev ev("Unc");
      ev.str("model", "thdm").str("case", id).str("sig", "thdm/" + cls).str("exc", b.exc);
      if (b.exc.empty()) {
         const THDM& m = *b.model;
         const double a1 = calculate_amu_1loop(m);
         const double a2 = calculate_amu_2loop(m);
         ev.num("a1L", a1).num("a2L", a2)
           .num("u0", calculate_uncertainty_amu_0loop(m))
           .num("u1", calculate_uncertainty_amu_1loop(m))
           .num("u2", calculate_uncertainty_amu_2loop(m))
           .num("u0h", calculate_uncertainty_amu_0loop(m, a1, a2))
           .num("u1h", calculate_uncertainty_amu_1loop(m, a1, a2))
           .num("u2h", calculate_uncertainty_amu_2loop(m, a1, a2));
      }
      ev.num("mA", p.mb.mA).num("mH", p.mb.mH).num("mHp", p.mb.mHp).num("tb", p.mb.tan_beta)
        .i("ytype", static_cast<int>(p.mb.yukawa_type));
      ev.emit();
   }
}


// ---- C08 -------------------------------------------------------------------------------
// case line: <id> <sector> <tbclass> <ytype> <ckm real|complex> <origin mass|gauge>
//   sector of sin(beta-alpha): m1 (=-1) | neg_hi (-1,-0.7) | neg_lo (-0.7,0) | zero | pos_lo | pos_hi | p1 | align (1-1e-6..1-2e-2)
double sba_of(const std::string& sec, vt::Rng& r)
{
   if (sec == "m1") return -1.0;
   if (sec == "p1") return 1.0;
   if (sec == "zero") return 0.0;
   if (sec == "neg_hi") return -r.uni(0.7, 0.9999);
   if (sec == "neg_lo") return -r.uni(0.01, 0.7);
   if (sec == "pos_lo") return r.uni(0.01, 0.7);
   if (sec == "pos_hi") return r.uni(0.7, 0.9999);
   return 1.0 - r.logu(1e-6, 2e-2);
}

double tb_of(const std::string& cls, vt::Rng& r)
{
   if (cls == "small") return r.logu(0.05, 0.9);
   if (cls == "one") return 1.0;
   if (cls == "large") return r.logu(30, 200);
   return r.logu(1.1, 30);
}

NV mass_basis_fields(const thdm::Mass_basis& b)
{
   return {{"mh", b.mh}, {"mH", b.mH}, {"mA", b.mA}, {"mHp", b.mHp}, {"sba", b.sin_beta_minus_alpha}, {"lambda6", b.lambda_6},
           {"lambda7", b.lambda_7}, {"tan_beta", b.tan_beta}, {"m122", b.m122}};
}

void run_c08(const std::vector<std::vector<std::string>>& cases, vt::Rng& rng)
{
   for (const auto& c : cases) {
      const std::string& id = c.at(0);
      const int ytype = std::stoi(c.at(3));
      ThdmPt p = vm::random_thdm_mass(rng, ytype, true);
      p.mb.sin_beta_minus_alpha = sba_of(c.at(1), rng);
      p.mb.tan_beta = tb_of(c.at(2), rng);
      p.mb.lambda_6 = rng.uni(-3, 3); p.mb.lambda_7 = rng.uni(-3, 3);
      p.mb.mh = rng.coin() ? rng.logu(10, 300) : (rng.below(8) == 0 ? 0.0 : 125.0);
      p.mb.mH = p.mb.mh + rng.logu(1, 5000);
      p.mb.mA = rng.logu(10, 1e4); p.mb.mHp = rng.logu(10, 1e4);
      // the Goldstone modes are told from the physical states by their masses: physical states around MW and MZ
      if (rng.below(4) == 0) p.mb.mA = rng.uni(0.6, 1.3) * p.sm.get_mz();
      if (rng.below(4) == 0) p.mb.mHp = rng.uni(0.6, 1.3) * p.sm.get_mw();
      p.mb.m122 = rng.sign() * rng.logu(1, 1e7);
      if (c.at(4) == "complex") p.sm.set_ckm_from_wolfenstein(rng.uni(0.1, 0.4), rng.uni(0.5, 1.0), rng.uni(-0.3, 0.3), rng.uni(0.1, 0.5));
      else p.sm.set_ckm_from_wolfenstein(rng.uni(0.1, 0.4), rng.uni(0.5, 1.0), rng.uni(-0.3, 0.3), 0.0);
      p.cfg.force_output = true;     // observe the spectrum also where a tachyon would be reported
      const std::string sig = c.at(1) + "/" + c.at(2) + "/type" + c.at(3) + "/" + c.at(4) + "/" + c.at(5);
      if (c.at(5) == "mass") {
         Built b = build(p);
         vt::Ev ev("Built");
         ev.str("case", id).str("sig", sig).str("basis", "mass").str("exc", b.exc).raw("in", vm::named_json(mass_basis_fields(p.mb)));
         if (b.exc.empty()) ev.raw("st", vm::named_json(vm::thdm_state(*b.model))).b("problem", b.model->get_problems().have_problem());
         ev.emit();
         if (!b.exc.empty()) continue;
         // rebuild from the lambda_1..7 it reports
         ThdmPt q = p;
         q.mass_basis = false;
         q.gb.yukawa_type = p.mb.yukawa_type;
         q.gb.lambda << b.model->get_lambda1(), b.model->get_lambda2(), b.model->get_lambda3(), b.model->get_lambda4(),
            b.model->get_lambda5(), b.model->get_lambda6(), b.model->get_lambda7();
         q.gb.tan_beta = b.model->get_tan_beta(); q.gb.m122 = b.model->get_m122();
         q.gb.zeta_u = p.mb.zeta_u; q.gb.zeta_d = p.mb.zeta_d; q.gb.zeta_l = p.mb.zeta_l;
         q.gb.Delta_u = p.mb.Delta_u; q.gb.Delta_d = p.mb.Delta_d; q.gb.Delta_l = p.mb.Delta_l;
         q.gb.Pi_u = p.mb.Pi_u; q.gb.Pi_d = p.mb.Pi_d; q.gb.Pi_l = p.mb.Pi_l;
         Built b2 = build(q);
         vt::Ev e2("Rebuilt");
         e2.str("case", id).str("sig", sig).str("basis", "gauge").str("exc", b2.exc);
         if (b2.exc.empty()) e2.raw("st", vm::named_json(vm::thdm_state(*b2.model)));
         e2.emit();
      } else {
         // gauge-basis origin: perturbative quartics, then back through the mass basis
         ThdmPt q = p;
         q.mass_basis = false;
         q.gb.yukawa_type = p.mb.yukawa_type;
         q.gb.lambda << rng.uni(0.1, 2), rng.uni(0.1, 2), rng.uni(-1, 2), rng.uni(-2, 2), rng.uni(-2, 0.5), rng.uni(-0.5, 0.5), rng.uni(-0.5, 0.5);
         q.gb.tan_beta = p.mb.tan_beta; q.gb.m122 = rng.logu(1e3, 1e6);
         Built b = build(q);
         vt::Ev ev("Built");
         ev.str("case", id).str("sig", sig).str("basis", "gauge").str("exc", b.exc)
           .raw("in", vm::named_json({{"lambda1", q.gb.lambda(0)}, {"lambda2", q.gb.lambda(1)}, {"lambda3", q.gb.lambda(2)},
                                      {"lambda4", q.gb.lambda(3)}, {"lambda5", q.gb.lambda(4)}, {"lambda6", q.gb.lambda(5)},
                                      {"lambda7", q.gb.lambda(6)}, {"tan_beta", q.gb.tan_beta}, {"m122", q.gb.m122}}));
         if (b.exc.empty()) ev.raw("st", vm::named_json(vm::thdm_state(*b.model))).b("problem", b.model->get_problems().have_problem());
         ev.emit();
         if (!b.exc.empty() || b.model->get_problems().have_problem()) continue;
         ThdmPt r2 = p;
         r2.mass_basis = true;
         r2.mb.mh = b.model->get_Mhh(0); r2.mb.mH = b.model->get_Mhh(1); r2.mb.mA = b.model->get_MAh(1); r2.mb.mHp = b.model->get_MHm(1);
         r2.mb.sin_beta_minus_alpha = b.model->get_sin_beta_minus_alpha();
         r2.mb.lambda_6 = b.model->get_lambda6(); r2.mb.lambda_7 = b.model->get_lambda7();
         r2.mb.tan_beta = b.model->get_tan_beta(); r2.mb.m122 = b.model->get_m122();
         Built b2 = build(r2);
         vt::Ev e2("Rebuilt");
         e2.str("case", id).str("sig", sig).str("basis", "mass").str("exc", b2.exc);
         if (b2.exc.empty()) e2.raw("st", vm::named_json(vm::thdm_state(*b2.model)));
         e2.emit();
      }
   }
}

// ---- C09 -------------------------------------------------------------------------------
// case line: <id> <kind> <ytype> <tbclass> <running 0|1> [param]
//   kind: typed      type I/II/X/Y model vs aligned model with the table's zeta
//         general    aligned (zeta, Delta) vs general (Pi encoding the same couplings), running off
//         ignored    perturb a parameter documented as ignored for the type: <param> in zeta|Pi|Delta
NV res_and_yuk(const THDM& m)
{
   NV v = vm::thdm_results(m);
   for (const auto& p : vm::thdm_yukawas(m)) v.push_back(p);
   return v;
}

// the same point constructed from its gauge-basis parameters (lambda_1..7, tan(beta), m12^2 as reported by the mass-basis model)
bool g_from_gauge = false;
Built build_c09(const ThdmPt& p)
{
   Built b = build(p);
   if (!g_from_gauge || !b.exc.empty() || !p.mass_basis) return b;
   ThdmPt g = p; g.mass_basis = false;
   thdm::Gauge_basis& gb = g.gb;
   gb.yukawa_type = p.mb.yukawa_type;
   gb.lambda << b.model->get_lambda1(), b.model->get_lambda2(), b.model->get_lambda3(), b.model->get_lambda4(), b.model->get_lambda5(),
                b.model->get_lambda6(), b.model->get_lambda7();
   gb.tan_beta = p.mb.tan_beta; gb.m122 = b.model->get_m122();
   gb.zeta_u = p.mb.zeta_u; gb.zeta_d = p.mb.zeta_d; gb.zeta_l = p.mb.zeta_l;
   gb.Delta_u = p.mb.Delta_u; gb.Delta_d = p.mb.Delta_d; gb.Delta_l = p.mb.Delta_l;
   gb.Pi_u = p.mb.Pi_u; gb.Pi_d = p.mb.Pi_d; gb.Pi_l = p.mb.Pi_l;
   return build(g);
}

void emit_pair(const char* evname, const std::string& id, const std::string& sig, const std::string& role, const ThdmPt& p)
{
   Built b = build_c09(p);
   vt::Ev ev(evname);
   ev.str("case", id).str("sig", sig).str("kind", sig.substr(0, sig.find('/'))).str("role", role).str("exc", b.exc)
     .b("running", p.cfg.running_couplings);
   if (b.exc.empty()) ev.raw("res", vm::named_json(res_and_yuk(*b.model)));
   ev.emit();
}

void run_c09(const std::vector<std::vector<std::string>>& cases, vt::Rng& rng)
{
   for (const auto& c : cases) {
      const std::string& id = c.at(0);
      const std::string& kind = c.at(1);
      const int ytype = std::stoi(c.at(2));
      ThdmPt p = vm::random_thdm_mass(rng, ytype, false);
      p.mb.tan_beta = tb_of(c.at(3), rng);
      p.mb.m122 = p.mb.mA * p.mb.mA * p.mb.tan_beta / (1 + p.mb.tan_beta * p.mb.tan_beta) * rng.uni(0.5, 1.5);
      p.cfg.running_couplings = c.at(4) == "1";
      g_from_gauge = rng.coin();          // both members of a pair from the mass basis, or both from the gauge basis
      const std::string sig = kind + "/type" + c.at(2) + "/" + c.at(3) + "/run" + c.at(4) + (c.size() > 5 ? "/" + c[5] : "") + (g_from_gauge ? "/gb" : "");
      const double tb = p.mb.tan_beta;
      if (kind == "typed") {
         // Delta_f is used by every type but the general one (README): the equivalence must hold with it as well
         if (rng.coin()) { p.mb.Delta_u = vm::rand33(rng, 0.05); p.mb.Delta_d = vm::rand33(rng, 0.05); p.mb.Delta_l = vm::rand33(rng, 0.05); }
         ThdmPt q = p;
         q.mb.yukawa_type = thdm::Yukawa_type::aligned;
         // Table 1 of arXiv:1607.06292: zeta_u, zeta_d, zeta_l per type
         const double cot = 1.0 / tb, mt = -tb;
         q.mb.zeta_u = cot;
         q.mb.zeta_d = (ytype == 1 || ytype == 3) ? cot : mt;
         q.mb.zeta_l = (ytype == 1 || ytype == 4) ? cot : mt;
         emit_pair("Equiv", id, sig, "a", p);
         emit_pair("Equiv", id, sig, "b", q);
      } else if (kind == "general") {
         // aligned model with arbitrary zeta_f, Delta_f ...
         ThdmPt a = p;
         a.cfg.running_couplings = false;
         a.mb.yukawa_type = thdm::Yukawa_type::aligned;
         a.mb.zeta_u = rng.uni(-2, 2); a.mb.zeta_d = rng.uni(-100, 100); a.mb.zeta_l = rng.uni(-100, 100);
         const double amp = rng.below(3) == 0 ? 1.0 : rng.below(2) == 0 ? 0.1 : 0.01;      // entries up to [-1, 1]
         a.mb.Delta_u = vm::rand33(rng, amp); a.mb.Delta_d = vm::rand33(rng, amp); a.mb.Delta_l = vm::rand33(rng, amp);
         // ... and the general model whose Pi_f encode the same couplings:
         //     rho_f = sqrt(2) M_f zeta_f / v + Delta_f  =  Pi_f / cos(beta) - sqrt(2) M_f tan(beta) / v
         ThdmPt g = a;
         g.mb.yukawa_type = thdm::Yukawa_type::general;
         Built ba = build_c09(a);
         vt::Ev ev("Equiv");
         ev.str("case", id).str("sig", sig).str("kind", "general").str("role", "a").str("exc", ba.exc).b("running", false);
         if (ba.exc.empty()) ev.raw("res", vm::named_json(res_and_yuk(*ba.model)));
         ev.emit();
         if (!ba.exc.empty()) continue;
         const double v = ba.model->get_v();
         const double cb = 1.0 / std::sqrt(1 + tb * tb);
         auto pi_of = [&](double zeta, const Eigen::Matrix<double, 3, 3>& Delta, const Eigen::Array<double, 3, 1>& mf) {
            Eigen::Matrix<double, 3, 3> M = Eigen::Matrix<double, 3, 3>::Zero();
            for (int i = 0; i < 3; ++i) M(i, i) = mf(i);
            return Eigen::Matrix<double, 3, 3>(cb * (std::sqrt(2.0) * M * (zeta + tb) / v + Delta));
         };
         g.mb.Pi_u = pi_of(a.mb.zeta_u, a.mb.Delta_u, ba.model->get_MFu());
         g.mb.Pi_d = pi_of(a.mb.zeta_d, a.mb.Delta_d, ba.model->get_MFd());
         g.mb.Pi_l = pi_of(a.mb.zeta_l, a.mb.Delta_l, ba.model->get_MFe());
         emit_pair("Equiv", id, sig, "b", g);
      } else {
         const std::string& what = c.at(5);
         ThdmPt q = p;
         if (what == "zeta") { q.mb.zeta_u += rng.uni(0.5, 50); q.mb.zeta_d -= rng.uni(0.5, 50); q.mb.zeta_l += rng.uni(0.5, 50); }
         else if (what == "Pi") { q.mb.Pi_u = vm::rand33(rng, 1); q.mb.Pi_d = vm::rand33(rng, 1); q.mb.Pi_l = vm::rand33(rng, 1); }
         else { q.mb.Delta_u = vm::rand33(rng, 1); q.mb.Delta_d = vm::rand33(rng, 1); q.mb.Delta_l = vm::rand33(rng, 1); }
         emit_pair("Ignored", id, sig, "a", p);
         emit_pair("Ignored", id, sig, "b", q);
      }
   }
}

// ---- C10 -------------------------------------------------------------------------------
// case line: <id> <kind> <ytype> <tbclass>
//   smlimit   cos(beta-alpha) = 0, m_h = m_hSM = m over a family of m, running off
//   decouple  gauge basis, |lambda_i| <= 2, heavy scale M = 1, sqrt(10), 10, 10 sqrt(10) TeV
void run_c10(const std::vector<std::vector<std::string>>& cases, vt::Rng& rng)
{
   for (const auto& c : cases) {
      const std::string& id = c.at(0);
      const std::string& kind = c.at(1);
      const int ytype = std::stoi(c.at(2));
      const std::string sig = kind + "/type" + c.at(2) + "/" + c.at(3);
      ThdmPt p = vm::random_thdm_mass(rng, ytype, true);
      p.mb.tan_beta = tb_of(c.at(3), rng);
      p.cfg.running_couplings = false;
      if (kind == "smlimit") {
         p.mb.sin_beta_minus_alpha = 1.0;
         p.mb.lambda_6 = 0; p.mb.lambda_7 = 0;
         p.mb.mH = rng.logu(600, 2000); p.mb.mA = rng.logu(200, 2000); p.mb.mHp = rng.logu(200, 2000);
         p.mb.m122 = p.mb.mA * p.mb.mA * p.mb.tan_beta / (1 + p.mb.tan_beta * p.mb.tan_beta);
         for (double m : {50.0, 90.0, 125.0, 200.0, 350.0, 500.0}) {
            ThdmPt q = p;
            q.mb.mh = m;
            q.sm.set_mh(m);
            Built b = build(q);
            vt::Ev ev("SMLimit");
            ev.str("case", id).str("sig", sig).num("m", m).str("exc", b.exc);
            if (b.exc.empty()) {
               ev.num("a1L", calculate_amu_1loop(*b.model)).num("a2LF", calculate_amu_2loop_fermionic(*b.model))
                 .num("a2LB", calculate_amu_2loop_bosonic(*b.model)).num("cba", b.model->get_cos_beta_minus_alpha())
                 .num("mm", b.model->get_MFe(1)).num("v", b.model->get_v()).num("alpha", b.model->get_alpha_em());
            }
            ev.emit();
         }
      } else {
         ThdmPt q = p;
         q.mass_basis = false;
         q.gb.yukawa_type = p.mb.yukawa_type;
         q.gb.zeta_u = p.mb.zeta_u; q.gb.zeta_d = p.mb.zeta_d; q.gb.zeta_l = p.mb.zeta_l;
         q.gb.lambda << rng.uni(0.2, 2), rng.uni(0.2, 2), rng.uni(-1, 2), rng.uni(-2, 2), rng.uni(-2, 0), rng.uni(-0.3, 0.3), rng.uni(-0.3, 0.3);
         q.gb.tan_beta = p.mb.tan_beta;
         const double tb = q.gb.tan_beta;
         const double s2b_half = tb / (1 + tb * tb);
         for (int k = 0; k < 4; ++k) {
            const double M = 1000.0 * std::pow(10.0, 0.5 * k);
            q.gb.m122 = M * M * s2b_half;            // m12^2 = M^2 sin(beta) cos(beta): heavy scale M
            Built b = build(q);
            if (b.exc.empty()) {
               // a_mu(THDM) is the difference to the SM: the SM Higgs mass is the light Higgs mass of the point
               q.sm.set_mh(b.model->get_Mhh(0));
               b = build(q);
            }
            vt::Ev ev("Decouple");
            ev.str("case", id).str("sig", sig).i("k", k).num("M", M).str("exc", b.exc);
            if (b.exc.empty()) {
               ev.num("a1L", calculate_amu_1loop(*b.model)).num("a2LF", calculate_amu_2loop_fermionic(*b.model))
                 .num("a2LB", calculate_amu_2loop_bosonic(*b.model)).num("mH", b.model->get_Mhh(1)).num("mA", b.model->get_MAh(1))
                 .num("mHp", b.model->get_MHm(1)).num("mh", b.model->get_Mhh(0)).num("cba", b.model->get_cos_beta_minus_alpha());
               // magnitudes of the documented sub-parts (scale against which a cancelling total is judged)
               double sF = 0, sB = 0;
               for (const auto& pr : vm::thdm_parts(*b.model)) {
                  if (pr.first == "F_charged" || pr.first == "F_neutral") sF += std::fabs(pr.second);
                  if (pr.first == "B_EWadd" || pr.first == "B_nonYuk" || pr.first == "B_Yuk") sB += std::fabs(pr.second);
               }
               // size of the individual heavy-Higgs one-loop terms: m_mu^2 |y_S|^2 ln(m_S^2/m_mu^2) / (8 pi^2 m_S^2)
               const double mm = b.model->get_MFe(1);
               auto term = [&](std::complex<double> y, double mS) {
                  return mm * mm * std::norm(y) * std::log(mS * mS / (mm * mm)) / (8 * 9.869604401089358 * mS * mS);
               };
               const double s1 = term(b.model->get_ylH()(1, 1), b.model->get_Mhh(1)) + term(b.model->get_ylA()(1, 1), b.model->get_MAh(1))
                  + term(b.model->get_ylHp()(1, 1), b.model->get_MHm(1));
               ev.num("S_F", sF).num("S_B", sB).num("S_1", s1);
            }
            ev.emit();
         }
      }
   }
}

// ---- C20 -------------------------------------------------------------------------------
// case line: <id> <kind> [class]
//   ckm_w <inside|edge|outside>   Wolfenstein input;  ckm_a  angle input;  ew  electroweak relations;
//   run   running masses over a ladder of scales;  thdmrun  Yukawa getters with running on/off
void emit_ckm(vt::Ev& ev, const SM& sm)
{
   NV v;
   vm::push_cmat(v, "V", sm.get_ckm());
   ev.raw("ckm", vm::named_json(v));
}

void run_c20(const std::vector<std::vector<std::string>>& cases, vt::Rng& rng)
{
   for (const auto& c : cases) {
      const std::string& id = c.at(0);
      const std::string& kind = c.at(1);
      const std::string cls = c.size() > 2 ? c[2] : "-";
      const std::string sig = kind + "/" + cls;
      if (kind == "ckm_w") {
         double w[4];
         for (double& x : w) x = rng.uni(-1, 1);
         const int which = rng.below(4);
         if (cls == "edge") w[which] = rng.coin() ? 1.0 : -1.0;
         if (cls == "outside") w[which] = rng.sign() * (1.0 + rng.logu(1e-12, 10));
         if (cls == "nonfinite") w[which] = rng.coin() ? std::nan("") : std::numeric_limits<double>::infinity();
         SM sm;
         const std::string exc = vm::exc_class([&] { sm.set_ckm_from_wolfenstein(w[0], w[1], w[2], w[3]); });
         vt::Ev ev("Ckm");
         ev.str("case", id).str("sig", sig).str("cls", cls).str("exc", exc).num("w0", w[0]).num("w1", w[1]).num("w2", w[2]).num("w3", w[3]);
         emit_ckm(ev, sm);
         ev.emit();
      } else if (kind == "ckm_a") {
         SM sm;
         const double pi = 3.141592653589793;
         const double t12 = rng.uni(-pi, pi), t13 = rng.uni(-pi, pi), t23 = rng.uni(-pi, pi), d = rng.uni(-2 * pi, 2 * pi);
         const std::string exc = vm::exc_class([&] { sm.set_ckm_from_angles(t12, t13, t23, d); });
         vt::Ev ev("Ckm");
         ev.str("case", id).str("sig", sig).str("cls", "inside").str("exc", exc).num("w0", t12).num("w1", t13).num("w2", t23).num("w3", d);
         emit_ckm(ev, sm);
         ev.emit();
      } else if (kind == "ew") {
         SM sm;
         // all MW < MZ, including nearly degenerate ones (sin(theta_W) -> 0)
         const double mz = rng.uni(80, 100), mw = mz * (rng.below(4) == 0 ? 1 - rng.logu(1e-9, 1e-3) : rng.uni(0.5, 0.999)), a = rng.logu(1e-4, 0.1);
         sm.set_mz(mz); sm.set_mw(mw); sm.set_alpha_em_mz(a); sm.set_alpha_em_0(a * rng.uni(0.9, 1.0)); sm.set_alpha_s_mz(rng.uni(0.05, 0.3));
         vt::Ev ev("EW");
         ev.str("case", id).str("sig", sig).num("mw", sm.get_mw()).num("mz", sm.get_mz()).num("alpha_mz", sm.get_alpha_em_mz())
           .num("alpha_0", sm.get_alpha_em_0()).num("alpha_s", sm.get_alpha_s_mz())
           .num("cw", sm.get_cw()).num("sw", sm.get_sw()).num("e_mz", sm.get_e_mz()).num("e_0", sm.get_e_0()).num("g2", sm.get_g2())
           .num("gY", sm.get_gY()).num("g3", sm.get_g3()).num("v", sm.get_v());
         ev.emit();
      } else if (kind == "run") {
         const double mt = rng.uni(100, 300), mb = rng.uni(2, 6), mtau = rng.uni(1.5, 2.0), mz = rng.uni(85, 95);
         const double as = cls == "edge" ? (rng.coin() ? rng.uni(0.05, 0.07) : rng.uni(0.25, 0.3)) : rng.uni(0.07, 0.25);
         const double aem = rng.uni(1 / 140.0, 1 / 120.0);
         // geometric ladder of scales Q_k = Q_0 r^k inside [1, 1e6] GeV
         const double Q0 = rng.logu(1, 10);
         const double r = std::pow(1e6 / Q0, 1.0 / 7) * rng.uni(0.5, 1.0);
         const std::string sg = sig + (as > 0.17 ? "/highas" : (as < 0.075 ? "/lowas" : "/midas"));
         std::ostringstream cap;
         std::streambuf* old = std::cerr.rdbuf(cap.rdbuf());
         for (int k = 0; k < 8; ++k) {
            const double Q = Q0 * std::pow(r, k);
            vt::Ev ev("Run");
            ev.str("case", id).str("sig", sg).i("k", k).num("Q", Q).num("mt_pole", mt).num("mb_mb", mb).num("mtau_pole", mtau)
              .num("mz", mz).num("alpha_s", as)
              .num("mt", calculate_mt_SM6_MSbar(mt, as, mz, Q)).num("mb", calculate_mb_SM6_MSbar(mb, mt, as, mz, Q))
              .num("mtau", calculate_mtau_SM6_MSbar(mtau, aem, Q)).b("warned", !cap.str().empty());
            ev.emit();
         }
         // boundary scales
         vt::Ev ev("RunBoundary");
         ev.str("case", id).str("sig", sg).num("mt_pole", mt).num("mb_mb", mb).num("mtau_pole", mtau).num("alpha_s", as)
           .num("mtau_at_mtau", calculate_mtau_SM6_MSbar(mtau, aem, mtau))
           .num("mt_at_mt", calculate_mt_SM6_MSbar(mt, as, mz, mt)).b("warned", !cap.str().empty());
         ev.emit();
         std::cerr.rdbuf(old);
      } else if (kind == "thdmrun") {
         ThdmPt p = vm::random_thdm_mass(rng, 1 + rng.below(6), false);
         if (rng.below(3) == 0) p.mb.mA = rng.uni(0.5, 6.0);       // a Higgs boson below / around mb(mb), m_tau
         for (int run = 0; run < 2; ++run) {
            p.cfg.running_couplings = run == 1;
            Built b = build(p);
            vt::Ev ev("ThdmRun");
            ev.str("case", id).str("sig", sig).b("running", run == 1).str("exc", b.exc);
            if (b.exc.empty()) {
               ev.raw("yuk", vm::named_json(vm::thdm_yukawas(*b.model)));
               // the running third-generation masses at the scale of each Higgs boson, from the public SM-layer functions
               const SM& sm = b.model->get_sm();
               const double mt = sm.get_mu(2), mbmb = sm.get_md(2), mtau = sm.get_ml(2), as = sm.get_alpha_s_mz(), mz = sm.get_mz();
               NV r{{"mt_in", mt}, {"mb_in", mbmb}, {"mtau_in", mtau}};
               const char* names[4] = {"h", "H", "A", "Hp"};
               const double ms[4] = {b.model->get_Mhh(0), b.model->get_Mhh(1), b.model->get_MAh(1), b.model->get_MHm(1)};
               for (int k = 0; k < 4; ++k) {
                  r.push_back({std::string("m_") + names[k], ms[k]});
                  r.push_back({std::string("u_") + names[k], calculate_mt_SM6_MSbar(mt, as, mz, ms[k])});
                  r.push_back({std::string("d_") + names[k], calculate_mb_SM6_MSbar(mbmb, mt, as, mz, ms[k])});
                  r.push_back({std::string("l_") + names[k], calculate_mtau_SM6_MSbar(mtau, sm.get_alpha_em_mz(), ms[k])});
               }
               ev.raw("mrun", vm::named_json(r));
            }
            ev.emit();
         }
      }
   }
}


// ---- C11 -------------------------------------------------------------------------------
// case line: <id> <comp B|F|L> <moving> <rel eq|sum|diff|twice|half> <a> <b|->
//   masses: mh mH mA mHp mw mz mhSM mt mb mtau mm  (moving mass must be one of mh mH mA mHp mhSM)
double& mass_ref(thdm::THDM_B_parameters& p, const std::string& n)
{
   if (n == "mh") return p.mh(0); if (n == "mH") return p.mh(1); if (n == "mA") return p.mA; if (n == "mHp") return p.mHp;
   if (n == "mw") return p.mw; if (n == "mz") return p.mz; return p.mhSM;
}
double& mass_ref(thdm::THDM_F_parameters& p, const std::string& n)
{
   if (n == "mh") return p.mh(0); if (n == "mH") return p.mh(1); if (n == "mA") return p.mA; if (n == "mHp") return p.mHp;
   if (n == "mw") return p.mw; if (n == "mz") return p.mz; if (n == "mhSM") return p.mhSM;
   if (n == "mt") return p.mu(2); if (n == "mb") return p.md(2); if (n == "mtau") return p.ml(2); if (n == "mc") return p.mu(1);
   return p.mm;
}
double& mass_ref(thdm::THDM_1L_parameters& p, const std::string& n)
{
   if (n == "mh") return p.mh(0); if (n == "mH") return p.mh(1); if (n == "mA") return p.mA; if (n == "mHp") return p.mHp;
   if (n == "mw") return p.mw; if (n == "mz") return p.mz; if (n == "mhSM") return p.mhSM;
   if (n == "mtau") return p.ml(2); return p.mm;
}

template <class P>
double target_mass(P& p, const std::string& rel, const std::string& a, const std::string& b)
{
   const double ma = mass_ref(p, a);
   const double mb = b == "-" ? 0.0 : mass_ref(p, b);
   if (rel == "eq") return ma;
   if (rel == "sum") return ma + mb;
   if (rel == "diff") return std::fabs(ma - mb);
   if (rel == "twice") return 2 * ma;
   return 0.5 * ma;
}

const double kOffsets[] = {-1e-3, -1e-4, -1e-5, -1e-6, -1e-7, -1e-8, -1e-9, -1e-10, -1e-11, -1e-12, -1e-13, 0.0,
                           1e-13, 1e-12, 1e-11, 1e-10, 1e-9, 1e-8, 1e-7, 1e-6, 1e-5, 1e-4, 1e-3};

template <class P, class F>
void emit_path(const std::string& id, const std::string& sig, P p, const std::string& moving, double m0, F&& eval)
{
   int k = 0;
   for (double d : kOffsets) {
      P q = p;
      mass_ref(q, moving) = m0 * (1 + d);
      vt::Ev ev("Point");
      ev.str("case", id).str("sig", sig).i("di", k++).num("d", d).num("m", m0 * (1 + d)).raw("v", vm::named_json(eval(q)));
      ev.emit();
   }
   vt::Ev("PathEnd").str("case", id).str("sig", sig).str("exc", "").emit();
}

void run_c11(const std::vector<std::vector<std::string>>& cases, vt::Rng& rng)
{
   for (const auto& c : cases) {
      const std::string& id = c.at(0);
      const std::string &comp = c.at(1), &moving = c.at(2), &rel = c.at(3), &a = c.at(4), &b = c.at(5);
      const std::string sig = comp + "/" + moving + "/" + rel + "/" + a + (b == "-" ? "" : "," + b);
      ThdmPt p = vm::random_thdm_mass(rng, 1 + rng.below(5), false);     // types I..aligned
      p.mb.mh = 125.0; p.mb.mH = rng.uni(250, 900); p.mb.mA = rng.uni(100, 900); p.mb.mHp = rng.uni(150, 900);
      p.mb.tan_beta = rng.logu(1, 30);
      p.mb.m122 = p.mb.mA * p.mb.mA * p.mb.tan_beta / (1 + p.mb.tan_beta * p.mb.tan_beta) * rng.uni(0.7, 1.2);
      p.cfg.running_couplings = false;
      Built bm = build(p);
      if (!bm.exc.empty()) { vt::Ev("PathEnd").str("case", id).str("sig", sig).str("exc", bm.exc).emit(); continue; }
      if (comp == "M") {
         // the public path: the mass-basis input itself is moved and the model rebuilt at every offset
         auto in_mass = [&](const std::string& n) -> double {
            if (n == "mh") return p.mb.mh; if (n == "mH") return p.mb.mH; if (n == "mA") return p.mb.mA; if (n == "mHp") return p.mb.mHp;
            if (n == "mw") return bm.model->get_MVWm(); if (n == "mz") return bm.model->get_MVZ(); if (n == "mhSM") return p.sm.get_mh();
            if (n == "mt") return p.sm.get_mu(2); if (n == "mb") return p.sm.get_md(2); if (n == "mtau") return p.sm.get_ml(2);
            return p.sm.get_ml(1);
         };
         const double ma = in_mass(a), mbb = b == "-" ? 0.0 : in_mass(b);
         const double m0 = rel == "eq" ? ma : rel == "sum" ? ma + mbb : rel == "diff" ? std::fabs(ma - mbb) : rel == "twice" ? 2 * ma : 0.5 * ma;
         if (!(m0 > 1.0)) continue;
         int k = 0;
         std::string exc;
         for (double d : kOffsets) {
            ThdmPt q = p;
            (moving == "mh" ? q.mb.mh : moving == "mH" ? q.mb.mH : moving == "mA" ? q.mb.mA : q.mb.mHp) = m0 * (1 + d);
            Built bq = build(q);
            if (!bq.exc.empty()) { exc = bq.exc; break; }
            vt::Ev ev("Point");
            ev.str("case", id).str("sig", sig).i("di", k++).num("d", d).num("m", m0 * (1 + d)).raw("v", vm::named_json(vm::thdm_results(*bq.model)));
            ev.emit();
         }
         vt::Ev("PathEnd").str("case", id).str("sig", sig).str("exc", exc).emit();    // a refused offset voids the path
      } else if (comp == "B") {
         auto pb = vm::thdm_B_pars(*bm.model);
         const double m0 = target_mass(pb, rel, a, b);
         if (!(m0 > 1.0)) continue;
         emit_path(id, sig, pb, moving, m0, [](const thdm::THDM_B_parameters& q) {
            return NV{{"amu2LB", thdm::amu2L_B(q)}, {"B_EWadd", thdm::amu2L_B_EWadd(q)}, {"B_nonYuk", thdm::amu2L_B_nonYuk(q)},
                      {"B_Yuk", thdm::amu2L_B_Yuk(q)}};
         });
      } else if (comp == "F") {
         auto pf = vm::thdm_F_pars(*bm.model);
         const double m0 = target_mass(pf, rel, a, b);
         if (!(m0 > 1.0)) continue;
         emit_path(id, sig, pf, moving, m0, [](const thdm::THDM_F_parameters& q) {
            return NV{{"amu2LF", thdm::amu2L_F(q)}, {"F_charged", thdm::amu2L_F_charged(q)}, {"F_neutral", thdm::amu2L_F_neutral(q)}};
         });
      } else {
         auto p1 = vm::thdm_1L_pars(*bm.model);
         const double m0 = target_mass(p1, rel, a, b);
         if (!(m0 > 1.0)) continue;
         emit_path(id, sig, p1, moving, m0, [](const thdm::THDM_1L_parameters& q) {
            return NV{{"amu1L", thdm::amu1L(q)}, {"amu1L_approx", thdm::amu1L_approx(q)}};
         });
      }
   }
}

// ---- C03 -------------------------------------------------------------------------------
// case line: <id> <ytype 1..6> <basis mass|gauge> <offdiag 0|1> <tb low|mid|high>
void run_c03(const std::vector<std::vector<std::string>>& cases, vt::Rng& rng)
{
   for (const auto& c : cases) {
      const std::string& id = c.at(0);
      const int ytype = std::stoi(c.at(1));
      const bool gauge = c.at(2) == "gauge", offd = c.at(3) != "0";
      ThdmPt p = vm::random_thdm_mass(rng, ytype, offd);
      p.mb.tan_beta = tb_of(c.at(4), rng);
      p.mb.m122 = p.mb.mA * p.mb.mA * p.mb.tan_beta / (1 + p.mb.tan_beta * p.mb.tan_beta) * rng.uni(0.5, 1.5);
      if (offd) {      // sizeable lepton-flavour-violating entries
         Eigen::Matrix<double, 3, 3> lfv = vm::rand33(rng, 0.2);
         if (c.at(3) == "2") {
            // sparse: one or two single entries, exact zeros elsewhere (one-sided couplings of the muon)
            Eigen::Matrix<double, 3, 3> sp = Eigen::Matrix<double, 3, 3>::Zero();
            for (int n = 1 + rng.below(2); n > 0; --n) {
               const int other = rng.coin() ? 0 : 2;
               if (rng.coin()) sp(1, other) = lfv(1, other); else sp(other, 1) = lfv(other, 1);
            }
            lfv = sp;
         }
         if (ytype == 5) p.mb.Delta_l = lfv;
         if (ytype == 6) p.mb.Pi_l = lfv;
      }
      p.sm.set_mv(0, rng.coin() ? 0.0 : rng.logu(1e-12, 1e-9)); p.sm.set_mv(1, rng.coin() ? 0.0 : rng.logu(1e-12, 1e-9));
      p.sm.set_mv(2, rng.coin() ? 0.0 : rng.logu(1e-12, 1e-9));
      const std::string sig = std::string("thdm/type") + c.at(1) + "/" + c.at(2) + (c.at(3) == "2" ? "/sparse/" : offd ? "/offdiag/" : "/diag/") + c.at(4);
      Built b = build(p);
      if (b.exc.empty() && gauge) {
         // rebuild the same point from its gauge-basis parameters
         ThdmPt g = p; g.mass_basis = false;
         thdm::Gauge_basis& gb = g.gb;
         gb.yukawa_type = p.mb.yukawa_type;
         gb.lambda << b.model->get_lambda1(), b.model->get_lambda2(), b.model->get_lambda3(), b.model->get_lambda4(), b.model->get_lambda5(),
                      b.model->get_lambda6(), b.model->get_lambda7();
         gb.tan_beta = p.mb.tan_beta; gb.m122 = b.model->get_m122();
         gb.zeta_u = p.mb.zeta_u; gb.zeta_d = p.mb.zeta_d; gb.zeta_l = p.mb.zeta_l;
         gb.Delta_u = p.mb.Delta_u; gb.Delta_d = p.mb.Delta_d; gb.Delta_l = p.mb.Delta_l;
         gb.Pi_u = p.mb.Pi_u; gb.Pi_d = p.mb.Pi_d; gb.Pi_l = p.mb.Pi_l;
         b = build(g);
      }
      vt::Ev ev("OneLoop");
      ev.str("model", "thdm").str("case", id).str("sig", sig).str("exc", b.exc);
      if (b.exc.empty()) {
         const THDM& m = *b.model;
         NV v;
         v.push_back({"alpha", m.get_alpha_em()}); v.push_back({"mw", m.get_MVWm()}); v.push_back({"mz", m.get_MVZ()});
         v.push_back({"mhSM", m.get_sm().get_mh()}); v.push_back({"mh", m.get_Mhh(0)}); v.push_back({"mH", m.get_Mhh(1)});
         v.push_back({"mA", m.get_MAh(1)}); v.push_back({"mHp", m.get_MHm(1)});
         vm::push_mat(v, "ml", m.get_MFe()); vm::push_mat(v, "mv", m.get_MFv());
         vm::push_cmat(v, "ylh", m.get_ylh()); vm::push_cmat(v, "ylH", m.get_ylH()); vm::push_cmat(v, "ylA", m.get_ylA());
         vm::push_cmat(v, "ylHp", m.get_ylHp());
         v.push_back({"a1L", calculate_amu_1loop(m)});
         ev.raw("o", vm::named_json(v));
      }
      ev.emit();
   }
}

} // namespace

int main(int argc, char** argv)
{
   if (argc < 4) { std::fprintf(stderr, "usage: d_thdm <mode> <casefile> <tracefile>\n"); return 2; }
   const std::string mode = argv[1];
   const auto cases = read_cases(argv[2]);
   vt::open_trace(argv[3]);
   vt::install_terminate();
   vt::Rng rng(vt::env_seed());
   if (mode == "c18") run_c18(cases, rng);
   else if (mode == "c08") run_c08(cases, rng);
   else if (mode == "c09") run_c09(cases, rng);
   else if (mode == "c10") run_c10(cases, rng);
   else if (mode == "c20") run_c20(cases, rng);
   else if (mode == "c11") run_c11(cases, rng);
   else if (mode == "c03") run_c03(cases, rng);
   else { std::fprintf(stderr, "unknown mode %s\n", mode.c_str()); return 2; }
   vt::flush_trace();
   return 0;
}
