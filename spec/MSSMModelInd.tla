---------------------------- MODULE MSSMModelInd ----------------------------
(***************************************************************************)
(* The conversion machine of MSSMModel.tla with precisions as unbounded     *)
(* integers (\* any goal
CInit == Goal \in Int
Above(p) == p > Goal, NotBetter(p, q) == p >= q), written as   *)
(* actions for Apalache.  IndInv is an inductive invariant: Apalache        *)
(* discharges  Init => IndInv  and  IndInv /\ Next => IndInv'  and          *)
(* IndInv => ConvergedOrWarned /\ WarnOnlyIfNotConverged /\ LoopBound  for  *)
(* every precision value, goal and iteration limit, which TLC can only do   *)
(* for the four precision levels of MSSMModelMC.tla.                        *)
(***************************************************************************)
EXTENDS Integers

CONSTANT
  \* @type: Int;
  Goal

VARIABLES
  \* @type: Str;
  phase,
  \* @type: Int;
  itMu,
  \* @type: Int;
  precMu,
  \* @type: Bool;
  warnMu,
  \* @type: Int;
  itMe,
  \* @type: Int;
  precMe,
  \* @type: Bool;
  warnMe,
  \* @type: Int;
  maxIt

\* any goal
CInit == Goal \in Int
Above(p) == p > Goal
NotBetter(p, q) == p >= q
Phases == {"idle", "mu", "muStopped", "ml2", "fpi", "fpiStopped", "root", "me2flag", "final", "done"}

Init == /\ phase = "idle" /\ itMu = 0 /\ precMu = 0 /\ warnMu = FALSE /\ itMe = 0 /\ precMe = 0 /\ warnMe = FALSE /\ maxIt = 0

MuStart == /\ phase \in {"idle", "done"}
           /\ \E p \in Int, m \in Nat :
                 /\ phase' = "mu" /\ precMu' = p /\ maxIt' = m
                 /\ itMu' = 0 /\ warnMu' = FALSE /\ itMe' = 0 /\ precMe' = 0 /\ warnMe' = FALSE
LoopingMu == Above(precMu) /\ itMu < maxIt
MuStep == /\ phase = "mu" /\ LoopingMu
          /\ \E p \in Int : ~NotBetter(p, precMu) /\ precMu' = p
          /\ itMu' = itMu + 1 /\ UNCHANGED <<phase, warnMu, itMe, precMe, warnMe, maxIt>>
MuStopNoImprovement == /\ phase = "mu" /\ LoopingMu
                       /\ \E p \in Int : NotBetter(p, precMu) /\ precMu' = p
                       /\ phase' = "muStopped" /\ UNCHANGED <<itMu, warnMu, itMe, precMe, warnMe, maxIt>>
MuStopNaN == /\ phase = "mu" /\ LoopingMu /\ phase' = "muStopped"
             /\ UNCHANGED <<itMu, precMu, warnMu, itMe, precMe, warnMe, maxIt>>
MuDone == /\ (phase = "muStopped" \/ (phase = "mu" /\ ~LoopingMu))
          /\ warnMu' = Above(precMu) /\ phase' = "ml2"
          /\ UNCHANGED <<itMu, precMu, itMe, precMe, warnMe, maxIt>>
FpiStart == /\ phase = "ml2" /\ \E p \in Int : precMe' = p
            /\ phase' = "fpi" /\ itMe' = 0 /\ UNCHANGED <<itMu, precMu, warnMu, warnMe, maxIt>>
LoopingMe == Above(precMe) /\ itMe < maxIt
FpiStep == /\ phase = "fpi" /\ LoopingMe
           /\ \E p \in Int : ~NotBetter(p, precMe) /\ precMe' = p
           /\ itMe' = itMe + 1 /\ UNCHANGED <<phase, itMu, precMu, warnMu, warnMe, maxIt>>
FpiStopNoImprovement == /\ phase = "fpi" /\ LoopingMe
                        /\ \E p \in Int : NotBetter(p, precMe) /\ precMe' = p
                        /\ phase' = "fpiStopped" /\ UNCHANGED <<itMu, precMu, warnMu, itMe, warnMe, maxIt>>
Me2FpiDone == /\ phase \in {"fpiStopped", "fpi"}
              /\ \E p \in Int : precMe' = p /\ phase' = (IF Above(p) THEN "root" ELSE "me2flag")
              /\ UNCHANGED <<itMu, precMu, warnMu, itMe, warnMe, maxIt>>
Me2RootDone == /\ phase = "root" /\ \E p \in Int : precMe' = p
               /\ phase' = "me2flag" /\ UNCHANGED <<itMu, precMu, warnMu, itMe, warnMe, maxIt>>
Me2Done == /\ phase = "me2flag" /\ warnMe' = Above(precMe) /\ phase' = "final"
           /\ UNCHANGED <<itMu, precMu, warnMu, itMe, precMe, maxIt>>
ConvFinal == /\ phase = "final" /\ phase' = "done"        \* clear_problems() keeps the warnings
             /\ UNCHANGED <<itMu, precMu, warnMu, itMe, precMe, warnMe, maxIt>>

Next == MuStart \/ MuStep \/ MuStopNoImprovement \/ MuStopNaN \/ MuDone \/ FpiStart \/ FpiStep \/ FpiStopNoImprovement
        \/ Me2FpiDone \/ Me2RootDone \/ Me2Done \/ ConvFinal

\* deliberately wrong variant (final clear_problems() wiping the warnings): the induction step must fail for it
ConvFinalBug == /\ phase = "final" /\ phase' = "done" /\ warnMu' = FALSE /\ warnMe' = FALSE
                /\ UNCHANGED <<itMu, precMu, itMe, precMe, maxIt>>
NextBug == MuStart \/ MuStep \/ MuStopNoImprovement \/ MuStopNaN \/ MuDone \/ FpiStart \/ FpiStep \/ FpiStopNoImprovement
           \/ Me2FpiDone \/ Me2RootDone \/ Me2Done \/ ConvFinalBug

AfterMu == {"ml2", "fpi", "fpiStopped", "root", "me2flag", "final", "done"}
IndInv == /\ phase \in Phases
          /\ maxIt >= 0 /\ itMu >= 0 /\ itMe >= 0 /\ itMu <= maxIt /\ itMe <= maxIt
          /\ (phase \in AfterMu => warnMu = Above(precMu))
          /\ (phase \in {"final", "done"} => warnMe = Above(precMe))

ConvergedOrWarned == phase = "done" => (warnMu \/ ~Above(precMu)) /\ (warnMe \/ ~Above(precMe))
WarnOnlyIfNotConverged == phase = "done" => (warnMu => Above(precMu)) /\ (warnMe => Above(precMe))
LoopBound == itMu <= maxIt /\ itMe <= maxIt
Safety == ConvergedOrWarned /\ WarnOnlyIfNotConverged /\ LoopBound
\* for the consequence check  IndInv => Safety  (as an "initial predicate")
IndInit == /\ phase \in Phases /\ itMu \in Int /\ precMu \in Int /\ warnMu \in BOOLEAN
           /\ itMe \in Int /\ precMe \in Int /\ warnMe \in BOOLEAN /\ maxIt \in Int
           /\ IndInv
=============================================================================
