SPECIFICATION Spec
CONSTANTS
  Variant = "asis"
  MaxOps = 1
INVARIANTS TypeOK WriterSeesResult Idempotent
PROPERTIES EchoOthers ReaderSeesResult BlockPlacement
CHECK_DEADLOCK FALSE
