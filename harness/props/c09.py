"""C09 - THDM Yukawa parametrisations are equivalent where they describe the same theory."""
import json

import build
import cases
import core
import tlc


def run(tier, seed):
    cx = core.Ctx("C09", tier, seed, "model_checking")
    r = tlc.model_check("THDMModel.tla", "THDMModel_atan2.cfg", workers=4)
    cx.add_model(r, "Yukawa.tla (loaded with THDMModel.tla): Table 1 symbols, rho_f(type) = rho_f(aligned with the table's zeta), read/ignore matrix (ASSUMEs)")
    cs = cases.get("C09")
    reps = 3 if tier == "quick" else 60
    exe = build.driver_build("d_thdm")
    cf = cx.path("cases.txt")
    n = 0
    with open(cf, "w") as fh:
        for rep in range(reps):
            for c in cs:
                fh.write("c%d %s %d %s %d %s\n" % (n, c["kind"], c["ytype"], c["tb"], c["running"], c["param"]))
                n += 1
    tr = cx.path("trace.ndjson")
    core.run_driver(exe, ["c09", cf, tr])
    shards = tlc.split_trace(tr, 16, group_key="case")
    for rep in tlc.validate_traces("Trace_C09.tla", shards, jobs=16):
        cx.add_report(rep)
        cx.cov["invariant_evaluations"] = cx.cov.get("invariant_evaluations", 0) + rep["extra"]["nchecked"]
    for ln in open(tr):
        ev = json.loads(ln)
        cx.evaluations += 1
        if ev["exc"] == "" and ev["role"] == "b":
            cx.distinct.add(ev["case"])
            if len(cx.cov["samples"]) < 3:
                cx.sample({"case": ev["sig"], "amu1L": core.dy(ev["res"]["amu1L"]), "amu2LF": core.dy(ev["res"]["amu2LF"])})
    cx.cov["abstract_cases"] = len(cs)
    cx.assumptions += ["Table 1 of arXiv:1607.06292 as transcribed in spec/Yukawa.tla and harness/drv/d_thdm.cpp (run_c09)",
                       "the general-model encoding Pi_f = cos(beta) (sqrt(2) M_f (zeta_f + tan(beta)) / v + Delta_f)"]
    cx.selftest_corruption("Trace_C09.tla", shards[0], lambda ev: ev["res"]["amu2LF"] if ev["e"] == "Equiv" and ev["role"] == "b" and ev["exc"] == "" else None, "Equivalent")
    return cx.finish(rule="cases enumerated by TLC (Cases.tla: C09Cases: 4 types x 4 tan(beta) classes x running, aligned-vs-general, "
                          "and every (type, ignored parameter) pair of Yukawa.tla) with random points; distinct_nontrivial = pairs of "
                          "models both constructed")
