------------------------------ MODULE Trace_C03 ------------------------------
(***************************************************************************)
(* C03 - the one-loop a_mu equals an independent evaluation of the         *)
(* published formulas.  One event per model:                               *)
(*   OneLoop(model, case, sig, exc, o, at)                                 *)
(* o holds what the public getters report (couplings, masses, mixing       *)
(* matrices / Yukawa matrices) and the library's results; at the loop      *)
(* functions F1N, F2N, F1C, F2C at the mass ratios of the point, from      *)
(* their closed forms at 400 bits (harness/lib/atoms.py).                  *)
(*                                                                         *)
(* MSSM, Eqs.(2.11a,b) with (2.5a,b,o,p), (2.7) of arXiv:1311.1775:        *)
(*   n^L_im = (gY N*_i1 + g2 N*_i2) U_m1 / sqrt2 - y_mu N*_i3 U_m2         *)
(*   n^R_im = -(sqrt2 gY N_i1 U_m2 + y_mu N_i3 U_m1)                       *)
(*   c^L_k = -g2 V*_k1,  c^R_k = y_mu U_k2                                 *)
(*   a^chi0 = m_mu^2/(16 pi^2) SUM_im [ -A_im F1N(x_im)/(12 m_m^2)         *)
(*                     - m_chi_i B_im F2N(x_im)/(6 m_mu m_m^2) ]           *)
(*   a^chi+- = m_mu^2/(16 pi^2 m_snu^2) SUM_k [ A_k F1C(x_k)/12            *)
(*                     + m_cha_k B_k F2C(x_k)/(3 m_mu) ]                   *)
(*   A = |L|^2 + |R|^2, B = 2 Re(L* R)                                     *)
(* evaluated here in exact complex arithmetic from the reported mixing     *)
(* matrices (which Trace_C04 validates against the Lagrangian mass         *)
(* matrices: the two checks compose to "separately diagonalised").         *)
(* THDM, Eqs.(27)-(30) of arXiv:1607.06292, flavour-summed:                *)
(*   a = m_mu^2/(8 pi^2) [ SUM_S SUM_g A^S_g / m_S^2 - SM Higgs term ]     *)
(* Tolerance 1e-8 of the sum of the magnitudes of the terms.               *)
(***************************************************************************)
EXTENDS TraceBase, Defs

VARIABLES l, viol, nchecked
vars == <<l, viol, nchecked>>

PiS == Fin(1, -8, <<28787, 23558, 26152, 6296, 12429, 4276, 23202, 4639, 3>>)      \* pi to 2^-120 (enough for 1e-8)
InvSqrt2 == Fin(1, -4, <<26240, 32571, 15564, 23170>>)         \* 1/sqrt 2 to 2^-60
Sqrt2 == Mul(Two, InvSqrt2)

\* complex numbers <<re, im>>
C(re, im) == <<re, im>>
CAdd(a, b) == C(Add(a[1], b[1]), Add(a[2], b[2]))
CSub(a, b) == C(Sub(a[1], b[1]), Sub(a[2], b[2]))
CMul(a, b) == C(Sub(Mul(a[1], b[1]), Mul(a[2], b[2])), Add(Mul(a[1], b[2]), Mul(a[2], b[1])))
CConj(a) == C(a[1], Neg(a[2]))
CR(r, a) == C(Mul(r, a[1]), Mul(r, a[2]))                       \* real times complex
CAbs2(a) == Add(Sq(a[1]), Sq(a[2]))
Dig(i) == <<"0", "1", "2", "3">>[i + 1]
El(o, n, i, k) == C(o[n \o "_re" \o Dig(i) \o Dig(k)], o[n \o "_im" \o Dig(i) \o Dig(k)])
Re2(o, n, i, k) == o[n \o "_" \o Dig(i) \o Dig(k)]

\* fractions of dyadics
FAdd(a, b) == Frac(Add(Mul(a.n, b.d), Mul(b.n, a.d)), Mul(a.d, b.d))
FAbs(a) == Frac(Abs(a.n), Abs(a.d))
\* |y - f| <= 1e-8 s  for fractions f, s >= 0
CloseTo(y, f, s) == Le(Mul(TenPow(8), Mul(Abs(Sub(Mul(y, f.d), f.n)), s.d)), Mul(s.n, Abs(f.d)))

RECURSIVE SumTo(_, _)
SumTo(f(_), n) == IF n < 0 THEN Zero ELSE Add(f(n), SumTo(f, n - 1))

\* ---- MSSM ---------------------------------------------------------------------------------------------------
NL(o, i, m) == CSub(CR(Mul(InvSqrt2, Re2(o, "USm", m, 0)), CAdd(CR(o.gY, CConj(El(o, "ZN", i, 0))), CR(o.g2, CConj(El(o, "ZN", i, 1))))),
                    CR(Mul(o.ymu, Re2(o, "USm", m, 1)), CConj(El(o, "ZN", i, 2))))
NR(o, i, m) == CR(OfInt(-1), CAdd(CR(Mul(Mul(Sqrt2, o.gY), Re2(o, "USm", m, 1)), El(o, "ZN", i, 0)),
                                   CR(Mul(o.ymu, Re2(o, "USm", m, 0)), El(o, "ZN", i, 2))))
\* the two terms of (i, m), times 12 m_m^2 * 16 pi^2, computed once per (i, m)
Chi0Terms(o, at) ==
  [i \in 0..3, m \in 0..1 |->
     LET nl == NL(o, i, m)  nr == NR(o, i, m)
         aan == Add(CAbs2(nl), CAbs2(nr))
         bbn == K(2, CMul(CConj(nl), nr)[1])
     IN << Neg(Mul(Mul(Sq(o.MM), aan), at["F1N_" \o Dig(i) \o Dig(m)])),
           K(-2, Mul(Mul(Mul(o.MM, o["MChi_" \o Dig(i) \o "0"]), bbn), at["F2N_" \o Dig(i) \o Dig(m)])) >>]
Pi2x192 == K(192, Sq(PiS))
\* sums over i of the terms (abs = FALSE) or of their magnitudes (abs = TRUE), combined over the two smuons
Chi0Frac(o, tm, abs) ==
  LET m0 == Sq(o["MSm_00"])  m1 == Sq(o["MSm_10"])
      v(x) == IF abs THEN Abs(x) ELSE x
      T(m) == LET t(i) == Add(v(tm[i, m][1]), v(tm[i, m][2])) IN SumTo(t, 3)
  IN Frac(Add(Mul(T(0), m1), Mul(T(1), m0)), Mul(Pi2x192, Mul(m0, m1)))

CL(o, k) == CR(Neg(o.g2), CConj(El(o, "UP", k, 0)))
CRt(o, k) == CR(o.ymu, El(o, "UM", k, 1))
AAC(o, k) == Add(CAbs2(CL(o, k)), CAbs2(CRt(o, k)))
BBC(o, k) == K(2, CMul(CConj(CL(o, k)), CRt(o, k))[1])
ChaA(o, at, k) == Mul(Mul(Sq(o.MM), AAC(o, k)), at["F1C_" \o Dig(k)])
ChaB(o, at, k) == K(4, Mul(Mul(Mul(o.MM, o["MCha_" \o Dig(k) \o "0"]), BBC(o, k)), at["F2C_" \o Dig(k)]))
ChaFrac(o, at) == Frac(Add(Add(ChaA(o, at, 0), ChaB(o, at, 0)), Add(ChaA(o, at, 1), ChaB(o, at, 1))), Mul(Pi2x192, Sq(o.MSvmL)))
ChaAbs(o, at) == Frac(SumSeq(<<Abs(ChaA(o, at, 0)), Abs(ChaB(o, at, 0)), Abs(ChaA(o, at, 1)), Abs(ChaB(o, at, 1))>>), Mul(Pi2x192, Sq(o.MSvmL)))

MssmInvs(ev) ==
  LET o == ev.o  at == ev.at
      fin == AllFin(<<o.aChi0, o.aChipm, o.a1L>>)
      tm == Chi0Terms(o, at)
      f0 == Chi0Frac(o, tm, FALSE)   s0 == Chi0Frac(o, tm, TRUE)
      fc == ChaFrac(o, at)           sc == ChaAbs(o, at)
  IN << I("Finite", fin) >> \o
     (IF fin THEN << I("Neutralino", CloseTo(o.aChi0, f0, s0)),
                     I("Chargino", CloseTo(o.aChipm, fc, sc)),
                     I("Total", CloseTo(o.a1L, FAdd(f0, fc), FAdd(s0, sc))) >>
      ELSE << >>)

\* ---- THDM ---------------------------------------------------------------------------------------------------
Ml(o, g) == o["ml_" \o Dig(g) \o "0"]
\* 24 ml_1 A^S_g (sgn = 1 scalar, -1 pseudoscalar); its two terms
SA(o, at, y, S, g) == Mul(Mul(Add(CAbs2(El(o, y, g, 1)), CAbs2(El(o, y, 1, g))), at["F1C_" \o S \o "_" \o Dig(g)]), Ml(o, 1))
SB(o, at, y, S, g, sgn) == K(8 * sgn, Mul(Mul(CMul(CConj(El(o, y, g, 1)), CConj(El(o, y, 1, g)))[1], Ml(o, g)), at["F2C_" \o S \o "_" \o Dig(g)]))
SFrac(o, at, y, S, mS, sgn, abs) ==
  LET t(g) == IF abs THEN Add(Abs(SA(o, at, y, S, g)), Abs(SB(o, at, y, S, g, sgn))) ELSE Add(SA(o, at, y, S, g), SB(o, at, y, S, g, sgn))
  IN Frac(SumTo(t, 2), K(24, Mul(Ml(o, 1), Sq(mS))))
HpFrac(o, at, abs) ==
  LET t(g) == Mul(CAbs2(El(o, "ylHp", g, 1)), Add(at["F1N_Hp_1"], at["F1N_Hp_" \o Dig(g)]))
  IN Frac(IF abs THEN SumTo(t, 2) ELSE Neg(SumTo(t, 2)), K(48, Sq(o.mHp)))
\* m_mu^2 / v^2 (F1C + 4 F2C) / (12 m_hSM^2),  v^2 = (mz^2 - mw^2) mw^2 / (pi alpha mz^2)
SMFrac(o, at) == Frac(Mul(Mul(Mul(Sq(Ml(o, 1)), Mul(PiS, o.alpha)), Sq(o.mz)), Add(at["F1C_SM"], K(4, at["F2C_SM"]))),
                      K(12, Mul(Mul(Sub(Sq(o.mz), Sq(o.mw)), Sq(o.mw)), Sq(o.mhSM))))
ThdmSum(o, at, abs) ==
  FAdd(FAdd(FAdd(SFrac(o, at, "ylh", "h", o.mh, 1, abs), SFrac(o, at, "ylH", "H", o.mH, 1, abs)),
            FAdd(SFrac(o, at, "ylA", "A", o.mA, -1, abs), HpFrac(o, at, abs))),
       IF abs THEN FAbs(SMFrac(o, at)) ELSE Frac(Neg(SMFrac(o, at).n), SMFrac(o, at).d))
\* a = m_mu^2 / (8 pi^2) * sum
ThdmFrac(o, at, abs) == LET s == ThdmSum(o, at, abs) IN Frac(Mul(Sq(Ml(o, 1)), s.n), Mul(K(8, Sq(PiS)), s.d))

ThdmInvs(ev) ==
  LET o == ev.o  at == ev.at
  IN << I("Finite", IsFin(o.a1L)) >> \o
     (IF IsFin(o.a1L) THEN << I("OneLoopTHDM", CloseTo(o.a1L, ThdmFrac(o, at, FALSE), ThdmFrac(o, at, TRUE))) >> ELSE << >>)

Init == l = 1 /\ viol = << >> /\ nchecked = 0

TOneLoop ==
  /\ l <= NLines /\ TraceLog[l].e = "OneLoop"
  /\ LET ev == TraceLog[l]
         invs == IF ev.exc # "" THEN << >>
                 ELSE IF ev.model = "mssm" THEN (IF ev.problem THEN << >> ELSE MssmInvs(ev))
                 ELSE ThdmInvs(ev)
     IN /\ viol' = viol \o Failed(invs, l, ev.sig) /\ nchecked' = nchecked + Len(invs)
  /\ l' = l + 1

Next == TOneLoop
Spec == Init /\ [][Next]_vars
Report == l = NLines + 1 => WriteReport(l, viol, [nchecked |-> nchecked])
=============================================================================
