"""C01 - one-variable loop and special functions equal their mathematical definitions."""
import json
import math
import os
import random
import struct
import subprocess

import build
import cases
import core
import tlc

EPS = 2.220446049250313e-16


def ulps(x, n):
    """the double n units in the last place away from x (x > 0)"""
    b = struct.unpack("<q", struct.pack("<d", x))[0]
    return struct.unpack("<d", struct.pack("<q", b + n))[0]


def logu(rnd, lo, hi):
    return math.exp(rnd.uniform(math.log(lo), math.log(hi)))


def strat(rnd, lo, hi, n):
    """n log-uniform values in [lo, hi], one from each of n equal slices of the logarithm (every decade is visited
    when n reaches the number of decades; the slices are shifted by a random phase otherwise)"""
    a, b = math.log(lo), math.log(hi)
    ph = rnd.random()
    out = [math.exp(a + (b - a) * (((i + ph) % n) + rnd.random() * 0.999) / n) for i in range(n)]
    return [min(max(x, lo), hi) for x in out]


def around(rnd, b, k):
    """k doubles on each side of b: adjacent ones and some at relative distance up to 1e-9"""
    lo = [ulps(b, -i) for i in (1, 2, 3)] + [b * (1 - logu(rnd, 1e-15, 1e-9)) for _ in range(k)]
    hi = [ulps(b, i) for i in (1, 2, 3)] + [b * (1 + logu(rnd, 1e-15, 1e-9)) for _ in range(k)]
    return lo, hi


def onevar_points(c, rnd, n):
    cls = c["cls"]
    w = c["win"][0] / c["win"][1]
    lo_edge, hi_edge = 1 - 2 * w, (1 + w) / (1 - w)       # is_equal_rel(x, 1, w): |x - 1| < w (1 + max(|x|, 1))
    if cls == "zero":
        return [0.0, -0.0]
    if cls == "tiny":
        return [1e-14, ulps(1e-14, 1)] + strat(rnd, 1e-14, 1e-10, n)
    if cls == "small":
        return strat(rnd, 1e-10, 1e-2, n)
    if cls == "belowQuarter":
        return [0.25 * (1 - d) for d in strat(rnd, 1e-9, 0.9, 2 * n)]
    if cls == "aboveQuarter":
        return [0.25 * (1 + d) for d in strat(rnd, 1e-9, 0.5, 2 * n)]
    if cls == "quarter":
        return [0.25]
    if cls == "quarterLo":
        return around(rnd, 0.25, n)[0]
    if cls == "quarterHi":
        return around(rnd, 0.25, n)[1]
    if cls == "mid":
        return [rnd.uniform(0.3, 0.9) for _ in range(n)]
    if cls == "nearOneLo":
        return [1 - d for d in strat(rnd, 1e-3, 0.09, n)]
    if cls == "nearOneHi":
        return [1 + d for d in strat(rnd, 1e-3, 0.09, n)]
    if cls == "one":
        return [1.0, ulps(1.0, 1), ulps(1.0, -1)]
    if cls == "winDeep":
        return [1 + rnd.choice([-1, 1]) * d for d in strat(rnd, 1e-16, w, 2 * n)]
    if cls in ("winLoOut", "winLoIn"):
        lo, hi = around(rnd, lo_edge, n)
        return lo if cls == "winLoOut" else hi
    if cls in ("winHiIn", "winHiOut"):
        lo, hi = around(rnd, hi_edge, n)
        return lo if cls == "winHiIn" else hi
    if cls == "above":
        return [rnd.uniform(1.1, 90) for _ in range(n)]
    if cls == "hundredLo":
        return around(rnd, 100.0, n)[0] + [100.0]
    if cls == "hundredHi":
        return around(rnd, 100.0, n)[1]
    if cls in ("hiEdgeLo", "hiEdgeHi"):
        lo, hi = around(rnd, float(c["hi"]), n)
        return lo + [float(c["hi"])] if cls == "hiEdgeLo" else hi
    if cls in ("epsEdgeLo", "epsEdgeHi"):          # f_PS: z < DBL_EPSILON (outside the property's domain: not asserted)
        lo, hi = around(rnd, EPS, n)
        return lo if cls == "epsEdgeLo" else hi
    if cls == "large":
        return strat(rnd, 100, 1e8, n)
    if cls == "huge":
        return strat(rnd, 1e8, 1e12, n) + [1e12]
    if cls == "negative":
        return [-logu(rnd, 1e-14, 1e12) for _ in range(n)] + [-1.0, -0.25]
    raise KeyError(cls)


def dilog_points(cls, rnd, n):
    t = {"negHuge": lambda: -logu(rnd, 1e8, 1e300), "negLarge": lambda: -logu(rnd, 2, 1e8), "negSmall": lambda: -logu(rnd, 1e-300, 0.9),
         "posSmall": lambda: logu(rnd, 1e-300, 0.45), "large": lambda: logu(rnd, 2.5, 1e8), "huge": lambda: logu(rnd, 1e8, 1e300)}
    if cls in t:
        return [t[cls]() for _ in range(n)]
    centre = {"negOne": -1.0, "half": 0.5, "one": 1.0, "two": 2.0, "zero": 0.0}
    for k, b in centre.items():
        if cls == k:
            return [b]
        if b != 0 and cls in (k + "Lo", k + "Hi"):
            lo, hi = around(rnd, abs(b), n)
            if b > 0:
                return lo if cls.endswith("Lo") else hi
            return [-x for x in hi] if cls.endswith("Lo") else [-x for x in lo]
    raise KeyError(cls)


def cl2_points(cls, rnd, n):
    pi = math.pi
    if cls == "zero":
        return [0.0]
    if cls == "tiny":
        return [logu(rnd, 1e-300, 1e-8) for _ in range(n)]
    if cls == "small":
        return [logu(rnd, 1e-8, 0.5) for _ in range(n)]
    if cls == "generic":
        return [rnd.uniform(0.5, 2 * pi - 0.5) for _ in range(n)]
    if cls == "neg":
        return [-rnd.uniform(1e-3, 2 * pi) for _ in range(n)]
    if cls == "negPi":
        return [-pi] + [-x for x in around(rnd, pi, n)[0]]
    if cls == "large":
        return [rnd.choice([-1, 1]) * logu(rnd, 7, 1e3) for _ in range(n)]
    if cls == "huge":
        return [rnd.choice([-1, 1]) * logu(rnd, 1e3, 1e8) for _ in range(n)]
    for k, b in (("pi", pi), ("twoPi", 2 * pi)):
        if cls == k:
            return [b]
        if cls == k + "Lo":
            return around(rnd, b, n)[0]
        if cls == k + "Hi":
            return around(rnd, b, n)[1]
    raise KeyError(cls)


def cdilog_points(cls, rnd, n):
    def pol(r, th):
        return (r * math.cos(th), r * math.sin(th))
    ang = lambda: rnd.uniform(-math.pi, math.pi)
    if cls == "zero":
        return [(0.0, 0.0), (-0.0, 0.0)]
    if cls == "one":
        return [(1.0, 0.0), (1.0, -0.0)]
    if cls == "tinyMod":
        return [pol(logu(rnd, 1e-300, 1e-10), ang()) for _ in range(n)]
    if cls == "smallMod":          # between the |z| -> 0 shortcut and O(1) arguments: log(1 - z) must not lose z
        return [pol(r, ang()) for r in strat(rnd, 1e-10, 1e-3, 2 * n)]
    if cls == "insideHalf":
        return [pol(rnd.uniform(1e-3, 0.49), ang()) for _ in range(n)]
    if cls == "halfCircle":
        return [pol(0.5 * (1 + rnd.choice([-1, 1]) * logu(rnd, 1e-16, 1e-3)), ang()) for _ in range(n)]
    if cls == "unitCircle":
        return [pol(1 + rnd.choice([-1, 0, 1]) * logu(rnd, 1e-16, 1e-3), ang()) for _ in range(n)]
    if cls == "nearOne":
        return [(1 + rnd.choice([-1, 1]) * logu(rnd, 1e-12, 0.3), rnd.choice([-1, 1]) * logu(rnd, 1e-12, 0.3)) for _ in range(n)]
    if cls == "outside":
        return [pol(rnd.uniform(1.05, 30), ang()) for _ in range(n)]
    if cls == "farOutside":
        return [pol(logu(rnd, 30, 1e8), ang()) for _ in range(n)]
    if cls == "realAxisLeft":
        return [(rnd.uniform(-5, 0.99), rnd.choice([0.0, -0.0])) for _ in range(n)]
    if cls == "cutAbove":
        return [(logu(rnd, 1.001, 1e6), rnd.choice([0.0, 1e-300, 1e-20])) for _ in range(n)]
    if cls == "cutBelow":
        return [(logu(rnd, 1.001, 1e6), -rnd.choice([1e-300, 1e-20])) for _ in range(n)]
    if cls == "imagAxis":
        return [(rnd.choice([0.0, -0.0]), rnd.choice([-1, 1]) * logu(rnd, 1e-3, 1e3)) for _ in range(n)]
    if cls == "negReal":
        return [(-logu(rnd, 1e-3, 1e6), rnd.choice([0.0, -0.0])) for _ in range(n)]
    if cls == "generic":
        return [(rnd.uniform(-3, 3), rnd.uniform(-3, 3)) for _ in range(n)]
    raise KeyError(cls)


def add_atoms(src, dst):
    r = subprocess.run(["python3-vt", os.path.join(core.VERIF, "harness", "lib", "atoms.py"), src, dst], capture_output=True, text=True)
    if r.returncode:
        raise RuntimeError("atoms.py failed: " + r.stderr[-2000:])


def run(tier, seed):
    cx = core.Ctx("C01", tier, seed, "exploration")
    rnd = random.Random(seed)
    cs = sorted(cases.get("C01"), key=lambda c: (c["fn"], c["cls"]))
    n = 4 if tier == "quick" else 60
    exe = build.driver_build("d_ff")
    cf = cx.path("cases.txt")
    meta = {}
    k = 0
    with open(cf, "w") as fh:
        for c in cs:
            if c["fn"] == "dilog":
                pts = [(x,) for x in dilog_points(c["cls"], rnd, n)]
            elif c["fn"] == "clausen_2":
                pts = [(x,) for x in cl2_points(c["cls"], rnd, n)]
            elif c["fn"] == "cdilog":
                pts = cdilog_points(c["cls"], rnd, n)
            else:
                pts = [(x,) for x in onevar_points(c, rnd, n)]
            for p in pts:
                cid = "e%d" % k
                k += 1
                meta[cid] = c["zero"]
                fh.write("%s %s %s %s\n" % (cid, c["fn"], c["cls"], " ".join(float(v).hex() for v in p)))
    raw = cx.path("raw.ndjson")
    core.run_driver(exe, [cf, raw])
    shards_raw = tlc.split_trace(raw, 16, group_key="id")
    import concurrent.futures as cf_
    def one(s):
        add_atoms(s, s + ".at")
        out = s + ".tr"
        with open(out, "w") as fo:
            for ln in open(s + ".at"):
                ev = json.loads(ln)
                ev["zero"] = meta[ev["id"]]
                fo.write(json.dumps(ev) + "\n")
        return out
    with cf_.ThreadPoolExecutor(16) as ex:
        shards = list(ex.map(one, shards_raw))
    for rep in tlc.validate_traces("Trace_C01.tla", shards, jobs=16, heap="3g"):
        cx.add_report(rep)
        cx.cov["invariant_evaluations"] = cx.cov.get("invariant_evaluations", 0) + rep["extra"]["nchecked"]
    for sh in shards:
        if any('"fn": "F1C"' in ln and '"mid"' in ln for ln in open(sh)):
            cx.selftest_corruption("Trace_C01.tla", sh, lambda ev: ev["y"] if ev["fn"] == "F1C" and ev["cls"] == "mid" else None, "Definition")
            break
    for ln in open(raw):
        ev = json.loads(ln)
        if ev["cls"] in ("winLoIn", "hiEdgeHi", "quarterLo") and len(cx.cov["samples"]) < 4:
            cx.sample({"fn": ev["fn"], "class": ev["cls"], "x": [core.dy(a).hex() for a in ev["a"]], "y": core.dy(ev["y"])})
    for ln in open(raw):
        ev = json.loads(ln)
        cx.evaluations += 1
        cx.distinct.add((ev["fn"], ev["cls"]))
    cx.assumptions += ["the transcendental atoms log x, Li2(1-x), Li2(1-1/x), f_PS(x) (Eq.(70) hep-ph/0609168), Li2(z), Cl2(x) are evaluated by mpmath "
                       "at 400 bits (harness/lib/atoms.py, tooling interpreter python3-vt); the rational structure of every definition is in "
                       "spec/Defs.tla and composed by TLC in exact arithmetic",
                       "accuracy is measured relative to max(|f(x)|, max |f| within 1 % of x): a relative statement at a zero crossing of f is empty",
                       "Cl2 for |x| >> 1: tolerance 1e-13 (1 + |x|) (argument reduction with a double 2 pi)"]
    return cx.finish(rule="every (function, argument class) of Regimes.tla (C01Cases: all evaluation regimes and both sides of every regime "
                          "boundary of the %d functions) concretised with adjacent doubles at the boundaries and random points inside; "
                          "distinct_nontrivial = (function, class) pairs evaluated" % 21)
