----------------------------- MODULE Trace_Writer -----------------------------
(***************************************************************************)
(* Trace validation of GM2_slha_io (read, fill_block_entry, write) against *)
(* SLHAWriter.tla.  The driver harness/drv/d_writer.cpp reads a concrete   *)
(* rendering of an abstract document, applies the recorded operations with *)
(* the library and prints the document after each step; harness/props/     *)
(* c15.py abstracts the printed text back (block names as written, first   *)
(* field, value token, comment token).                                     *)
(*                                                                         *)
(*   Load  doc: the document given, out: what the library prints for it    *)
(*         without any operation (must be the same document: echo);        *)
(*   Fill  op, out: the document printed after the operation; must be      *)
(*         Apply(doc, op) of the specification; doc' is the model's own    *)
(*         successor (resynchronised to the observation after a mismatch   *)
(*         so that one mismatch is reported once).                         *)
(***************************************************************************)
EXTENDS TraceBase, FiniteSets

W == INSTANCE SLHAWriterDefs WITH Variant <- "asis"

VARIABLES l, doc, viol, nchecked
vars == <<l, doc, viol, nchecked>>

Init == l = 1 /\ doc = <<>> /\ viol = <<>> /\ nchecked = 0

TLoad ==
  /\ l <= NLines /\ TraceLog[l].e = "Load"
  /\ LET ev == TraceLog[l]
         invs == << I("Writer:echoIdentity", ev.out = ev.doc) >>
     IN viol' = viol \o Failed(invs, l, ev.sig) /\ nchecked' = nchecked + 1 /\ doc' = ev.doc
  /\ l' = l + 1

TFill ==
  /\ l <= NLines /\ TraceLog[l].e = "Fill"
  /\ LET ev   == TraceLog[l]
         want == W!Apply(doc, ev.op)
         invs == << I("Writer:applyMatchesSpec", ev.out = want),
                    I("Writer:echoOthers", W!EchoStep(doc, ev.op, ev.out)),
                    I("Writer:writerSeesResult", W!FirstRead(ev.out, ev.op.name, ev.op.entry) = ev.op.v),
                    I("Writer:readerSeesResult",
                      (~W!Shadowed(doc, ev.op) /\ ~W!Respelled(doc, ev.op) /\ ~W!TwoBlocks(doc, ev.op))
                         => W!LastRead(ev.out, ev.op.name, ev.op.entry) = ev.op.v) >>
     IN viol' = viol \o Failed(invs, l, ev.sig) /\ nchecked' = nchecked + Len(invs) /\ doc' = ev.out
  /\ l' = l + 1

Next == TLoad \/ TFill
Spec == Init /\ [][Next]_vars
TraceReport == l = NLines + 1 => WriteReport(l, viol, [nchecked |-> nchecked])
=============================================================================
