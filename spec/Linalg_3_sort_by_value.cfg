SPECIFICATION Spec
CONSTANTS
  N = 3
  VMax = 2
  Bug = "sort_by_value"
INVARIANTS Contract Ordered NonNegative ScaledUnitary
CHECK_DEADLOCK FALSE
