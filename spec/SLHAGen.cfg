SPECIFICATION Spec
