"""C06 - MSSM a_mu is invariant under the joint sign flip of mu, M1, M2, M3 and A_f."""
import json
import random

import build
import cases
import core
import tlc


def run(tier, seed):
    cx = core.Ctx("C06", tier, seed, "exploration")
    pats = ["".join(p) for p in cases.get("C06")]        # all 2^13 sign patterns from TLC
    assert len(pats) == 8192
    rnd = random.Random(seed)
    if tier == "quick":
        pats = rnd.sample(pats, 768)
        reps = 1
    else:
        reps = 6
    exe = build.driver_build("d_mssm")
    cf = cx.path("cases.txt")
    with open(cf, "w") as fh:
        for r in range(reps):
            for p in pats:
                fh.write("%s_%d %s\n" % (p, r, p))
    tr = cx.path("trace.ndjson")
    core.run_driver(exe, ["c06", cf, tr])
    shards = tlc.split_trace(tr, 16, group_key="case")
    for rep in tlc.validate_traces("Trace_C06.tla", shards, jobs=16):
        cx.add_report(rep)
        cx.cov["invariant_evaluations"] = cx.cov.get("invariant_evaluations", 0) + rep["extra"]["nchecked"]
    seen_pat = set()
    for ln in open(tr):
        ev = json.loads(ln)
        if ev["role"] != "flip":
            continue
        cx.evaluations += 1
        if ev["exc"] == "":
            seen_pat.add(ev["sig"])
            cx.distinct.add(ev["case"])
            if len(cx.cov["samples"]) < 3:
                cx.sample({"case": ev["case"], "signs(mu,M1,M2,M3,Au123,Ad123,Ae123)": ev["sig"],
                           "amu1L_flipped": core.dy(ev["res"]["amu1L"]), "amu2L_flipped": core.dy(ev["res"]["amu2L"])})
    cx.cov["sign_patterns_covered"] = len(seen_pat)
    cx.assumptions += ["magnitudes are sampled (one random on-shell point per pattern and repetition)",
                       "TLC evaluates relative 1e-9 closeness exactly (Dyadic.tla)"]
    cx.selftest_corruption("Trace_C06.tla", shards[0], lambda ev: ev["res"]["amu2LChipmPhotonic"] if ev["e"] == "Eval" and ev["role"] == "flip" and ev["exc"] == "" else None, "FlipInvariant")
    return cx.finish(rule="sign patterns enumerated by TLC (Cases.tla: C06Cases, 2^13; quick: seeded subset of 768), "
                          "each concretised with random magnitudes; a case = (pattern, repetition) pair of models "
                          "orig/flipped; non-trivial = both spectra calculated without exception",
                     exhaustive=(tier == "thorough"))
