SPECIFICATION Spec
CONSTANT Extraction = "asin"
INVARIANT AlphaOK
CHECK_DEADLOCK FALSE
