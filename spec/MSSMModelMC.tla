----------------------------- MODULE MSSMModelMC -----------------------------
(* model-checking instance of MSSMModel.tla: precisions are naturals, the goal is 0 *)
EXTENDS Integers, TLC
CONSTANT BugC
AboveNat(p) == p > 0
NotBetterNat(p, q) == p >= q
VARIABLE st
M == INSTANCE MSSMModel WITH Above <- AboveNat, NotBetter <- NotBetterNat, Bug <- BugC, Precs <- 0..3, MaxIts <- 0..3
Spec == M!Spec
FairSpec == M!FairSpec
ConvergedOrWarned == M!ConvergedOrWarned
WarnOnlyIfNotConverged == M!WarnOnlyIfNotConverged
LoopBound == M!LoopBound
Terminates == M!Terminates
FlagsIndependent == M!FlagsIndependent
==============================================================================
