SPECIFICATION Spec
CONSTANTS
  MaxLen = 3
  Formats = {"slha","flat"}
  Bug = "none"
INVARIANTS TypeOK ReaderRefinesContent TokenRule LayoutIrrelevant
CHECK_DEADLOCK FALSE
