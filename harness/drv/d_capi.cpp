// C-API driver (C17): replays call sequences (concretised from CAPI.tla histories) on a C handle
// and, in lock-step, on a mirrored C++ object; one event per call with the C return value /
// error code and the mirror's value / exception class.  Every sequence runs in a forked child, so
// that an escaping exception or a sanitizer abort is *observed* (SeqEnd event written by the parent).
//
// usage: d_capi <scriptfile> <tracefile>
#include "models.hpp"

#include "gm2calc/MSSMNoFV_onshell.h"
#include "gm2calc/THDM.h"
#include "gm2calc/SM.h"
#include "gm2calc/gm2_1loop.h"
#include "gm2calc/gm2_2loop.h"
#include "gm2calc/gm2_uncertainty.h"
#include "gm2calc/gm2_error.h"

#include <fstream>
#include <functional>
#include <map>
#include <memory>
#include <sstream>
#include <sys/wait.h>

namespace g = gm2calc;
using CH = ::MSSMNoFV_onshell;          // C handle type
using MM = g::MSSMNoFV_onshell;         // mirror type

namespace {

double hexd(const std::string& s) { return std::strtod(s.c_str(), nullptr); }

int code_of(const std::string& exc) {
   if (exc.empty()) return 0;
   if (exc == "EInvalidInput") return 1;
   if (exc == "EPhysicalProblem") return 2;
   return 3;
}

struct Tables {
   std::map<std::string, std::pair<std::function<void(CH*, double)>, std::function<void(MM&, double)>>> set;
   std::map<std::string, std::pair<std::function<void(CH*, unsigned, unsigned, double)>, std::function<void(MM&, unsigned, unsigned, double)>>> setm;
   std::map<std::string, std::pair<std::function<void(CH*, unsigned, double)>, std::function<void(MM&, unsigned, double)>>> setv;
   std::map<std::string, std::pair<std::function<double(const CH*)>, std::function<double(const MM&)>>> get;
   std::map<std::string, std::pair<std::function<double(const CH*, unsigned)>, std::function<double(const MM&, unsigned)>>> getv;
   std::map<std::string, std::pair<std::function<double(const CH*, unsigned, unsigned)>, std::function<double(const MM&, unsigned, unsigned)>>> getm;
   std::map<std::string, std::pair<std::function<double(const CH*, unsigned, unsigned, double*)>, std::function<std::complex<double>(const MM&, unsigned, unsigned)>>> getc;
   std::map<std::string, std::pair<std::function<double(const CH*)>, std::function<double(const MM&)>>> fn;   // amu / part / unc
};

#define SETS(name, expr) t.set[#name] = {[](CH* h, double v) { gm2calc_mssmnofv_set_##name(h, v); }, [](MM& m, double v) { expr; }}
#define SETM(name) t.setm[#name] = {[](CH* h, unsigned i, unsigned k, double v) { gm2calc_mssmnofv_set_##name(h, i, k, v); }, [](MM& m, unsigned i, unsigned k, double v) { m.set_##name(i, k, v); }}
#define SETV(name, expr) t.setv[#name] = {[](CH* h, unsigned i, double v) { gm2calc_mssmnofv_set_##name(h, i, v); }, [](MM& m, unsigned i, double v) { expr; }}
#define GETS(name, expr) t.get[#name] = {[](const CH* h) { return gm2calc_mssmnofv_get_##name(h); }, [](const MM& m) { return expr; }}
#define GETV(name, expr) t.getv[#name] = {[](const CH* h, unsigned i) { return gm2calc_mssmnofv_get_##name(h, i); }, [](const MM& m, unsigned i) { return expr; }}
#define GETM(name, expr) t.getm[#name] = {[](const CH* h, unsigned i, unsigned k) { return gm2calc_mssmnofv_get_##name(h, i, k); }, [](const MM& m, unsigned i, unsigned k) { return expr; }}
#define GETC(name) t.getc[#name] = {[](const CH* h, unsigned i, unsigned k, double* im) { return gm2calc_mssmnofv_get_##name(h, i, k, im); }, [](const MM& m, unsigned i, unsigned k) { return std::complex<double>(m.get_##name(i, k)); }}
#define FN(cname, expr) t.fn[#cname] = {[](const CH* h) { return gm2calc_mssmnofv_##cname(h); }, [](const MM& m) { return expr; }}

Tables make_tables()
{
   Tables t;
   // documented correspondence (MSSMNoFV_onshell.h comments / MSSMNoFV_onshell.hpp)
   SETS(alpha_MZ, m.set_alpha_MZ(v)); SETS(alpha_thompson, m.set_alpha_thompson(v)); SETS(g3, m.set_g3(v));
   SETS(MassB, m.set_MassB(v)); SETS(MassWB, m.set_MassWB(v)); SETS(MassG, m.set_MassG(v)); SETS(Mu, m.set_Mu(v));
   SETS(TB, m.set_TB(v)); SETS(scale, m.set_scale(v)); SETS(MAh_pole, m.set_MA0(v));
   SETS(MZ_pole, m.get_physical().MVZ = v); SETS(MW_pole, m.get_physical().MVWm = v); SETS(MT_pole, m.get_physical().MFt = v);
   SETS(MB_running, m.get_physical().MFb = v); SETS(ML_pole, m.get_physical().MFtau = v); SETS(MM_pole, m.get_physical().MFm = v);
   SETS(MSvmL_pole, m.get_physical().MSvmL = v);
   SETM(Ae); SETM(Au); SETM(Ad); SETM(mq2); SETM(mu2); SETM(md2); SETM(ml2); SETM(me2);
   SETV(MSm_pole, m.get_physical().MSm(i) = v); SETV(MCha_pole, m.get_physical().MCha(i) = v); SETV(MChi_pole, m.get_physical().MChi(i) = v);
   GETS(EL, m.get_EL()); GETS(EL0, m.get_EL0()); GETS(gY, m.get_gY()); GETS(g1, m.get_g1()); GETS(g2, m.get_g2()); GETS(g3, m.get_g3());
   GETS(TB, m.get_TB()); GETS(MassB, m.get_MassB()); GETS(MassWB, m.get_MassWB()); GETS(MassG, m.get_MassG()); GETS(Mu, m.get_Mu());
   GETS(vev, m.get_vev()); GETS(scale, m.get_scale()); GETS(MW, m.get_MW()); GETS(MZ, m.get_MZ()); GETS(ME, m.get_ME());
   GETS(MM, m.get_MM()); GETS(ML, m.get_ML()); GETS(MU, m.get_MU()); GETS(MC, m.get_MC()); GETS(MT, m.get_MT()); GETS(MD, m.get_MD());
   GETS(MS, m.get_MS()); GETS(MB, m.get_MB()); GETS(MBMB, m.get_MBMB()); GETS(MAh, m.get_MAh(1));
   GETS(MSveL, m.get_MSveL()); GETS(MSvmL, m.get_MSvmL()); GETS(MSvtL, m.get_MSvtL());
   GETV(Mhh, m.get_Mhh(i)); GETV(MCha, m.get_MCha(i)); GETV(MChi, m.get_MChi(i)); GETV(MSe, m.get_MSe(i)); GETV(MSm, m.get_MSm(i));
   GETV(MStau, m.get_MStau(i)); GETV(MSu, m.get_MSu(i)); GETV(MSd, m.get_MSd(i)); GETV(MSc, m.get_MSc(i)); GETV(MSs, m.get_MSs(i));
   GETV(MSt, m.get_MSt(i)); GETV(MSb, m.get_MSb(i));
   GETM(Ae, m.get_Ae(i, k)); GETM(Ad, m.get_Ad(i, k)); GETM(Au, m.get_Au(i, k)); GETM(mq2, m.get_mq2(i, k)); GETM(md2, m.get_md2(i, k));
   GETM(mu2, m.get_mu2(i, k)); GETM(ml2, m.get_ml2(i, k)); GETM(me2, m.get_me2(i, k));
   GETM(USe, m.get_USe()(i, k)); GETM(USm, m.get_USm()(i, k)); GETM(UStau, m.get_UStau()(i, k)); GETM(USu, m.get_USu()(i, k));
   GETM(USd, m.get_USd()(i, k)); GETM(USc, m.get_USc()(i, k)); GETM(USs, m.get_USs()(i, k)); GETM(USt, m.get_USt()(i, k));
   GETM(USb, m.get_USb()(i, k)); GETM(Ye, m.get_Ye(i, k)); GETM(Yd, m.get_Yd(i, k)); GETM(Yu, m.get_Yu(i, k));
   GETC(UM); GETC(UP); GETC(ZN);
   FN(calculate_amu_1loop, g::calculate_amu_1loop(m)); FN(calculate_amu_1loop_non_tan_beta_resummed, g::calculate_amu_1loop_non_tan_beta_resummed(m));
   FN(calculate_amu_2loop, g::calculate_amu_2loop(m)); FN(calculate_amu_2loop_non_tan_beta_resummed, g::calculate_amu_2loop_non_tan_beta_resummed(m));
   FN(amu1LChi0, g::amu1LChi0(m)); FN(amu1LChipm, g::amu1LChipm(m)); FN(amu2LFSfapprox, g::amu2LFSfapprox(m));
   FN(amu2LFSfapprox_non_tan_beta_resummed, g::amu2LFSfapprox_non_tan_beta_resummed(m));
   FN(amu2LChipmPhotonic, g::amu2LChipmPhotonic(m)); FN(amu2LChi0Photonic, g::amu2LChi0Photonic(m));
   FN(amu2LaSferm, g::amu2LaSferm(m)); FN(amu2LaCha, g::amu2LaCha(m));
   FN(calculate_uncertainty_amu_0loop, g::calculate_uncertainty_amu_0loop(m));
   FN(calculate_uncertainty_amu_1loop, g::calculate_uncertainty_amu_1loop(m));
   FN(calculate_uncertainty_amu_2loop, g::calculate_uncertainty_amu_2loop(m));
   return t;
}

struct State {
   CH* h{nullptr};
   std::unique_ptr<MM> m;
   gm2calc_THDM* th{nullptr};
   std::unique_ptr<g::THDM> tm;
};

template <class F>
double mirror_val(std::string& exc, F&& f)
{
   double v = std::nan("");
   exc = vm::exc_class([&] { v = f(); });
   return v;
}

void fill_mass_basis(vt::Rng& r, const std::string& cls, int ytype, gm2calc_THDM_mass_basis& cb, g::thdm::Mass_basis& b)
{
   vm::ThdmPt p = vm::random_thdm_mass(r, 1 + r.below(6));
   b = p.mb;
   if (cls == "defect") { if (r.coin()) b.tan_beta = -1; else b.mh = b.mH * 2; }
   b.yukawa_type = static_cast<g::thdm::Yukawa_type>(ytype);
   if (cls == "badenum") { b.zeta_u = b.zeta_d = b.zeta_l = 0; b.Pi_u.setZero(); b.Pi_d.setZero(); b.Pi_l.setZero(); }
   cb.yukawa_type = static_cast<gm2calc_THDM_yukawa_type>(ytype);
   cb.mh = b.mh; cb.mH = b.mH; cb.mA = b.mA; cb.mHp = b.mHp; cb.sin_beta_minus_alpha = b.sin_beta_minus_alpha;
   cb.lambda_6 = b.lambda_6; cb.lambda_7 = b.lambda_7; cb.tan_beta = b.tan_beta; cb.m122 = b.m122;
   cb.zeta_u = b.zeta_u; cb.zeta_d = b.zeta_d; cb.zeta_l = b.zeta_l;
   for (int i = 0; i < 3; ++i) for (int k = 0; k < 3; ++k) {
      cb.Delta_u[i][k] = b.Delta_u(i, k); cb.Delta_d[i][k] = b.Delta_d(i, k); cb.Delta_l[i][k] = b.Delta_l(i, k);
      cb.Pi_u[i][k] = b.Pi_u(i, k); cb.Pi_d[i][k] = b.Pi_d(i, k); cb.Pi_l[i][k] = b.Pi_l(i, k);
   }
}

void fill_gauge_basis(vt::Rng& r, const std::string& cls, int ytype, gm2calc_THDM_gauge_basis& cb, g::thdm::Gauge_basis& b)
{
   b = g::thdm::Gauge_basis();
   b.lambda << 0.7, 0.6, 0.5, 0.4, 0.3, 0.2, 0.1;
   for (int i = 0; i < 7; ++i) b.lambda(i) *= r.uni(0.5, 1.5);
   b.tan_beta = r.logu(0.5, 30);
   b.m122 = r.uni(1e4, 1e5);
   if (cls == "defect") b.tan_beta = r.coin() ? 0.0 : -2.0;
   b.yukawa_type = static_cast<g::thdm::Yukawa_type>(ytype);
   cb.yukawa_type = static_cast<gm2calc_THDM_yukawa_type>(ytype);
   for (int i = 0; i < 7; ++i) cb.lambda[i] = b.lambda(i);
   cb.tan_beta = b.tan_beta; cb.m122 = b.m122; cb.zeta_u = b.zeta_u; cb.zeta_d = b.zeta_d; cb.zeta_l = b.zeta_l;
   for (int i = 0; i < 3; ++i) for (int k = 0; k < 3; ++k) {
      cb.Delta_u[i][k] = 0; cb.Delta_d[i][k] = 0; cb.Delta_l[i][k] = 0; cb.Pi_u[i][k] = 0; cb.Pi_d[i][k] = 0; cb.Pi_l[i][k] = 0;
   }
}

g::SM sm_of(const gm2calc_SM& c)
{
   g::SM sm;
   sm.set_alpha_em_0(c.alpha_em_0); sm.set_alpha_em_mz(c.alpha_em_mz); sm.set_alpha_s_mz(c.alpha_s_mz);
   sm.set_mh(c.mh); sm.set_mw(c.mw); sm.set_mz(c.mz);
   for (int i = 0; i < 3; ++i) { sm.set_mu(i, c.mu[i]); sm.set_md(i, c.md[i]); sm.set_mv(i, c.mv[i]); sm.set_ml(i, c.ml[i]); }
   for (int i = 0; i < 3; ++i) for (int k = 0; k < 3; ++k) sm.set_ckm(i, k, std::complex<double>(c.ckm_real[i][k], c.ckm_imag[i][k]));
   return sm;
}

void run_sequence(const std::string& id, const std::vector<std::vector<std::string>>& calls, const Tables& T, vt::Rng& rng)
{
   State s;
   int n = 0;
   for (const auto& c : calls) {
      ++n;
      const std::string& op = c.at(0);
      vt::Ev ev("Call");
      ev.str("seq", id).i("i", n).str("c", op).str("p", c.size() > 1 ? c[1] : "-");
      std::string mexc;
      if (op == "new") {
         if (s.h) { gm2calc_mssmnofv_free(s.h); }
         s.h = gm2calc_mssmnofv_new(); s.m.reset(new MM());
         ev.b("ok", s.h != nullptr);
      } else if (op == "free") {
         gm2calc_mssmnofv_free(s.h); s.h = nullptr; s.m.reset(); ev.b("ok", true);
      } else if (op == "freenull") {
         gm2calc_mssmnofv_free(nullptr); ev.b("ok", true);
      } else if (op == "set") {
         const double v = hexd(c.at(2));
         T.set.at(c[1]).first(s.h, v); mexc = vm::exc_class([&] { T.set.at(c[1]).second(*s.m, v); });
         ev.num("v", v);
      } else if (op == "setm") {
         const unsigned i = std::stoul(c.at(2)), k = std::stoul(c.at(3)); const double v = hexd(c.at(4));
         T.setm.at(c[1]).first(s.h, i, k, v); T.setm.at(c[1]).second(*s.m, i, k, v);
         ev.i("i1", i).i("i2", k).num("v", v);
      } else if (op == "setv") {
         const unsigned i = std::stoul(c.at(2)); const double v = hexd(c.at(3));
         T.setv.at(c[1]).first(s.h, i, v); T.setv.at(c[1]).second(*s.m, i, v);
         ev.i("i1", i).num("v", v);
      } else if (op == "copypoles") {
         // the spectrum just calculated becomes the set of pole masses (every value read through a getter and written
         // through a setter, on the C handle and on the mirror): afterwards a conversion to the on-shell scheme is meaningful
         mexc = vm::exc_class([&] {
            T.set.at("MSvmL_pole").first(s.h, T.get.at("MSvmL").first(s.h)); T.set.at("MSvmL_pole").second(*s.m, T.get.at("MSvmL").second(*s.m));
            T.set.at("MAh_pole").first(s.h, T.get.at("MAh").first(s.h)); T.set.at("MAh_pole").second(*s.m, T.get.at("MAh").second(*s.m));
            for (unsigned i = 0; i < 2; ++i) {
               T.setv.at("MSm_pole").first(s.h, i, T.getv.at("MSm").first(s.h, i)); T.setv.at("MSm_pole").second(*s.m, i, T.getv.at("MSm").second(*s.m, i));
               T.setv.at("MCha_pole").first(s.h, i, T.getv.at("MCha").first(s.h, i)); T.setv.at("MCha_pole").second(*s.m, i, T.getv.at("MCha").second(*s.m, i));
            }
            for (unsigned i = 0; i < 4; ++i) {
               T.setv.at("MChi_pole").first(s.h, i, T.getv.at("MChi").first(s.h, i)); T.setv.at("MChi_pole").second(*s.m, i, T.getv.at("MChi").second(*s.m, i));
            }
         });
      } else if (op == "verbose") {
         gm2calc_mssmnofv_set_verbose_output(s.h, std::stoi(c.at(1))); s.m->set_verbose_output(std::stoi(c.at(1)) != 0);
      } else if (op == "get") {
         const double mv = mirror_val(mexc, [&] { return T.get.at(c[1]).second(*s.m); });
         const double cv = T.get.at(c[1]).first(s.h);
         ev.num("cret", cv).num("mret", mv);
      } else if (op == "getv") {
         const unsigned i = std::stoul(c.at(2));
         const double mv = mirror_val(mexc, [&] { return T.getv.at(c[1]).second(*s.m, i); });
         ev.num("cret", T.getv.at(c[1]).first(s.h, i)).num("mret", mv).i("i1", i);
      } else if (op == "getm") {
         const unsigned i = std::stoul(c.at(2)), k = std::stoul(c.at(3));
         const double mv = mirror_val(mexc, [&] { return T.getm.at(c[1]).second(*s.m, i, k); });
         ev.num("cret", T.getm.at(c[1]).first(s.h, i, k)).num("mret", mv).i("i1", i).i("i2", k);
      } else if (op == "getc") {
         const unsigned i = std::stoul(c.at(2)), k = std::stoul(c.at(3)); const bool want = c.at(4) == "1";
         double im = 12345.0;
         const std::complex<double> z = T.getc.at(c[1]).second(*s.m, i, k);
         const double re = T.getc.at(c[1]).first(s.h, i, k, want ? &im : nullptr);
         ev.num("cret", re).num("mret", z.real()).num("cim", want ? im : z.imag()).num("mim", z.imag()).i("i1", i).i("i2", k);
      } else if (op == "fn") {          // amu / part / unc
         const double mv = mirror_val(mexc, [&] { return T.fn.at(c[1]).second(*s.m); });
         vt::flush_trace();
         const double cv = T.fn.at(c[1]).first(s.h);
         ev.num("cret", cv).num("mret", mv);
      } else if (op == "convert" || op == "convertp" || op == "calc") {
         gm2calc_error err;
         if (op == "convert") { err = gm2calc_mssmnofv_convert_to_onshell(s.h); mexc = vm::exc_class([&] { s.m->convert_to_onshell(); }); }
         else if (op == "convertp") {
            const double prec = hexd(c.at(1)); const unsigned maxit = std::stoul(c.at(2));
            err = gm2calc_mssmnofv_convert_to_onshell_params(s.h, prec, maxit);
            mexc = vm::exc_class([&] { s.m->convert_to_onshell(prec, maxit); });
         } else { err = gm2calc_mssmnofv_calculate_masses(s.h); mexc = vm::exc_class([&] { s.m->calculate_masses(); }); }
         ev.i("code", int(err)).i("mcode", code_of(mexc)).str("errstr", gm2calc_error_str(err));
      } else if (op == "haveproblem") {
         ev.i("cint", gm2calc_mssmnofv_have_problem(s.h)).i("mint", s.m->get_problems().have_problem() ? 1 : 0);
      } else if (op == "havewarning") {
         ev.i("cint", gm2calc_mssmnofv_have_warning(s.h)).i("mint", s.m->get_problems().have_warning() ? 1 : 0);
      } else if (op == "strget") {
         const unsigned len = std::stoul(c.at(2)); const bool nullbuf = c.at(3) == "1";
         const std::string want = c[1] == "problems" ? s.m->get_problems().get_problems() : s.m->get_problems().get_warnings();
         const unsigned pad = 16;
         std::vector<char> buf(len + pad, 0x7f);
         vt::flush_trace();
         if (c[1] == "problems") gm2calc_mssmnofv_get_problems(s.h, nullbuf ? nullptr : buf.data(), len);
         else gm2calc_mssmnofv_get_warnings(s.h, nullbuf ? nullptr : buf.data(), len);
         long last = 0, term = -1;
         for (unsigned j = 0; j < len + pad; ++j) if (buf[j] != 0x7f) last = j + 1;
         for (unsigned j = 0; j < len; ++j) if (buf[j] == '\0') { term = j; break; }
         const std::string got = term >= 0 ? std::string(buf.data(), term) : std::string();
         ev.i("len", len).b("nullbuf", nullbuf).i("written", last).i("term", term)
           .b("prefix", want.compare(0, got.size(), got) == 0).i("wantlen", long(want.size())).i("gotlen", long(got.size()));
      } else if (op == "smdefault") {
         gm2calc_SM sm; gm2calc_sm_set_to_default(&sm); g::SM ref;
         ev.num("cret", sm.mw).num("mret", ref.get_mw()).num("c2", sm.alpha_em_mz).num("m2", ref.get_alpha_em_mz());
      } else if (op == "cfgdefault") {
         gm2calc_THDM_config cfg; gm2calc_thdm_config_set_to_default(&cfg); g::thdm::Config ref;
         ev.i("cint", cfg.force_output * 2 + cfg.running_couplings).i("mint", int(ref.force_output) * 2 + int(ref.running_couplings));
      } else if (op == "inttotype") {
         const int k = std::stoi(c.at(1));
         int mv = -1; mexc = vm::exc_class([&] { mv = static_cast<int>(g::thdm::int_to_cpp_yukawa_type(k)); });
         vt::flush_trace();
         ev.i("cint", int(int_to_c_yukawa_type(k))).i("mint", mv).i("arg", k);
      } else if (op == "tnew") {
         const std::string& kind = c.at(1); const std::string& cls = c.at(2); const int ytype = std::stoi(c.at(3));
         const bool nullcfg = c.at(4) == "1", nullsm = c.at(5) == "1";
         if (s.th) { gm2calc_thdm_free(s.th); s.th = nullptr; s.tm.reset(); }
         gm2calc_SM csm; gm2calc_sm_set_to_default(&csm);
         csm.alpha_em_mz = 1.0 / 128.94579; csm.mu[2] = 173.34; csm.mu[1] = 1.28; csm.md[2] = 4.18; csm.ml[2] = 1.77684;
         gm2calc_THDM_config ccfg; gm2calc_thdm_config_set_to_default(&ccfg);
         g::thdm::Config mcfg;
         gm2calc_error err;
         if (kind == "mass") {
            gm2calc_THDM_mass_basis cb; g::thdm::Mass_basis b; fill_mass_basis(rng, cls, ytype, cb, b);
            vt::flush_trace();
            err = gm2calc_thdm_new_with_mass_basis(&s.th, &cb, nullsm ? nullptr : &csm, nullcfg ? nullptr : &ccfg);
            mexc = vm::exc_class([&] { s.tm.reset(new g::THDM(b, nullsm ? g::SM() : sm_of(csm), mcfg)); });
         } else {
            gm2calc_THDM_gauge_basis cb; g::thdm::Gauge_basis b; fill_gauge_basis(rng, cls, ytype, cb, b);
            vt::flush_trace();
            err = gm2calc_thdm_new_with_gauge_basis(&s.th, &cb, nullsm ? nullptr : &csm, nullcfg ? nullptr : &ccfg);
            mexc = vm::exc_class([&] { s.tm.reset(new g::THDM(b, nullsm ? g::SM() : sm_of(csm), mcfg)); });
         }
         if (!mexc.empty()) s.tm.reset();
         ev.i("code", int(err)).i("mcode", code_of(mexc)).b("handle", s.th != nullptr).str("cls", cls).i("ytype", ytype);
      } else if (op == "tfn" && (s.th == nullptr || !s.tm)) {
         // the constructor refused the randomly drawn basis: there is no handle to call on
         ev.b("skipped", true);
      } else if (op == "tfn") {
         std::function<double(const gm2calc_THDM*)> cf; std::function<double(const g::THDM&)> mf;
         const std::string& f = c.at(1);
         if (f == "amu1L") { cf = gm2calc_thdm_calculate_amu_1loop; mf = [](const g::THDM& m) { return g::calculate_amu_1loop(m); }; }
         else if (f == "amu2L") { cf = gm2calc_thdm_calculate_amu_2loop; mf = [](const g::THDM& m) { return g::calculate_amu_2loop(m); }; }
         else if (f == "amu2LF") { cf = gm2calc_thdm_calculate_amu_2loop_fermionic; mf = [](const g::THDM& m) { return g::calculate_amu_2loop_fermionic(m); }; }
         else if (f == "amu2LB") { cf = gm2calc_thdm_calculate_amu_2loop_bosonic; mf = [](const g::THDM& m) { return g::calculate_amu_2loop_bosonic(m); }; }
         else if (f == "unc0L") { cf = gm2calc_thdm_calculate_uncertainty_amu_0loop; mf = [](const g::THDM& m) { return g::calculate_uncertainty_amu_0loop(m); }; }
         else if (f == "unc1L") { cf = gm2calc_thdm_calculate_uncertainty_amu_1loop; mf = [](const g::THDM& m) { return g::calculate_uncertainty_amu_1loop(m); }; }
         else { cf = gm2calc_thdm_calculate_uncertainty_amu_2loop; mf = [](const g::THDM& m) { return g::calculate_uncertainty_amu_2loop(m); }; }
         const double mv = mirror_val(mexc, [&] { return mf(*s.tm); });
         vt::flush_trace();
         ev.num("cret", cf(s.th)).num("mret", mv);
      } else if (op == "tfree") {
         gm2calc_thdm_free(s.th); s.th = nullptr; s.tm.reset();
      } else if (op == "tfreenull") {
         gm2calc_thdm_free(nullptr);
      }
      ev.str("mexc", mexc);
      ev.emit();
      vt::flush_trace();
   }
   if (s.h) gm2calc_mssmnofv_free(s.h);
   if (s.th) gm2calc_thdm_free(s.th);
}

} // namespace

int main(int argc, char** argv)
{
   if (argc < 3) { std::fprintf(stderr, "usage: d_capi <scriptfile> <tracefile>\n"); return 2; }
   std::ifstream in(argv[1]);
   { FILE* f = std::fopen(argv[2], "w"); if (!f) return 3; std::fclose(f); }
   const Tables T = make_tables();
   std::string line, id;
   std::vector<std::vector<std::string>> calls;
   std::uint64_t nseq = 0;
   while (std::getline(in, line)) {
      std::istringstream is(line);
      std::vector<std::string> f; std::string t;
      while (is >> t) f.push_back(t);
      if (f.empty()) continue;
      if (f[0] == "SEQ") { id = f.at(1); calls.clear(); continue; }
      if (f[0] != "END") { calls.push_back(f); continue; }
      ++nseq;
      std::fflush(nullptr);
      const pid_t pid = fork();
      if (pid == 0) {
         FILE* fo = std::fopen(argv[2], "a");
         vt::out() = fo;
         vt::install_terminate();
         // silence the library's stderr chatter in the child
         // the library's stderr chatter (and any sanitizer report) goes to <tracefile>.stderr
         if (!std::freopen((std::string(argv[2]) + ".stderr").c_str(), "a", stderr)) {}
         std::fprintf(stderr, "=== %s\n", id.c_str());
         vt::Rng rng(vt::env_seed() * 1000003ULL + nseq);
         run_sequence(id, calls, T, rng);
         vt::flush_trace();
         _exit(0);
      }
      int status = 0;
      waitpid(pid, &status, 0);
      FILE* fo = std::fopen(argv[2], "a");
      std::fprintf(fo, "{\"e\":\"SeqEnd\",\"seq\":\"%s\",\"planned\":%zu,\"exited\":%s,\"status\":%d,\"signal\":%d}\n", id.c_str(),
                   calls.size(), WIFEXITED(status) ? "true" : "false", WIFEXITED(status) ? WEXITSTATUS(status) : -1,
                   WIFSIGNALED(status) ? WTERMSIG(status) : 0);
      std::fclose(fo);
   }
   return 0;
}
