"""Concretisation of abstract SLHA files (SLHAContent.tla alphabet) into input text.

An abstract file is a list of line records {t, name, q, key, val}.  A *target* fixes the
concrete input format and the concrete block behind the abstract name FREE; keys k1, k2
are mapped to two documented keys of the concrete blocks (cycling through all of them over
the cases), kx to an undocumented key, values va, vb to two distinct decimal numbers.
All random choices come from the random.Random passed in (seeded by VERIF_SEED).
"""

# documented keys (README "Input parameters" + key tables of gm2_slha_io.cpp), per concrete format
DOC = {
    "slha": {
        "SMINPUTS": [3, 4, 5, 6, 7, 8, 9, 11, 12, 13, 14, 21, 22, 23, 24],
        "MASS": [24, 25, 35, 36, 37, 1000021, 1000022, 1000023, 1000024, 1000025, 1000035, 1000037,
                 1000001, 1000002, 1000003, 1000004, 1000005, 1000006, 1000011, 1000012, 1000013, 1000014,
                 1000015, 1000016, 2000001, 2000002, 2000003, 2000004, 2000005, 2000006, 2000011, 2000013,
                 2000015],
        "GM2CALCINPUT": [1, 2],
        "HMIX": [1, 2, 4],
        "MSOFT": [1, 2, 3, 21, 22, 31, 32, 33, 34, 35, 36, 41, 42, 43, 44, 45, 46, 47, 48, 49],
    },
    "gm2calc": {
        "SMINPUTS": [3, 4, 5, 6, 7, 8, 9, 11, 12, 13, 14, 21, 22, 23, 24],
        "GM2CALCINPUT": list(range(0, 33)),
        "HMIX": [1, 2, 4],          # not read in this format
        "MSOFT": [1, 2, 3, 31, 32],  # not read in this format
    },
    "thdm": {
        "SMINPUTS": [1, 3, 4, 5, 6, 7, 8, 9, 11, 12, 13, 14, 21, 22, 23, 24],
        "MINPAR": [3, 11, 12, 13, 14, 15, 16, 17, 18, 20, 21, 22, 23, 24],
        "MASS": [24, 25, 35, 36, 37],
        "VCKMIN": [1, 2, 3, 4],
        "GM2CALCINPUT": [33],
        "HMIX": [1, 2, 4],
        "MSOFT": [1, 2, 3, 31, 32],
    },
}

# names for the abstract block FREE per concrete format
FREE_CHOICES = {
    "slha": ["SMINPUTS", "MASS", "GM2CALCINPUT"],
    "gm2calc": ["SMINPUTS", "GM2CALCINPUT"],
    "thdm": ["SMINPUTS", "MINPAR", "MASS", "VCKMIN", "GM2CALCINPUT"],
}
# matrix-valued blocks (two index tokens per line, read by GM2_slha_io::read_matrix); same abstract semantics:
# every block of the name at the accepted scale is read in file order, later assignments override earlier ones
MATRIX_BLOCKS = {"AE", "AU", "AD", "GM2CalcTHDMDeltauInput", "GM2CalcTHDMDeltadInput", "GM2CalcTHDMDeltalInput",
                 "GM2CalcTHDMPiuInput", "GM2CalcTHDMPidInput", "GM2CalcTHDMPilInput"}
MATRIX_KEYS = ["%d %d" % (i, k) for i in (1, 2, 3) for k in (1, 2, 3)]
MATRIX_UNKNOWN_KEY = "4 2"      # outside the 3x3 matrix: ignored
FREE_CHOICES["thdm"] = FREE_CHOICES["thdm"] + ["GM2CalcTHDMDeltauInput", "GM2CalcTHDMPilInput", "GM2CalcTHDMDeltadInput",
                                               "GM2CalcTHDMPiuInput", "GM2CalcTHDMDeltalInput", "GM2CalcTHDMPidInput"]
DEP_CHOICES = {"slha": ["MSOFT", "AE", "AU", "MSOFT", "AD"], "gm2calc": ["MSOFT"], "thdm": ["MSOFT"]}
ABS_FMT = {"slha": "slha", "gm2calc": "flat", "thdm": "flat"}
FOREIGN = ["FOOBAR", "MODSEL", "EXTPAR", "ALPHA", "GAUGE", "YU", "SPINFO2"]
UNKNOWN_KEY = 77          # a key no table documents

BAD_VAL = {"text": ["abc", "x1", "--"], "nan": ["nan", "NaN", "-nan"], "inf": ["inf", "-Inf", "infinity"],
           "overflow": ["1e400", "-1E999"], "trailing": ["100abc", "1.5x", "3.0e2y", "7,5"],
           "dexp": ["1.0D3", "0.999D0", "2d2"]}
BAD_KEY = {"text": ["abc", "k"], "nan": ["nan"], "overflow": ["99999999999", "-99999999999"],
           "trailing": ["1x", "2abc", "1e400", "1e0"], "nonint": ["1.5", "2.0"]}
BAD_Q = {"text": ["abc"], "nan": ["nan"], "overflow": ["1e400"], "trailing": ["1000x", "1.0e3q"], "dexp": ["1.0D3"]}

SPELL = ["plain", "sci", "SCI", "plus", "pad", "shift", "lead0"]


def dec_value(rnd, kind="pos"):
    """a decimal number (mantissa digits, exponent) -> (python float, canonical decimal string)"""
    if kind == "type":
        m = rnd.randint(1, 6)
        return float(m), m, 0
    if kind == "unit":
        m = rnd.randint(1001, 8999)
        return None, m, -4
    if kind == "mz":
        return None, rnd.randint(900001, 919999), -4
    if kind == "mw":
        return None, rnd.randint(790001, 809999), -4
    if kind == "alpha":
        return None, rnd.randint(700001, 799999), -8
    if kind == "sba":
        m = rnd.randint(9001, 9999)
        return None, m, -4
    m = rnd.randint(100001, 999999)
    e = rnd.choice([-7, -6, -5, -4, -3, -2, -1])
    return None, m, e


def spell(m, e, how, neg=False):
    """spell the decimal number m * 10^e in different ways that denote the same real"""
    sgn = "-" if neg else ""
    digits = str(m)
    if how == "sci":
        return "%s%s.%se%+d" % (sgn, digits[0], digits[1:] or "0", e + len(digits) - 1)
    if how == "SCI":
        return "%s%s.%s00E%+03d" % (sgn, digits[0], digits[1:] or "0", e + len(digits) - 1)
    if how == "shift":
        return "%s%se%d" % (sgn, digits, e)
    # positional notations
    if e >= 0:
        s = digits + "0" * e
        frac = ""
    else:
        if -e >= len(digits):
            s = "0"
            frac = "0" * (-e - len(digits)) + digits
        else:
            s = digits[:e]
            frac = digits[e:]
    if how == "plus" and not neg:
        return "+" + s + ("." + frac if frac else ".")
    if how == "pad":
        return sgn + s + "." + frac + "000"
    if how == "lead0":
        return sgn + "00" + s + ("." + frac if frac else "")
    return sgn + s + ("." + frac if frac else "")


def value_kind(cfmt, block, key):
    if block == "MINPAR" and key == 24:
        return "type"
    if block == "SMINPUTS" and key == 4:
        return "mz"
    if (block == "SMINPUTS" and key == 9) or (block == "MASS" and key == 24):
        return "mw"
    if block == "GM2CALCINPUT" and key in (1, 2):
        return "alpha"
    if block == "VCKMIN":
        return "unit"
    if block == "MINPAR" and key == 20:
        return "sba"
    return "pos"


class Target:
    """concretisation choices for one abstract case"""

    def __init__(self, rnd, cfmt, counter):
        self.cfmt = cfmt
        self.fmt = ABS_FMT[cfmt]
        self.free = FREE_CHOICES[cfmt][counter % len(FREE_CHOICES[cfmt])]
        dep = DEP_CHOICES[cfmt][(counter // len(FREE_CHOICES[cfmt])) % len(DEP_CHOICES[cfmt])]
        self.block = {"FREE": self.free, "HMIX": "HMIX", "DEP": dep, "X": rnd.choice(FOREIGN)}
        self.keys = {}
        self.vals = {}
        for ab in ("FREE", "HMIX", "DEP"):
            doc = MATRIX_KEYS if self.block[ab] in MATRIX_BLOCKS else DOC[cfmt].get(self.block[ab], [1, 2])
            i = (counter // len(FREE_CHOICES[cfmt])) % len(doc)
            k1 = doc[i]
            k2 = doc[(i + 1 + rnd.randrange(max(1, len(doc) - 1))) % len(doc)]
            if k2 == k1:
                k2 = doc[(i + 1) % len(doc)]
            if k2 == k1:        # single documented key: k2 becomes a key this format does not read
                k2 = 1 if k1 != 1 else 2
            self.keys[ab] = {"k1": k1, "k2": k2, "kx": MATRIX_UNKNOWN_KEY if self.block[ab] in MATRIX_BLOCKS else UNKNOWN_KEY}
            for k in ("k1", "k2"):
                kind = value_kind(cfmt, self.block[ab], self.keys[ab][k])
                _, ma, ea = dec_value(rnd, kind)
                _, mb, eb = dec_value(rnd, kind)
                while (mb, eb) == (ma, ea):
                    _, mb, eb = dec_value(rnd, kind)
                self.vals[(ab, k)] = {"va": (ma, ea), "vb": (mb, eb)}
        self.vals_x = {"va": (123457, -3), "vb": (765433, -2)}
        # Q1n is within the reader's absolute tolerance 0.01 of Q1; Q2 stands for any scale further away than that:
        # far (2000, 500) as well as close in relative terms (1004, 996, 1000.02)
        self.q = {"Q1": (100000, -2), "Q1n": (1000005, -3),
                  "Q2": rnd.choice([(2000, 0), (1004, 0), (996, 0), (100002, -2), (5, 2), (99998, -2)])}
        self.badclass = rnd.choice(sorted(BAD_VAL))

    def describe(self):
        return {"cfmt": self.cfmt, "FREE": self.free, "X": self.block["X"],
                "keys": {ab: {k: v for k, v in ks.items()} for ab, ks in self.keys.items()},
                "badclass": self.badclass}


def _value_text(tg, ab, key, val, rnd, canonical, strict=True):
    if val == "vbad":
        cls = tg.badclass
        return rnd.choice(BAD_VAL[cls]), cls
    if ab in ("X",) or key not in ("k1", "k2"):
        m, e = tg.vals_x[val]
    else:
        m, e = tg.vals[(ab, key)][val]
    how = "plain" if canonical else rnd.choice(SPELL)
    kind = value_kind(tg.cfmt, tg.block.get(ab, ""), tg.keys.get(ab, {}).get(key, -1)) if ab != "X" else "pos"
    if kind == "type":
        how = "plain"
    return spell(m, e, how), None


def _case_variant(s, rnd):
    c = rnd.randrange(4)
    if c == 0:
        return s.upper()
    if c == 1:
        return s.lower()
    if c == 2:
        return "".join(ch.upper() if i % 2 else ch.lower() for i, ch in enumerate(s))
    return s.capitalize()


PRETTY = {"SMINPUTS": "SMINPUTS", "MASS": "MASS", "GM2CALCINPUT": "GM2CalcInput", "HMIX": "HMIX", "MSOFT": "MSOFT",
          "MINPAR": "MINPAR", "VCKMIN": "VCKMIN"}


def render(tg, lines, rnd, canonical=False):
    """abstract lines -> text.  Returns (text, bad_classes_used)"""
    out = []
    cur = None
    used = set()
    ws = (lambda: " ") if canonical else (lambda: rnd.choice([" ", "  ", "\t", "   ", " \t "]))
    ind = (lambda: " ") if canonical else (lambda: rnd.choice(["", " ", "   ", "\t", "      "]))
    cmt = (lambda: "") if canonical else (lambda: rnd.choice(["", "", "  # comment", " #x", "\t# Block FAKE Q= 1 # 1 2"]))
    for ln in lines:
        if ln["t"] == "hdr":
            cur = ln["name"]
            name = tg.block[cur]
            name = PRETTY.get(name, name)
            if not canonical:
                name = _case_variant(name, rnd)
            kw = "Block" if canonical else _case_variant("Block", rnd)
            q = ""
            if ln["q"] == "Qbad":
                cls = rnd.choice(sorted(BAD_Q))
                used.add("Q:" + cls)
                q = ws() + "Q=" + ws() + rnd.choice(BAD_Q[cls])
            elif ln["q"] != "NoQ":
                m, e = tg.q[ln["q"]]
                q = ws() + "Q=" + ws() + spell(m, e, "sci" if canonical else rnd.choice(SPELL))
            hind = "" if canonical else rnd.choice(["", "", " ", "  "])
            out.append(hind + kw + ws() + name + q + cmt())
        elif ln["t"] == "dat":
            ab = cur if cur is not None else "X"
            if ln["key"] == "kbad":
                is_mat = cur is not None and tg.block.get(cur) in MATRIX_BLOCKS
                # matrix indices are read as 64-bit Eigen::Index: 99999999999 is a valid index outside the matrix there
                cls = rnd.choice(sorted(c for c in BAD_KEY if not (is_mat and c == "overflow")))
                used.add("K:" + cls)
                ktxt = rnd.choice(BAD_KEY[cls])
                if is_mat:
                    ktxt = rnd.choice([ktxt + " 2", "2 " + ktxt])
            elif ab == "X" or cur is None:
                ktxt = str({"k1": 1, "k2": 2, "kx": UNKNOWN_KEY}[ln["key"]])
            else:
                ktxt = str(tg.keys[ab][ln["key"]])
            vtxt, cls = _value_text(tg, ab if cur is not None else "X", ln["key"], ln["val"], rnd, canonical)
            if cls:
                used.add("V:" + cls)
            out.append(ind() + ktxt + ws() + vtxt + cmt())
        else:
            out.append("" if canonical else rnd.choice(["# a comment line", "", "   ", "#", "\t# Block HMIX Q= 3"]))
        if not canonical and rnd.random() < 0.15:
            out.append(rnd.choice(["", "# interleaved comment", "  "]))
    return "\n".join(out) + "\n", sorted(used)


def canonical_lines(fmt, den, scale_tok):
    """abstract lines of the normal form of a denotation: one block per name, keys sorted,
    final assignments only.  In the scale-dependent format every block carries the scale."""
    lines = []
    byb = {}
    for d in den:
        byb.setdefault(d["b"], []).append(d)
    names = ["FREE", "HMIX", "DEP"]
    for b in names:
        if b not in byb and not (fmt == "slha" and b == "HMIX"):
            continue
        q = "NoQ"
        if fmt == "slha" and b in ("HMIX", "DEP"):
            q = scale_tok
        lines.append({"t": "hdr", "name": b, "q": q, "key": "-", "val": "-"})
        for d in sorted(byb.get(b, []), key=lambda x: x["k"]):
            lines.append({"t": "dat", "name": "-", "q": "-", "key": d["k"], "val": d["v"]})
    return lines


def scale_token(lines):
    q = "NoQ"
    for ln in lines:
        if ln["t"] == "hdr" and ln["name"] == "HMIX":
            q = ln["q"]
    return q


# ---------------------------------------------------------------------------------------------
# text-level layout-preserving rewrites of complete input files (whole-program runs)

def parse_blocks(text):
    """split an input text into (preamble lines, [block lines...]) keeping every line"""
    pre, blocks = [], []
    for ln in text.splitlines():
        f = ln.split("#", 1)[0].split()
        if f and f[0].upper() in ("BLOCK", "DECAY") and len(f) > 1:
            blocks.append([ln])
        elif blocks:
            blocks[-1].append(ln)
        else:
            pre.append(ln)
    return pre, blocks


def block_name(b):
    return b[0].split("#", 1)[0].split()[1].upper()


def rewrite_text(text, rnd):
    """one random composition of the rewrite classes of C13; the content is unchanged"""
    pre, blocks = parse_blocks(text)
    # permutation of blocks that keeps the relative order of same-named blocks
    order = list(range(len(blocks)))
    rnd.shuffle(order)
    byname = {}
    for i in range(len(blocks)):
        byname.setdefault(block_name(blocks[i]), []).append(i)
    used = {n: 0 for n in byname}
    perm = []
    for i in order:
        n = block_name(blocks[i])
        perm.append(blocks[byname[n][used[n]]])
        used[n] += 1
    out = list(pre)
    hmix_q = None
    for b in blocks:
        if block_name(b) == "HMIX":
            f = b[0].split("#", 1)[0].split()
            if len(f) > 3 and f[2] == "Q=":
                hmix_q = f[3]
    for b in perm:
        name = block_name(b)
        for j, ln in enumerate(b):
            body, sep, com = ln.partition("#")
            f = body.split()
            if j == 0:
                f[0] = _case_variant("Block", rnd)
                f[1] = _case_variant(f[1], rnd)
                new = rnd.choice(["", " "]) + rnd.choice([" ", "  ", "\t"]).join(f)
            elif f:
                # earlier duplicate of the entry with another value (the later one wins)
                if rnd.random() < 0.1 and len(f) == 2:
                    out.append("   " + f[0] + "   " + f[1] + "  # earlier duplicate")
                # unknown key (silently ignored only in blocks without warning: stay with MASS/MINPAR/VCKMIN)
                toks = list(f)
                if len(toks) >= 2 and rnd.random() < 0.3:
                    t = toks[-1]
                    if "E" in t:
                        toks[-1] = t.replace("E", "e")
                    elif "e" in t and not t.lower().startswith("0x"):
                        toks[-1] = t.replace("e", "E")
                    elif t[0].isdigit() and rnd.random() < 0.5:
                        toks[-1] = "+" + t
                new = rnd.choice([" ", "    ", "\t", "        "]) + rnd.choice(["  ", "\t", "      "]).join(toks)
            else:
                new = body
            if sep:
                new += rnd.choice([" ", "   "]) + "#" + com
            elif rnd.random() < 0.2:
                new += "  # added comment"
            out.append(new)
            if rnd.random() < 0.1:
                out.append(rnd.choice(["", "# comment line", "   "]))
        if rnd.random() < 0.3:
            out.append("Block %s" % rnd.choice(FOREIGN))
            out.append("   1   abc   # foreign block with junk")
            out.append("   x   1.0")
    # repeated scale-dependent blocks at another scale, in front (the last HMIX stays last)
    if hmix_q is not None and rnd.random() < 0.7:
        front = ["Block MSOFT Q= 1.2345e5", "   1   1.0e1", "   35  nan", "Block HMIX Q= 1.2345e5", "   1  -7.0e2", "   2  3.0"]
        out = pre + front + out[len(pre):]
    return "\n".join(out) + "\n"
