"""C05 - the DR-bar -> on-shell conversion reproduces the input pole masses or warns."""
import json
import random

import build
import cases
import core
import tlc


def run(tier, seed):
    cx = core.Ctx("C05", tier, seed, "model_checking")
    r = tlc.model_check("MSSMModelMC.tla", "MSSMModel_none.cfg", workers=8, heap="4g")
    cx.add_model(r, "MSSMModel.tla: all step sequences of the two fits over 4 precision levels and max_iterations 0..3: "
                    "ConvergedOrWarned, WarnOnlyIfNotConverged, LoopBound, FlagsIndependent")
    r = tlc.model_check("MSSMModelMC.tla", "MSSMModel_live.cfg", workers=8, heap="4g")
    cx.add_model(r, "MSSMModel.tla: the conversion terminates (FairSpec)")
    for bug in ("clearall", "noflag"):
        r = tlc.model_check("MSSMModelMC.tla", "MSSMModel_%s.cfg" % bug, expect_violation="ConvergedOrWarned", workers=8, heap="4g")
        cx.add_model(r, "non-vacuity: variant '%s' must violate ConvergedOrWarned" % bug)
    if tier == "thorough":
        # unbounded precision values, goal and iteration limit: inductive invariant discharged by Apalache (MSSMModelInd.tla)
        apa = []
        for args in (["--cinit=CInit", "--init=Init", "--inv=IndInv", "--length=0"],
                     ["--cinit=CInit", "--init=IndInit", "--inv=IndInv", "--length=1"],
                     ["--cinit=CInit", "--init=IndInit", "--inv=Safety", "--length=0"]):
            apa.append(tlc.run_apalache("MSSMModelInd.tla", args))
        apa.append(tlc.run_apalache("MSSMModelInd.tla", ["--cinit=CInit", "--init=IndInit", "--next=NextBug", "--inv=IndInv", "--length=1"], expect_error=True))
        cx.cov["apalache_inductive_invariant"] = {"spec": "MSSMModelInd.tla", "obligations": "Init => IndInv; IndInv /\\ Next => IndInv'; IndInv => Safety; "
                                                  "wrong variant NextBug must fail the step", "runs": apa}
    cs = cases.get("C05")
    rnd = random.Random(seed)
    rnd.shuffle(cs)
    reps = 1
    if tier == "quick":
        cs = cs[:400]
    else:
        reps = 6
    exe = build.driver_build("d_mssm")
    cf = cx.path("cases.txt")
    n = 0
    with open(cf, "w") as fh:
        for rep in range(reps):
            for c in cs:
                fh.write("c%d %s %s %s %s %d %d\n" % (n, c["ord"], c["admix"], c["signs"], c["tb"], c["prec"], c["maxit"]))
                n += 1
    tr = cx.path("trace.ndjson")
    core.run_driver(exe, ["c05", cf, tr])
    shards = tlc.split_trace(tr, 16, group_key="case")
    for rep in tlc.validate_traces("Trace_C05.tla", shards, jobs=16, heap="3g"):
        cx.add_report(rep)
        cx.cov["invariant_evaluations"] = cx.cov.get("invariant_evaluations", 0) + rep["extra"]["nchecked"]
    hooks = 0
    for ln in open(tr):
        ev = json.loads(ln)
        if ev["e"] == "Hook":
            hooks += 1
        if ev["e"] != "Conv":
            continue
        cx.evaluations += 1
        if ev["excA"] == "" and ev["exc"] == "":
            cx.distinct.add(ev["case"])
            if len(cx.cov["samples"]) < 3:
                cx.sample({"case": ev["sig"], "warnMu": ev["warnMu"], "warnMe2": ev["warnMe2"],
                           "Mu_in_out": [core.dy(ev["o"]["Mu0"]), core.dy(ev["o"]["Mu"])], "goal": core.dy(ev["goal"])})
    cx.cov["hook_events_replayed"] = hooks
    cx.cov["abstract_classes"] = len(cs)
    cx.assumptions += ["SLHA-type inputs are generated from on-shell points (pole spectrum of the point, guesses perturbed by <= 5 %)",
                       "round-trip clause asserted on the well-conditioned subset: |mu|, |M1|, |M2| pairwise > 10 % apart (50 x precision), "
                       "smuon soft masses > 10 % apart and small smuon mixing",
                       "hook events (guard GM2CALC_VERIF) are replayed on MSSMModel.tla; the final-observation invariants do not need them"]
    return cx.finish(rule="classes enumerated by TLC (Cases.tla: C05Cases, 1728; quick: seeded subset of 400) concretised as random "
                          "on-shell points -> SLHA-type input -> convert_to_onshell(precision, max_iterations); "
                          "distinct_nontrivial = conversions that ran without exception")
