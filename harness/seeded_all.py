#!/usr/bin/env python3
"""Runs every stored seeded change (seeded/*/patch.diff) through harness/seeded.py (quick tier) and writes
seeded/SUMMARY.md.  /repo's working tree must be clean and no other check may be running (the patches are applied
to /repo's working tree one after the other and removed again)."""
import json
import os
import subprocess
import sys

V = os.path.dirname(os.path.dirname(os.path.abspath(__file__)))


def main():
    names = sorted(d for d in os.listdir(os.path.join(V, "seeded")) if os.path.exists(os.path.join(V, "seeded", d, "patch.diff")))
    only = sys.argv[1:]
    rows = []
    for n in names:
        if only and n not in only:
            continue
        r = subprocess.run(["python3", os.path.join(V, "harness", "seeded.py"), n], capture_output=True, text=True, cwd=V)
        print(n, "detected" if r.returncode == 0 else "MISSED" if r.returncode == 1 else
              "NOT-APPLICABLE (superseded by a later fix; stored result kept)" if "patch does not apply" in r.stdout else "ERROR", flush=True)
    for n in names:
        p = os.path.join(V, "seeded", n, "result_quick.json")
        meta = json.load(open(os.path.join(V, "seeded", n, "meta.json")))
        if os.path.exists(p):
            res = json.load(open(p))
            first = ""
            for pr, x in res["results"].items():
                if x["first"]:
                    first = x["first"][0].split("(", 1)[-1].split(";")[0][:110]
            rows.append((n, meta["property"], meta["change"], "detected" if res["detected"] else "MISSED", first))
    with open(os.path.join(V, "seeded", "SUMMARY.md"), "w") as fh:
        fh.write("# Seeded changes against the quick checks (written by harness/seeded_all.py)\n\n")
        fh.write("| seeded | property | change | quick check | first violation |\n|---|---|---|---|---|\n")
        for r in rows:
            fh.write("| %s | %s | %s | %s | %s |\n" % r)
    return 0


if __name__ == "__main__":
    sys.exit(main())
