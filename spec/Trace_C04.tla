------------------------------ MODULE Trace_C04 ------------------------------
(***************************************************************************)
(* C04 - the MSSM tree-level spectrum is the exact spectrum of the MSSM    *)
(* mass matrices.  Event                                                   *)
(*   Spectrum(case, role, par, mass, mix, tach)                            *)
(* = Lagrangian parameters set through the setters of                      *)
(* MSSMNoFV_onshell_mass_eigenstates, and what it reports after            *)
(* calculate_DRbar_masses() under force-output.                            *)
(*                                                                         *)
(* The mass matrices are written here from the Lagrangian (GUT-normalised  *)
(* g1, SLHA sign of mu), independently of the generated code:              *)
(*   sfermion f in {d, u, e}, generation g, basis (f_L, f_R):              *)
(*     LL = m_L^2 + y^2 v_f^2/2 + (v_d^2-v_u^2)/4 (T3 g2^2 + (T3-Q) 3/5 g1^2) *)
(*     RR = m_R^2 + y^2 v_f^2 / 2 + (v_d^2 - v_u^2)/4  Q 3/5 g1^2          *)
(*     LR = (v_f T_f - v_f' mu y) / sqrt(2)                                *)
(*   sneutrino: m_L^2 + (v_d^2 - v_u^2)/8 (g2^2 + 3/5 g1^2)                *)
(*   chargino X = [[M2, g2 v_u/sqrt2], [g2 v_d/sqrt2, mu]] = U^T diag V    *)
(*   neutralino Y (symmetric, basis bino, wino, H_d, H_u) = N^T diag N     *)
(* For the Higgs sectors (whose soft masses are fixed internally by the    *)
(* tadpole equations) the tree-level identities of the property are        *)
(* checked: m_H+^2 = m_A^2 + m_W^2, m_h^2 + m_H^2 = m_A^2 + m_Z^2,         *)
(* Goldstones at index 0 with M_Z, M_W, m_A^2 = B mu (v_u/v_d + v_d/v_u).  *)
(* Tolerance 1e-11 of the matrix norm (irrational constants are dyadic     *)
(* values correct to 1e-16).                                               *)
(***************************************************************************)
EXTENDS TraceBase, Dyadic

VARIABLES l, orig, viol, nchecked
vars == <<l, orig, viol, nchecked>>

InvSqrt2 == [k |-> "fin", s |-> 1, q |-> -4, m |-> <<26240, 32571, 15564, 23170>>]
Sqrt06   == [k |-> "fin", s |-> 1, q |-> -4, m |-> <<9216, 16242, 32232, 25381>>]
N(k) == OfInt(k)
E11 == TenPow(11)

Within(a, b, scale) == Le(Mul(E11, Abs(Sub(a, b))), scale)        \* |a - b| <= 1e-11 scale
Rel(a, b) == Within(a, b, Max2(Abs(a), Abs(b)))

G(g) == CASE g = 0 -> "0" [] g = 1 -> "1" [] g = 2 -> "2"
Sector(f, g) == CASE f = "d" -> <<"Sd", "Ss", "Sb">>[g + 1] [] f = "u" -> <<"Su", "Sc", "St">>[g + 1]
                  [] f = "e" -> <<"Se", "Sm", "Stau">>[g + 1]
MixName(f, g) == CASE f = "d" -> <<"ZD", "ZS", "ZB">>[g + 1] [] f = "u" -> <<"ZU", "ZC", "ZT">>[g + 1]
                   [] f = "e" -> <<"ZE", "ZM", "ZTau">>[g + 1]
Snu(g) == <<"SveL", "SvmL", "SvtL">>[g + 1]
Monitored == {"SvmL", "Sm", "Stau", "Sb", "St", "hh", "Ah", "Hpm"}

\* 120 x the entries of the sfermion mass matrix, from the Lagrangian
SfM(p, f, g) ==
  LET s == G(g)
      vf == IF f = "u" THEN p["vu"] ELSE p["vd"]
      vo == IF f = "u" THEN p["vd"] ELSE p["vu"]
      y  == p["Y" \o f \o "_" \o s]
      T  == p["TY" \o f \o "_" \o s]
      mL == IF f = "e" THEN p["ml2_" \o s] ELSE p["mq2_" \o s]
      mR == p["m" \o f \o "2_" \o s]
      dv == Sub(Sq(p["vd"]), Sq(p["vu"]))
      s3 == IF f = "u" THEN 15 ELSE -15                       \* 30 T3
      kL == IF f = "e" THEN 9 ELSE -3                         \* 18 (T3 - Q)
      kR == CASE f = "d" -> -6 [] f = "u" -> 12 [] f = "e" -> -18     \* 18 Q
      yv == Mul(N(60), Mul(Sq(y), Sq(vf)))
  IN [LL |-> Add(Add(Mul(N(120), mL), yv), Mul(dv, Add(Mul(N(s3), Sq(p["g2"])), Mul(N(kL), Sq(p["g1"]))))),
      RR |-> Add(Add(Mul(N(120), mR), yv), Mul(dv, Mul(N(kR), Sq(p["g1"])))),
      LR |-> Mul(N(120), Mul(InvSqrt2, Sub(Mul(vf, T), Mul(vo, Mul(p["Mu"], y)))))]

\* 120 x (Z^T diag(m^2) Z)_{ik} for a real 2x2 mixing matrix
Rec2(mix, zn, m0, m1, i, k) ==
   Mul(N(120), Add(Mul(Mul(mix[zn \o "_0" \o i], mix[zn \o "_0" \o k]), Sq(m0)),
                   Mul(Mul(mix[zn \o "_1" \o i], mix[zn \o "_1" \o k]), Sq(m1))))

Orth2(mix, zn) == \A i \in {"0", "1"}, k \in {"0", "1"} :
   Within(Add(Mul(mix[zn \o "_" \o i \o "0"], mix[zn \o "_" \o k \o "0"]), Mul(mix[zn \o "_" \o i \o "1"], mix[zn \o "_" \o k \o "1"])),
          IF i = k THEN One ELSE Zero, One)

SfInvs(ev, f, g) ==
  LET p == ev.par  ms == ev.mass  mix == ev.mix
      M == SfM(p, f, g)
      sec == Sector(f, g)  zn == MixName(f, g)
      m0 == ms["M" \o sec \o "_00"]  m1 == ms["M" \o sec \o "_10"]
      norm == Add(Add(Abs(M.LL), Abs(M.RR)), Abs(M.LR))
      tachy == sec \in {ev.tach[i] : i \in DOMAIN ev.tach}
      det == Sub(Mul(M.LL, M.RR), Sq(M.LR))
      tr  == Add(M.LL, M.RR)
      clear == Lt(Mul(PowTwo(-30), Add(Add(Sq(M.LL), Sq(M.RR)), Mul(Two, Sq(M.LR)))), Abs(det))    \* not on the edge
      negEig == Sgn(det) < 0 \/ Sgn(tr) < 0
      pre == sec \o ":"
  IN << I(pre \o "Orthogonal", Orth2(mix, zn)),
        I(pre \o "NonNegativeOrdered", Sgn(m0) >= 0 /\ Le(m0, m1)),
        I(pre \o "Reconstructs", (~negEig /\ ~tachy) =>
             /\ Within(Rec2(mix, zn, m0, m1, "0", "0"), M.LL, norm) /\ Within(Rec2(mix, zn, m0, m1, "1", "1"), M.RR, norm)
             /\ Within(Rec2(mix, zn, m0, m1, "0", "1"), M.LR, norm)),
        I(pre \o "TachyonIffNegative", (clear /\ sec \in Monitored) => (tachy <=> negEig)),
        I(pre \o "NoSpuriousTachyon", sec \notin Monitored => ~tachy) >>

SnuInvs(ev, g) ==
  LET p == ev.par
      dv == Sub(Sq(p["vd"]), Sq(p["vu"]))
      M == Add(Mul(N(120), p["ml2_" \o G(g)]), Mul(dv, Add(Mul(N(15), Sq(p["g2"])), Mul(N(9), Sq(p["g1"])))))
      m == ev.mass["M" \o Snu(g)]
      tachy == Snu(g) \in {ev.tach[i] : i \in DOMAIN ev.tach}
  IN << I(Snu(g) \o ":Mass", Within(Mul(N(120), Sq(m)), Abs(M), Abs(M)) /\ Sgn(m) >= 0),
        I(Snu(g) \o ":TachyonIffNegative", Snu(g) \in Monitored => (tachy <=> Sgn(M) < 0)) >>

\* ---- complex helpers for chargino / neutralino ----------------------------------------------------------
CRe(mix, n, i, k) == mix[n \o "_re" \o i \o k]
CIm(mix, n, i, k) == mix[n \o "_im" \o i \o k]
Dig(i) == <<"0", "1", "2", "3">>[i]
\* sum_j A_ji m_j B_jk  (real and imaginary part)
TRe(mix, a, b, ms, mn, n, i, k) ==
  SumSeq([j \in 1..n |-> Mul(ms[mn \o "_" \o Dig(j) \o "0"],
            Sub(Mul(CRe(mix, a, Dig(j), i), CRe(mix, b, Dig(j), k)), Mul(CIm(mix, a, Dig(j), i), CIm(mix, b, Dig(j), k))))])
TIm(mix, a, b, ms, mn, n, i, k) ==
  SumSeq([j \in 1..n |-> Mul(ms[mn \o "_" \o Dig(j) \o "0"],
            Add(Mul(CRe(mix, a, Dig(j), i), CIm(mix, b, Dig(j), k)), Mul(CIm(mix, a, Dig(j), i), CRe(mix, b, Dig(j), k))))])
UnitaryC(mix, a, n) == \A i \in 1..n, k \in 1..n :
  /\ Within(SumSeq([j \in 1..n |-> Add(Mul(CRe(mix, a, Dig(i), Dig(j)), CRe(mix, a, Dig(k), Dig(j))),
                                       Mul(CIm(mix, a, Dig(i), Dig(j)), CIm(mix, a, Dig(k), Dig(j))))]),
            IF i = k THEN One ELSE Zero, One)
  /\ Within(SumSeq([j \in 1..n |-> Sub(Mul(CIm(mix, a, Dig(i), Dig(j)), CRe(mix, a, Dig(k), Dig(j))),
                                       Mul(CRe(mix, a, Dig(i), Dig(j)), CIm(mix, a, Dig(k), Dig(j))))]), Zero, One)

ChaM(p) == << <<p["M2"], Mul(InvSqrt2, Mul(p["g2"], p["vu"]))>>, <<Mul(InvSqrt2, Mul(p["g2"], p["vd"])), p["Mu"]>> >>
ChiM(p) ==
  LET gY == Mul(Sqrt06, p["g1"])
      h(x) == Mul(PowTwo(-1), x)
      a == Neg(h(Mul(gY, p["vd"])))  b == h(Mul(gY, p["vu"]))  c == h(Mul(p["g2"], p["vd"]))  d == Neg(h(Mul(p["g2"], p["vu"])))
      mu == Neg(p["Mu"])
  IN << <<p["M1"], Zero, a, b>>, <<Zero, p["M2"], c, d>>, <<a, c, Zero, mu>>, <<b, d, mu, Zero>> >>

InoInvs(ev) ==
  LET p == ev.par  ms == ev.mass  mix == ev.mix
      X == ChaM(p)  Y == ChiM(p)
      nx == Add(Add(Abs(X[1][1]), Abs(X[2][2])), Add(Abs(X[1][2]), Abs(X[2][1])))
      ny == Add(Add(Abs(p["M1"]), Abs(p["M2"])), Add(Abs(p["Mu"]), Mul(p["g2"], Add(p["vd"], p["vu"]))))
      mw2 == Mul(PowTwo(-2), Mul(Sq(p["g2"]), Add(Sq(p["vd"]), Sq(p["vu"]))))
      c0 == ms["MCha_00"]  c1 == ms["MCha_10"]
  IN << I("Cha:Reconstructs", \A i \in 1..2, k \in 1..2 :
             /\ Within(TRe(mix, "UM", "UP", ms, "MCha", 2, Dig(i), Dig(k)), X[i][k], nx)
             /\ Within(TIm(mix, "UM", "UP", ms, "MCha", 2, Dig(i), Dig(k)), Zero, nx)),
        I("Cha:Unitary", UnitaryC(mix, "UM", 2) /\ UnitaryC(mix, "UP", 2)),
        I("Cha:NonNegativeOrdered", Sgn(c0) >= 0 /\ Le(c0, c1)),
        I("Cha:TraceRelation", Rel(Add(Sq(c0), Sq(c1)), Add(Add(Sq(p["M2"]), Sq(p["Mu"])), Mul(Two, mw2)))),
        I("Cha:DeterminantRelation", Within(Mul(c0, c1), Abs(Sub(Mul(p["M2"], p["Mu"]), Mul(PowTwo(-1), Mul(Sq(p["g2"]), Mul(p["vu"], p["vd"]))))),
                                            Add(Abs(Mul(p["M2"], p["Mu"])), mw2))),
        I("Chi:Reconstructs", \A i \in 1..4, k \in 1..4 :
             /\ Within(TRe(mix, "ZN", "ZN", ms, "MChi", 4, Dig(i), Dig(k)), Y[i][k], ny)
             /\ Within(TIm(mix, "ZN", "ZN", ms, "MChi", 4, Dig(i), Dig(k)), Zero, ny)),
        I("Chi:Unitary", UnitaryC(mix, "ZN", 4)),
        I("Chi:NonNegativeOrdered", \A j \in 1..4 : Sgn(ms["MChi_" \o Dig(j) \o "0"]) >= 0 /\ (j < 4 => Le(ms["MChi_" \o Dig(j) \o "0"], ms["MChi_" \o Dig(j + 1) \o "0"]))) >>

\* 20 MZ^2 = 5 (g2^2 + 3/5 g1^2)(vd^2 + vu^2) = (5 g2^2 + 3 g1^2)(vd^2 + vu^2)
MZ2x20(p) == Mul(Add(Mul(N(5), Sq(p["g2"])), Mul(N(3), Sq(p["g1"]))), Add(Sq(p["vd"]), Sq(p["vu"])))
MW2x4(p)  == Mul(Sq(p["g2"]), Add(Sq(p["vd"]), Sq(p["vu"])))

GoldDir(mix, zn, p) ==
  LET a(i, k) == Abs(mix[zn \o "_" \o i \o k])
      v == Add(Abs(p["vu"]), Abs(p["vd"]))
  IN /\ Within(Mul(a("0", "0"), Abs(p["vu"])), Mul(a("0", "1"), Abs(p["vd"])), v)
     /\ Within(Mul(a("1", "0"), Abs(p["vd"])), Mul(a("1", "1"), Abs(p["vu"])), v)

OffDiag(mix, zn, mG, mP, p) ==
  LET z(i, k) == mix[zn \o "_" \o i \o k]
      off == Add(Mul(Sq(mG), Mul(z("0", "0"), z("0", "1"))), Mul(Sq(mP), Mul(z("1", "0"), z("1", "1"))))
      v2 == Add(Sq(p["vu"]), Sq(p["vd"]))
  IN Within(Mul(off, v2), Mul(Sub(Sq(mP), Sq(mG)), Mul(p["vu"], p["vd"])), Mul(Max2(Sq(mP), Sq(mG)), v2))

HiggsInvs(ev) ==
  LET p == ev.par  ms == ev.mass
      T == {ev.tach[i] : i \in DOMAIN ev.tach}
      quiet == T \cap {"hh", "Ah", "Hpm"} = {}
      mw == ms["MVWm"]  mz == ms["MVZ"]
      mA == ms["MAh_10"]  mHp == ms["MHpm_10"]
      \* m_A^2 v_u v_d = B mu (v_u^2 + v_d^2)
      mA2vv == Mul(p["BMu"], Add(Sq(p["vd"]), Sq(p["vu"])))
      vv == Mul(p["vu"], p["vd"])
      notOne == Len(ev.sig) < 4 \/ SubSeq(ev.sig, 1, 4) # "one/"
  IN << I("Gauge:MW", Rel(Mul(N(4), Sq(mw)), MW2x4(p))),
        I("Gauge:MZ", Rel(Mul(N(20), Sq(mz)), MZ2x20(p))),
        I("Higgs:GoldstonesAtIndex0", quiet => Rel(ms["MAh_00"], mz) /\ Rel(ms["MHpm_00"], mw)),
        \* (1e-11 of the norm of the 2x2 matrix, whose other eigenvalue is MZ^2: a light m_A is the small root of it)
        I("Higgs:mA", quiet => Within(Mul(Sq(mA), vv), mA2vv, Mul(Max2(Sq(mA), Sq(mz)), Abs(vv)))),
        I("Higgs:mHpm2=mA2+mW2", quiet => Rel(Sq(mHp), Add(Sq(mA), Sq(mw)))),
        I("Higgs:mh2+mH2=mA2+mZ2", quiet => Rel(Add(Sq(ms["Mhh_00"]), Sq(ms["Mhh_10"])), Add(Sq(mA), Sq(mz)))),
        I("Higgs:Orthogonal", Orth2(ev.mix, "ZH") /\ Orth2(ev.mix, "ZA") /\ Orth2(ev.mix, "ZP")),
        \* gauge invariance fixes the Goldstone directions: G^0, G^+- along (v_d, -v_u) up to a sign, the physical A, H^+-
        \* along (v_u, v_d); stated on magnitudes (independent of the sign conventions of the mixing matrices)
        \* off-diagonal element of the reconstructed mass matrix: B mu [[tb, 1], [1, 1/tb]] + m_G^2 [[cb^2, -sb cb], [-sb cb, sb^2]]
        \* (Feynman gauge) gives  (Z^T diag(m^2) Z)_01 = (m_phys^2 - m_G^2) sb cb,  sign included
        I("Higgs:OffDiagonalA", quiet => OffDiag(ev.mix, "ZA", ms["MAh_00"], ms["MAh_10"], p)),
        I("Higgs:OffDiagonalP", quiet => OffDiag(ev.mix, "ZP", ms["MHpm_00"], ms["MHpm_10"], p)),
        I("Higgs:GoldstoneDirectionA", quiet => GoldDir(ev.mix, "ZA", p)),
        I("Higgs:GoldstoneDirectionP", quiet => GoldDir(ev.mix, "ZP", p)),
        I("Higgs:Ordered", Le(ms["Mhh_00"], ms["Mhh_10"]) /\ Sgn(ms["Mhh_00"]) >= 0),
        I("Higgs:AhTachyonIffNegative", ("Ah" \in T) <=> Sgn(p["BMu"]) < 0),
        I("Higgs:HpmTachyonIffNegative", ("Hpm" \in T) <=> Sgn(Add(Mul(N(4), mA2vv), Mul(MW2x4(p), vv))) < 0),
        I("Higgs:hhTachyonIffNegative", notOne => (("hh" \in T) <=> Sgn(p["BMu"]) < 0)),
        I("Chi:TraceOfSquares", Rel(Mul(N(20), SumSeq([j \in 1..4 |-> Sq(ms["MChi_" \o Dig(j) \o "0"])])),
                                    Add(Mul(N(20), Add(Add(Sq(p["M1"]), Sq(p["M2"])), Mul(Two, Sq(p["Mu"])))), Mul(Two, MZ2x20(p))))) >>

RECURSIVE Cat(_)
Cat(ss) == IF ss = << >> THEN << >> ELSE Head(ss) \o Cat(Tail(ss))

AllInvs(ev) ==
  Cat([x \in 1..9 |-> SfInvs(ev, <<"d", "d", "d", "u", "u", "u", "e", "e", "e">>[x], (x - 1) % 3)])
  \o Cat([g \in 1..3 |-> SnuInvs(ev, g - 1)]) \o InoInvs(ev) \o HiggsInvs(ev)

\* generation exchange: the spectra of the two generations are exchanged
SwapInvs(o, ev) ==
  LET a == IF ev.role = "swap12" THEN 1 ELSE 0
      b == IF ev.role = "swap01" THEN 1 ELSE 2
      pairs == [f \in {"d", "u", "e"} |-> <<Sector(f, a), Sector(f, b)>>]
      same(x, y) == Rel(o.mass[x], ev.mass[y])
  IN << I("GenerationExchange",
            /\ \A f \in {"d", "u", "e"} : \A i \in {"_00", "_10"} :
                  /\ same("M" \o pairs[f][1] \o i, "M" \o pairs[f][2] \o i) /\ same("M" \o pairs[f][2] \o i, "M" \o pairs[f][1] \o i)
            /\ same("M" \o Snu(a), "M" \o Snu(b)) /\ same("M" \o Snu(b), "M" \o Snu(a))
            /\ \A n \in {"MChi_00", "MChi_10", "MChi_20", "MChi_30", "MCha_00", "MCha_10", "Mhh_00", "Mhh_10", "MAh_10", "MHpm_10"} :
                  same(n, n)) >>

Init == l = 1 /\ orig = [e |-> "none"] /\ viol = << >> /\ nchecked = 0

TSpectrum ==
  /\ l <= NLines /\ TraceLog[l].e = "Spectrum"
  /\ LET ev == TraceLog[l]
         fin == \A n \in DOMAIN ev.mass : IsFin(ev.mass[n])
         base == IF ev.exc # "" THEN << I("NoException", FALSE) >>
                 ELSE IF ~fin THEN << I("FiniteSpectrum", FALSE) >> ELSE AllInvs(ev)
         sw == IF ev.role # "orig" /\ orig.e = "Spectrum" /\ orig.case = ev.case /\ ev.exc = "" /\ fin THEN SwapInvs(orig, ev) ELSE << >>
     IN /\ viol' = viol \o Failed(base \o sw, l, ev.sig) /\ nchecked' = nchecked + Len(base) + Len(sw)
        /\ orig' = IF ev.role = "orig" THEN ev ELSE orig
  /\ l' = l + 1

Next == TSpectrum
Spec == Init /\ [][Next]_vars
Report == l = NLines + 1 => WriteReport(l, viol, [nchecked |-> nchecked])
=============================================================================
