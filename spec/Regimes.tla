------------------------------- MODULE Regimes -------------------------------
(***************************************************************************)
(* Where the analytic formulas of the loop functions have removable        *)
(* singularities / change their evaluation regime - the enumerated part of *)
(* the quantifiers of C01, C02 and C11.                                    *)
(*                                                                         *)
(* Part 1 (C11): coincidences of the masses of a THDM point.  The loop     *)
(* functions of gm2_ffunctions.cpp and gm2_2loop_B.cpp are special-cased   *)
(* at mass ratios 1 and 1/4, at a vanishing Kaellen function               *)
(* lambda(x,y,z) = 0 (i.e. sqrt(x) = sqrt(y) +- sqrt(z)) and at arguments  *)
(* equal to 1 after scaling with MW or MZ; every relation                  *)
(*   m = a,  m = 2a,  m = a/2,  m = a + b,  m = |a - b|                    *)
(* between a Higgs mass m and the other masses a, b of the point is        *)
(* therefore a candidate (a superset of the special cases in the code).    *)
(*                                                                         *)
(* Part 2 (C01/C02): argument classes of the one- and many-variable loop   *)
(* functions (thresholds transcribed from gm2_ffunctions.cpp, DESIGN A.7). *)
(***************************************************************************)
EXTENDS Integers, Sequences, FiniteSets

Higgs == {"mh", "mH", "mA", "mHp"}
BosonSet == Higgs \cup {"mw", "mz", "mhSM"}
FermionSet == {"mt", "mb", "mtau"}

\* components: B, F, L = the bosonic / fermionic two-loop and the one-loop parameter structs (any mass is movable
\* independently); M = the public path (mass-basis input moved, model rebuilt, calculate_amu_* and uncertainties)
Others(comp, m) == (IF comp = "B" THEN BosonSet ELSE IF comp \in {"F", "M"} THEN BosonSet \cup FermionSet
                    ELSE BosonSet \cup {"mtau", "mm"}) \ {m}

Coincidences(comp) ==
   {[comp |-> comp, moving |-> m, rel |-> r, a |-> a, b |-> "-"] :
        m \in Higgs, r \in {"eq", "twice", "half"}, a \in BosonSet \cup FermionSet \cup {"mm"}}
   \cup {[comp |-> comp, moving |-> m, rel |-> r, a |-> a, b |-> b] :
        m \in Higgs, r \in {"sum", "diff"}, a \in BosonSet \cup FermionSet, b \in BosonSet \cup FermionSet}

MassOrder == <<"mh", "mH", "mA", "mHp", "mw", "mz", "mhSM", "mt", "mb", "mtau", "mm">>
Rank(n) == CHOOSE i \in DOMAIN MassOrder : MassOrder[i] = n

Valid(c) == /\ c.a \in Others(c.comp, c.moving)
            /\ (c.b # "-" => (c.b \in Others(c.comp, c.moving) /\ Rank(c.a) < Rank(c.b)))      \* unordered pairs once
            /\ (c.comp = "L" => c.rel \in {"eq", "twice", "half"})

AllCoincidences == {c \in Coincidences("B") \cup Coincidences("F") \cup Coincidences("L") \cup Coincidences("M") : Valid(c)}

\* ---- Part 1b (C11): MSSM.  Masses are not independent inputs there: a Lagrangian parameter is moved and the
\* coincidence  A = B, A = 2B, A = B/2  between two masses (or parameter magnitudes, for the mass-insertion
\* approximations Fa, Fb, Iabc) is located on the parameter axis by the driver (component "S").
Gauginos == {"MChi_00", "MChi_10", "MChi_20", "MChi_30", "MCha_00", "MCha_10"}
Sleptons == {"MSm_00", "MSm_10", "MSvmL"}
ParamMags == {"absM1", "absM2", "absMu", "mslL", "mslR"}
MagOf(par) == CASE par = "M1" -> "absM1" [] par = "M2" -> "absM2" [] par = "Mu" -> "absMu" [] par = "ml2_1" -> "mslL"
                [] par = "me2_1" -> "mslR" [] OTHER -> "-"
ThresholdHeavy == {"Mhh_00", "Mhh_10", "MAh_10"}
ThresholdLight == {"MCha_00", "MCha_10", "MSt_00", "MSt_10", "MSb_00", "MSb_10", "MStau_00", "MStau_10", "MSm_00", "MSm_10"}
C(par, r, a, b) == [comp |-> "S", moving |-> par, rel |-> r, a |-> a, b |-> b]
MSSMCoincidences ==
   \* one-loop: x = m_chi^2 / m_slepton^2 = 1 (Taylor windows of F1C..F4N)
   {C(par, "eq", a, b) : par \in {"M1", "M2", "Mu", "ml2_1", "me2_1"}, a \in Gauginos, b \in Sleptons}
   \* equal arguments of Fa, Fb, Iabc (tan(beta) resummation, one-loop approximations)
   \cup {C(par, "eq", MagOf(par), b) : par \in {"M1", "M2", "Mu", "ml2_1", "me2_1"}, b \in ParamMags}
   \* two-loop Barr-Zee: mass ratio 1/4 and 1 of f_PS, f_S, f_sferm
   \cup {C(par, r, a, b) : par \in {"MA0", "M2", "Mu", "mq2_2", "mu2_2", "md2_2", "ml2_2", "me2_2"}, r \in {"half", "eq"},
                           a \in ThresholdLight, b \in ThresholdHeavy}

AllCoincidencesC11 == AllCoincidences \cup {c \in MSSMCoincidences : c.a # c.b}

\* ---- Part 2: argument classes ------------------------------------------------------------------------
OneVarFunctions == {"F1C", "F2C", "F3C", "F4C", "F1N", "F2N", "F3N", "F4N", "G3", "G4", "f_PS", "f_S", "f_sferm", "f_CSl",
                    "F1", "F1t", "F2", "F3", "dilog", "clausen_2"}
\* classes of a positive argument relative to the special points 0, 1/4, 1, 1e2 and the Taylor windows
ArgClasses == {"zero", "tiny", "small", "belowQuarter", "quarter", "aboveQuarter", "mid", "winLo", "one", "winHi",
               "above", "hundred", "large", "huge", "negative"}
TwoVarFunctions == {"Fa", "Fb", "FPZ", "FSZ", "FCWl"}
PairClasses == {"generic", "equal", "near12", "near9", "near6", "near4", "near3", "near2", "near1", "bothOne", "xOne", "yOne",
                "xZero", "yZero", "ratioBig", "ratioSmall", "bothQuarter"}
ThreeVarFunctions == {"Iabc", "Phi", "lambda_2"}
TripleClasses == {"generic", "allEqual", "twoEqual12", "twoEqual13", "twoEqual23", "oneIsOne", "kallenZero", "kallenNeg",
                  "kallenPos", "zeroArg", "nearEqual6", "nearEqual3"}
=============================================================================
