--------------------------------- MODULE CLI ---------------------------------
(***************************************************************************)
(* The command-line program gm2calc.x (src/gm2calc.cpp): argument parsing, *)
(* configuration block, dispatch to reader / model / writer, error         *)
(* handling, exit status.  One action per step of main() that has a        *)
(* user-visible consequence.                                               *)
(*                                                                         *)
(* Environment choices (nondeterministic): the argument vector, whether    *)
(* the source is readable, the GM2CalcConfig entries in file order, and    *)
(* the outcome class of reading and building the model.                    *)
(*                                                                         *)
(* Observables: stdout as a sequence of abstract items, stderr emptiness,  *)
(* the exit status.  Properties C14 (total, diagnosed, clean stdout),      *)
(* C15 (which quantity appears in which slot) and C16 (exit status versus  *)
(* refusal / problem / warning) are stated on them.  The declarative       *)
(* predicate Allowed is what executions of the real program are validated  *)
(* against (Trace_CLI.tla); the invariant ExitAllowed ties it to this      *)
(* machine.                                                                *)
(***************************************************************************)
EXTENDS CLIDefs

CONSTANTS MaxArgs,        \* length bound of the argument vector
          MaxCfg,         \* number of GM2CalcConfig entries in the file ("seq" mode)
          Bug,            \* "none" or a deliberately wrong variant: "silentfail", "exit2", "uncwrongslot"
          CfgMode         \* "seq": all entry sequences up to MaxCfg (incl. malformed ones);
                          \* "full": one complete, valid block per option vector (all 480)


----------------------------------------------------------------------------
VARIABLES argv, ai, pc, itype, haveSource, readable, cfg, ci, opts, outcome,
          stdout, stderrNonEmpty, exit
vars == <<argv, ai, pc, itype, haveSource, readable, cfg, ci, opts, outcome, stdout, stderrNonEmpty, exit>>

SeqsUpTo(S, n) == UNION {[1..k -> S] : k \in 0..n}

B2I(b) == IF b THEN 1 ELSE 0
FullCfg(o) == << [k |-> 0, v |-> o.fmt, c |-> "ok"], [k |-> 1, v |-> o.loop, c |-> "ok"],
                 [k |-> 2, v |-> B2I(o.tb), c |-> "ok"], [k |-> 3, v |-> B2I(o.force), c |-> "ok"],
                 [k |-> 4, v |-> B2I(o.verbose), c |-> "ok"], [k |-> 5, v |-> B2I(o.unc), c |-> "ok"],
                 [k |-> 6, v |-> B2I(o.running), c |-> "ok"] >>

Init == /\ argv \in SeqsUpTo(ArgTok, MaxArgs)
        /\ readable \in BOOLEAN
        /\ cfg \in IF CfgMode = "full" THEN {FullCfg(o) : o \in Opts}
                   ELSE {s \in SeqsUpTo(CfgEntry, MaxCfg) : \A i \in DOMAIN s : WellFormedEntry(s[i])}
        /\ outcome \in BaseClasses
        /\ ai = 1 /\ pc = "args" /\ itype = "slha" /\ haveSource = FALSE /\ ci = 1
        /\ opts = DefaultOpts("slha") /\ stdout = << >> /\ stderrNonEmpty = FALSE /\ exit = -1

Finish(code) == pc' = "exit" /\ exit' = code

\* get_cmd_line_options: one argument per step; the last input-file option wins;
\* --help / --version exit at once; anything else is an error
ParseArg ==
  /\ pc = "args" /\ ai <= Len(argv)
  /\ LET a == argv[ai] IN
       IF a \in InTypes
       THEN /\ itype' = a /\ haveSource' = TRUE /\ ai' = ai + 1
            /\ UNCHANGED <<pc, stdout, stderrNonEmpty, exit>>
       ELSE IF a = "help"    THEN /\ stdout' = Append(stdout, Usage) /\ Finish(0)
                                  /\ UNCHANGED <<itype, haveSource, ai, stderrNonEmpty>>
       ELSE IF a = "version" THEN /\ stdout' = Append(stdout, Version) /\ Finish(0)
                                  /\ UNCHANGED <<itype, haveSource, ai, stderrNonEmpty>>
       ELSE /\ stderrNonEmpty' = TRUE /\ Finish(1) /\ UNCHANGED <<itype, haveSource, ai, stdout>>
  /\ UNCHANGED <<argv, readable, cfg, ci, opts, outcome>>

ArgsDone ==
  /\ pc = "args" /\ ai > Len(argv)
  /\ IF ~haveSource THEN /\ stderrNonEmpty' = TRUE /\ Finish(1) /\ UNCHANGED opts
     ELSE /\ pc' = "read" /\ opts' = DefaultOpts(itype) /\ UNCHANGED <<stderrNonEmpty, exit>>
  /\ UNCHANGED <<argv, ai, itype, haveSource, readable, cfg, ci, outcome, stdout>>

\* catch (const gm2calc::Error&): print_error + EXIT_FAILURE
Catch == /\ stdout' = stdout \o ErrorOutput(opts)
         /\ stderrNonEmpty' = (stderrNonEmpty \/ (opts.fmt \notin 2..4 /\ Bug # "silentfail"))
         /\ Finish(IF Bug = "exit2" THEN 2 ELSE 1)

ReadSource ==
  /\ pc = "read"
  /\ IF readable THEN pc' = "config" /\ UNCHANGED <<stdout, stderrNonEmpty, exit>>
     ELSE Catch
  /\ UNCHANGED <<argv, ai, itype, haveSource, readable, cfg, ci, opts, outcome>>

SetOpt(o, e) ==
  CASE e.k = 0 -> [o EXCEPT !.fmt = e.v] [] e.k = 1 -> [o EXCEPT !.loop = e.v]
    [] e.k = 2 -> [o EXCEPT !.tb = (e.v = 1)] [] e.k = 3 -> [o EXCEPT !.force = (e.v = 1)]
    [] e.k = 4 -> [o EXCEPT !.verbose = (e.v = 1)] [] e.k = 5 -> [o EXCEPT !.unc = (e.v = 1)]
    [] e.k = 6 -> [o EXCEPT !.running = (e.v = 1)] [] OTHER -> o

\* process_gm2calcconfig_tuple, one entry per step, in file order; a later entry overrides;
\* a token that is not a number throws EReadError (even for an unknown key: the conversion
\* happens before the key is looked at); an invalid value of a known key throws EInvalidInput;
\* an unknown key is warned about
FillConfig ==
  /\ pc = "config" /\ ci <= Len(cfg)
  /\ LET e == cfg[ci] IN
       IF e.c = "nan" \/ (e.c = "bad" /\ e.k # 7)
       THEN Catch /\ UNCHANGED <<opts, ci>>
       ELSE /\ opts' = SetOpt(opts, e) /\ ci' = ci + 1
            /\ stderrNonEmpty' = (stderrNonEmpty \/ e.k = 7)
            /\ UNCHANGED <<pc, stdout, exit>>
  /\ UNCHANGED <<argv, ai, itype, haveSource, readable, cfg, outcome>>

ConfigDone ==
  /\ pc = "config" /\ ci > Len(cfg)
  /\ pc' = "model"
  /\ UNCHANGED <<argv, ai, itype, haveSource, readable, cfg, ci, opts, outcome, stdout, stderrNonEmpty, exit>>

\* setup.run(): reader, model, (verbose dump, problems/warnings to stderr), writer
RunModel ==
  /\ pc = "model"
  /\ LET oc == OutcomeOf(outcome, itype, opts.force) IN
       IF oc \in {"EInvalidInput", "EPhysicalProblem", "EReadError", "ESetupError"}
       THEN Catch
       \* SPINFO[1,2,3] is written iff the model's problem object holds a warning (non-convergence);
       \* the warnings of input checks go to stderr only.  Which points produce the former is not
       \* part of the environment: the machine writes none, Allowed admits the prefix.
       ELSE /\ stdout' = stdout \o WriterOutput(itype, opts, FALSE)
            /\ stderrNonEmpty' = (stderrNonEmpty \/ opts.verbose \/ oc \in {"warn", "problem"})
            /\ Finish(IF oc = "problem" THEN 1 ELSE 0)
  /\ UNCHANGED <<argv, ai, itype, haveSource, readable, cfg, ci, opts, outcome>>

Next == ParseArg \/ ArgsDone \/ ReadSource \/ FillConfig \/ ConfigDone \/ RunModel
Spec == Init /\ [][Next]_vars
FairSpec == Spec /\ WF_vars(Next)

Obs == [argvKind |-> ArgvKind(argv), itype |-> itype, exit |-> exit, signal |-> 0,
        kinds |-> Kinds(stdout), stderrEmpty |-> ~stderrNonEmpty]

----------------------------------------------------------------------------
(* Properties                                                              *)

TypeOK == /\ pc \in {"args", "read", "config", "model", "exit"} /\ exit \in {-1, 0, 1} /\ opts \in Opts

\* C14
Terminates   == <>(pc = "exit")
ExitStatus   == pc = "exit" => exit \in {0, 1}
Diagnosed    == (pc = "exit" /\ exit = 1) =>
                   \/ stderrNonEmpty
                   \/ \E i \in DOMAIN stdout : stdout[i] = Spinfo(4)
StdoutClean  == \A i \in DOMAIN stdout :
                   stdout[i].kind \in {"number", "report", "echo", "result", "spinfo", "usage", "version"}
ExitAllowed  == pc = "exit" => Allowed(Obs)
\* diagnostics never go to stdout in the non-SLHA formats
NoDiagnosticOnStdout == pc = "exit" /\ opts.fmt \in {0, 1} => \A i \in DOMAIN stdout : stdout[i].kind # "spinfo"

\* C15 (slot table): the same quantity in every format, the uncertainty where documented
Quantities == {stdout[i].q : i \in {j \in DOMAIN stdout : stdout[j].kind \in {"number", "result"}}}
SlotsAsDocumented ==
  (pc = "exit" /\ ArgvKind(argv) = "file" /\ exit = 0) =>
     /\ opts.fmt = 0 => Quantities = {IF opts.unc THEN Unc(opts) ELSE Amu(itype, opts)}
     /\ opts.fmt \in 2..4 => /\ Amu(itype, opts) \in Quantities
                             /\ (opts.unc <=> Unc(opts) \in Quantities)
                             /\ \A i \in DOMAIN stdout : stdout[i].kind = "result" /\ stdout[i].q = Unc(opts)
                                                         => stdout[i].blk = "GM2CalcOutput" /\ stdout[i].key = 1
DefaultFormat ==
  (pc = "model" /\ \A i \in DOMAIN cfg : cfg[i].k # 0) => opts.fmt = (IF itype = "gm2calc" THEN 1 ELSE 4)

\* C16: exit status versus refusal / flagged problem
ExitIffRefusedOrProblem ==
  (pc = "exit" /\ ArgvKind(argv) = "file" /\ readable /\ ci > Len(cfg)) =>
     LET oc == OutcomeOf(outcome, itype, opts.force)
     IN /\ (exit = 1 <=> oc \notin {"ok", "warn"})
        /\ (oc \in {"EInvalidInput", "EPhysicalProblem", "EReadError", "ESetupError"} =>
               \A i \in DOMAIN stdout : stdout[i].kind \notin {"number", "report", "result"})
        /\ (oc = "problem" => \E i \in DOMAIN stdout : stdout[i].kind \in {"number", "report", "result"})
=============================================================================
