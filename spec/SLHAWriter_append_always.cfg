SPECIFICATION Spec
CONSTANTS
  Variant = "append_always"
  MaxOps = 2
INVARIANTS TypeOK WriterSeesResult Idempotent
PROPERTIES EchoOthers ReaderSeesResult BlockPlacement
CHECK_DEADLOCK FALSE
