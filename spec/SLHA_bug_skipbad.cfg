SPECIFICATION Spec
CONSTANTS
  MaxLen = 3
  Formats = {"flat"}
  Bug = "skipbad"
INVARIANTS TypeOK ReaderRefinesContent TokenRule LayoutIrrelevant
CHECK_DEADLOCK FALSE
