"""C17 - the C interface is a faithful, exception-tight mirror of the C++ interface."""
import json
import os
import random
import re

import build
import core
import tlc

SET_S = ["alpha_MZ", "alpha_thompson", "g3", "MassB", "MassWB", "MassG", "Mu", "scale"]
SET_POLE_S = ["MAh_pole", "MZ_pole", "MW_pole", "MT_pole", "MB_running", "ML_pole", "MM_pole", "MSvmL_pole"]
SET_M = ["Ae", "Au", "Ad", "mq2", "mu2", "md2", "ml2", "me2"]
SET_V = [("MSm_pole", 2), ("MCha_pole", 2), ("MChi_pole", 4)]
GET_S = ["EL", "EL0", "gY", "g1", "g2", "g3", "MassB", "MassWB", "MassG", "Mu", "vev", "scale", "MW", "MZ", "ME", "MM", "ML",
         "MU", "MC", "MT", "MD", "MS", "MB", "MBMB", "MAh"]
GET_MASS_S = ["MSveL", "MSvmL", "MSvtL"]
GET_MASS_V = [("Mhh", 2), ("MCha", 2), ("MChi", 4), ("MSe", 2), ("MSm", 2), ("MStau", 2), ("MSu", 2), ("MSd", 2), ("MSc", 2),
              ("MSs", 2), ("MSt", 2), ("MSb", 2)]
GET_M3 = ["Ae", "Ad", "Au", "mq2", "md2", "mu2", "ml2", "me2", "Ye", "Yd", "Yu"]
GET_MIX2 = ["USe", "USm", "UStau", "USu", "USd", "USc", "USs", "USt", "USb"]
GET_C = [("UM", 2), ("UP", 2), ("ZN", 4)]
AMU = ["calculate_amu_1loop", "calculate_amu_1loop_non_tan_beta_resummed", "calculate_amu_2loop", "calculate_amu_2loop_non_tan_beta_resummed"]
PART = ["amu1LChi0", "amu1LChipm", "amu2LFSfapprox", "amu2LFSfapprox_non_tan_beta_resummed", "amu2LChipmPhotonic",
        "amu2LChi0Photonic", "amu2LaSferm", "amu2LaCha"]
UNC = ["calculate_uncertainty_amu_0loop", "calculate_uncertainty_amu_1loop", "calculate_uncertainty_amu_2loop"]


def val(cls, rnd, scale=1000.0):
    if cls == "fin":
        x = scale * rnd.uniform(0.1, 3.0)
    elif cls == "zero":
        x = rnd.choice([0.0, -0.0])
    elif cls == "neg":
        x = -scale * rnd.uniform(0.1, 3.0)
    elif cls == "inf":
        return rnd.choice(["inf", "-inf"])
    elif cls == "nan":
        return "nan"
    else:
        x = rnd.choice([5e-324, 1e-310, -2.2e-308, 1e-200])
    return float(x).hex()


def preset(rnd):
    """a valid on-shell point through the C setters (the model's Preset action)"""
    import points
    p = points.random_mssm(rnd)
    out = ["set alpha_MZ %s" % float(p["aMZ"]).hex(), "set alpha_thompson %s" % float(p["a0"]).hex(),
           "set g3 %s" % float((4 * 3.141592653589793 * p["as"]) ** 0.5).hex(), "set MT_pole %s" % float(p["Mt"]).hex(),
           "set MB_running %s" % float(p["Mb"]).hex(), "set MM_pole %s" % float(p["Mm"]).hex(), "set ML_pole %s" % float(p["Mtau"]).hex(),
           "set MW_pole %s" % float(p["MW"]).hex(), "set MZ_pole %s" % float(p["MZ"]).hex(), "set TB %s" % float(p["TB"]).hex(),
           "set Mu %s" % float(p["Mu"]).hex(), "set MassB %s" % float(p["M1"]).hex(), "set MassWB %s" % float(p["M2"]).hex(),
           "set MassG %s" % float(p["M3"]).hex(), "set MAh_pole %s" % float(p["MA0"]).hex(), "set scale %s" % float(p["Q"]).hex()]
    for i in range(3):
        for n, k in (("mq2", "mq"), ("ml2", "ml"), ("md2", "md"), ("mu2", "mu"), ("me2", "me")):
            out.append("setm %s %d %d %s" % (n, i, i, float(p[k][i] ** 2).hex()))
        for n in ("Au", "Ad", "Ae"):
            out.append("setm %s %d %d %s" % (n, i, i, float(p[n][i]).hex()))
    return out


def concretise(hist, rnd):
    out = []
    for h in hist:
        c, a = h["c"], h["a"]
        if c == "New":
            out.append("new")
        elif c == "Preset":
            out += preset(rnd)
        elif c == "Free":
            out.append("free")
        elif c == "FreeNull":
            out.append("freenull")
        elif c == "SetTB":
            out.append("set TB %s" % val(a, rnd, 10.0))
        elif c == "PresetPoles":
            out.append("copypoles")
        elif c == "SetBigA":
            out.append("setm Au 2 2 %s" % float(rnd.choice([-1, 1]) * rnd.uniform(0.5e5, 2e5)).hex())
        elif c == "SetTachyon":
            out.append("setm ml2 1 1 %s" % val("neg", rnd, 1e5))
        elif c == "Set":
            if rnd.random() < 0.5:
                out.append("set %s %s" % (rnd.choice(SET_S), val(a, rnd)))
            else:
                out.append("setm %s %d %d %s" % (rnd.choice(SET_M), rnd.randrange(3), rnd.randrange(3), val(a, rnd, 1e5)))
        elif c == "SetPole":
            if rnd.random() < 0.5:
                out.append("set %s %s" % (rnd.choice(SET_POLE_S), val(a, rnd, 100.0)))
            else:
                n, k = rnd.choice(SET_V)
                out.append("setv %s %d %s" % (n, rnd.randrange(k), val(a, rnd)))
        elif c == "SetVerbose":
            out.append("verbose %d" % rnd.choice([0, 1, 2, -1]))
        elif c == "Get":
            if rnd.random() < 0.6:
                out.append("get %s" % rnd.choice(GET_S))
            else:
                out.append("getm %s %d %d" % (rnd.choice(GET_M3), rnd.randrange(3), rnd.randrange(3)))
        elif c == "GetTB":
            out.append("get TB")
        elif c == "GetMass":
            if rnd.random() < 0.2:
                out.append("get %s" % rnd.choice(GET_MASS_S))
            else:
                n, k = rnd.choice(GET_MASS_V)
                out.append("getv %s %d" % (n, rnd.randrange(k)))
        elif c == "GetMix":
            if rnd.random() < 0.5:
                out.append("getm %s %d %d" % (rnd.choice(GET_MIX2), rnd.randrange(2), rnd.randrange(2)))
            else:
                n, k = rnd.choice(GET_C)
                out.append("getc %s %d %d %d" % (n, rnd.randrange(k), rnd.randrange(k), rnd.randrange(2)))
        elif c == "Convert":
            out.append("convert")
        elif c == "ConvertParams":
            out.append("convertp %s %d" % (float(rnd.choice([1e-10, 1e-8, 1e-4, 0.0, float("nan")])).hex(), rnd.choice([0, 1, 10, 1000])))
        elif c == "CalcMasses":
            out.append("calc")
        elif c == "Amu":
            out.append("fn %s" % rnd.choice(AMU))
        elif c == "Part":
            out.append("fn %s" % rnd.choice(PART))
        elif c == "Unc":
            out.append("fn %s" % rnd.choice(UNC))
        elif c == "HaveProblem":
            out.append(rnd.choice(["haveproblem", "havewarning"]))
        elif c == "StrGet":
            ln = {"len0": 0, "len1": 1, "small": rnd.randint(2, 12), "large": rnd.randint(13, 64), "null": rnd.randint(0, 64)}[a]
            out.append("strget %s %d %d" % (rnd.choice(["problems", "warnings"]), ln, 1 if a == "null" else 0))
        elif c in ("TNewMass", "TNewGauge"):
            yt = rnd.choice([0, 7]) if a == "badenum" else rnd.randint(1, 6)   # outside 1..6 but inside the enum's value range 0..7
            out.append("tnew %s %s %d %d %d" % ("mass" if c == "TNewMass" else "gauge", a, yt, int(rnd.random() < 0.15), int(rnd.random() < 0.15)))
        elif c == "TAmu":
            out.append("tfn %s" % rnd.choice(["amu1L", "amu2L", "amu2LF", "amu2LB"]))
        elif c == "TUnc":
            out.append("tfn %s" % rnd.choice(["unc0L", "unc1L", "unc2L"]))
        elif c == "TFree":
            out.append("tfree")
        elif c == "TFreeNull":
            out.append("tfreenull")
        elif c == "SmDefault":
            out.append("smdefault")
        elif c == "ConfigDefault":
            out.append("cfgdefault")
        elif c == "IntToType":
            out.append("inttotype %d" % rnd.randint(-2, 9))
    return out


def roundtrip(rnd):
    """every setter that has a matching getter, every index pair: set, read back at once, and read everything back
    again at the end (a setter writing another element, e.g. the transposed one, shows in one of the two)"""
    out = ["new"]
    mats = ["Ae", "Au", "Ad", "mq2", "mu2", "md2", "ml2", "me2"]
    order = [(m, i, k) for m in mats for i in range(3) for k in range(3)]
    rnd.shuffle(order)
    for m, i, k in order:
        out.append("setm %s %d %d %s" % (m, i, k, float(rnd.uniform(-2e5, 2e5)).hex()))
        out.append("getm %s %d %d" % (m, i, k))
    for m, i, k in sorted(order):
        out.append("getm %s %d %d" % (m, i, k))
    for sname, gname in (("MZ_pole", "MZ"), ("MW_pole", "MW"), ("MT_pole", "MT"), ("MB_running", "MBMB"), ("ML_pole", "ML"),
                         ("MM_pole", "MM"), ("MassB", "MassB"), ("MassWB", "MassWB"), ("MassG", "MassG"), ("Mu", "Mu"),
                         ("g3", "g3"), ("scale", "scale")):
        out.append("set %s %s" % (sname, float(rnd.uniform(1.0, 3e3)).hex()))
        out.append("get %s" % gname)
    out.append("free")
    return out


def histories(cx, n, seed, depth=40):
    r = tlc.run_tlc("CAPI.tla", "CAPI_sim.cfg", workers=4, heap="2g", timeout=1200,
                    extra=["-simulate", "num=%d" % ((n + 3) // 4), "-depth", str(depth + 1), "-seed", str(seed)])
    hs = []
    for m in re.finditer(r'<<"HIST", "(.*)">>', r["out"]):
        hs.append(json.loads(m.group(1).replace('\\"', '"')))
    if r.get("violated") or len(hs) < n // 2:
        raise tlc.TlcError("CAPI simulation failed: %s\n%s" % (r.get("violated"), r["out"][-2000:]))
    return hs[:n]


def cover_histories():
    """one shortest history per (state before, call, state after) of CAPI.tla (CAPICover.tla)"""
    r = tlc.run_tlc("CAPICover.tla", "CAPI_cover.cfg", workers=1, heap="2g", timeout=1200)
    hs = []
    for m in re.finditer(r'<<"HIST", "(.*)">>', r["out"]):
        hs.append(json.loads(m.group(1).replace('\\"', '"')))
    if r.get("violated") or len(hs) < 300:
        raise tlc.TlcError("CAPICover failed: %s\n%s" % (r.get("violated"), r["out"][-2000:]))
    return hs, r


def run(tier, seed):
    cx = core.Ctx("C17", tier, seed, "model_checking")
    rnd = random.Random(seed)
    r = tlc.model_check("CAPI.tla", "CAPI_full.cfg", workers=8, heap="4g")
    cx.add_model(r, "CAPI.tla, all call sequences to depth 8, every wrapper exception-tight: NeverAborts holds")
    r = tlc.model_check("CAPI.tla", "CAPI_asis.cfg", expect_violation="NeverAborts", workers=8, heap="4g")
    cx.add_model(r, "CAPI.tla with the unchanged tree's protection table: NeverAborts violated (model-level reproduction of K6; non-vacuity)")
    nseq = 400 if tier == "quick" else 20000
    cov, rc = cover_histories()
    cx.add_model(rc, "CAPICover.tla: one shortest history per transition (state, call, state') of CAPI.tla: %d histories" % len(cov))
    cx.cov["transition_cover_histories"] = len(cov)
    hs = cov * (1 if tier == "quick" else 5) + histories(cx, nseq, seed)
    script = cx.path("script.txt")
    with open(script, "w") as fh:
        for i, h in enumerate(hs):
            fh.write("SEQ s%05d\n%s\nEND\n" % (i, "\n".join(concretise(h, rnd))))
        for j in range(2 if tier == "quick" else 20):
            fh.write("SEQ r%05d\n%s\nEND\n" % (j, "\n".join(roundtrip(rnd))))
    exe = build.driver_build("d_capi", flavour="asan")
    tr = cx.path("trace.ndjson")
    core.run_driver(exe, [script, tr], timeout=7200,
                    env={"ASAN_OPTIONS": "detect_leaks=1:exitcode=99:abort_on_error=0", "UBSAN_OPTIONS": "halt_on_error=1:exitcode=98"})
    # annotate SeqEnd with the call that did not return (for the violation signature)
    lines = open(tr).read().splitlines()
    planned = {}
    cur = None
    for ln in open(script):
        f = ln.split()
        if f[0] == "SEQ":
            cur = f[1]; planned[cur] = []
        elif f[0] != "END":
            planned[cur].append(" ".join(f[:2]))
    out, cnt = [], 0
    for ln in lines:
        ev = json.loads(ln)
        if ev["e"] == "Call":
            cnt += 1
            cx.evaluations += 1
        elif ev["e"] == "SeqEnd":
            ev["next"] = planned[ev["seq"]][cnt] if cnt < len(planned[ev["seq"]]) else "-"
            ln = json.dumps(ev)
            cnt = 0
            cx.distinct.add(ev["seq"])
        out.append(ln)
    open(tr, "w").write("\n".join(out) + "\n")
    shards = tlc.split_trace(tr, 8 if tier == "quick" else 16, group_key="seq")
    for rep in tlc.validate_traces("Trace_C17.tla", shards, jobs=16, heap="3g"):
        cx.add_report(rep)
    cx.sample({"abstract_history": hs[0][:12], "concrete_calls": concretise(hs[0], random.Random(1))[:12]})
    cx.assumptions += ["call alphabet and throwing preconditions of CAPI.tla; use-after-free and out-of-range matrix indices are outside the property",
                       "process death is observed through fork/waitpid under the ASan+UBSan build",
                       "the correspondence C function -> C++ function in harness/drv/d_capi.cpp follows the header documentation"]
    return cx.finish(rule="transition cover of CAPI.tla (CAPICover.tla: one shortest history per (state, call, state'), every call class "
                          "with every argument class from every abstract state) plus "
                          "call histories of depth 40 simulated by TLC from CAPI.tla (after exhaustive BFS to depth 8), concretised "
                          "(random functions of each class, finite and non-finite values, buffer lengths 0..64) and replayed on "
                          "a C handle and a mirrored C++ object in a forked child of the sanitizer build; evaluations = C calls; "
                          "distinct_nontrivial = sequences")
