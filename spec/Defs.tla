-------------------------------- MODULE Defs --------------------------------
(***************************************************************************)
(* The published definitions of the one-variable loop functions of         *)
(* GM2Calc, as exact identities  f(x) = N(x, atoms) / D(x)  with N, D      *)
(* polynomials in x and in the transcendental atoms                        *)
(*    L = log x,  D2 = Li2(1 - x),  E = Li2(1 - 1/x),  P = f_PS(x)         *)
(* (f_PS as defined by Eq.(70) of hep-ph/0609168).  The atoms are supplied *)
(* per evaluation with 330 bits by harness/lib/atoms.py (mpmath); all      *)
(* rational structure - where wrong series coefficients, shifted windows   *)
(* and broken expansions would show - is composed here in exact            *)
(* arithmetic, so the comparison with the library's double result is       *)
(* decided by TLC also where the closed form cancels to (1 - x)^4.         *)
(*                                                                         *)
(* Sources: F1C, F2C, F1N, F2N: Eqs.(52)-(55) hep-ph/0609168; F3C, F4C,    *)
(* F3N, F4N: Eqs.(37)-(40) arXiv:1003.5820; G3, G4: Eq.(6.4)               *)
(* arXiv:1311.1775; f_S, f_sferm: Eqs.(71),(72) hep-ph/0609168; f_CSl:     *)
(* Eq.(60) arXiv:1607.06292 (times z); F1, F1~, F2, F3: Eqs.(25)-(28)      *)
(* arXiv:1502.04199.                                                       *)
(***************************************************************************)
EXTENDS Dyadic

Zeta2 == Fin(1, -22, <<3161, 27676, 13901, 15581, 30214, 29545, 13501, 12300, 6849, 22707, 8901, 27296, 25670, 24245, 30108, 2050, 17545,
                       1853, 21283, 9743, 6537, 21133, 1>>)                                       \* pi^2 / 6  (330 bits)
Ln4 == Fin(1, -22, <<17068, 15049, 3517, 7560, 29660, 31275, 5973, 23918, 20584, 25304, 21270, 18844, 31137, 12096, 26093, 24591, 7580,
                     15518, 28469, 29811, 3067, 12658, 1>>)                                      \* log 4
PiD == Fin(1, -22, <<24313, 155, 25485, 1084, 20810, 13892, 27726, 30001, 8379, 3712, 6643, 1093, 590, 8786, 28787, 23558, 26152, 6296,
                     12429, 4276, 23202, 4639, 3>>)                                              \* pi

\* polynomial with integer coefficients cs[1] + cs[2] x + cs[3] x^2 + ...
RECURSIVE PolyFrom(_, _, _)
PolyFrom(x, cs, i) == IF i > Len(cs) THEN Zero ELSE Add(OfInt(cs[i]), Mul(x, PolyFrom(x, cs, i + 1)))
Poly(x, cs) == PolyFrom(x, cs, 1)
K(n, a) == Mul(OfInt(n), a)
Sum3(a, b, c) == Add(a, Add(b, c))
Sum4(a, b, c, d) == Add(Add(a, b), Add(c, d))

OneMinus(x) == Sub(One, x)
Frac(n, d) == [n |-> n, d |-> d]

\* f(x) = Def(f, x, at).n / Def(f, x, at).d
Def(f, x, at) ==
  LET L == at.L
      omx == OneMinus(x)   omx3 == Pow(omx, 3)   omx4 == Pow(omx, 4)
      xm1 == Sub(x, One)   xm13 == Pow(xm1, 3)
  IN CASE f = "F1C" -> Frac(K(2, Add(Poly(x, <<2, 3, -6, 1>>), K(6, Mul(x, L)))), omx4)
       [] f = "F2C" -> Frac(K(3, Sub(Poly(x, <<-3, 4, -1>>), K(2, L))), K(2, omx3))
       [] f = "F1N" -> Frac(K(2, Sub(Poly(x, <<1, -6, 3, 2>>), K(6, Mul(Sq(x), L)))), omx4)
       [] f = "F2N" -> Frac(K(3, Add(Poly(x, <<1, 0, -1>>), K(2, Mul(x, L)))), omx3)
       [] f = "F3C" -> Frac(K(4, Sum4(Mul(omx, Poly(x, <<592, -335, 151>>)),
                                      K(6, Mul(Poly(x, <<50, -93, -108, 21>>), L)),
                                      K(-54, Mul(Mul(x, Poly(x, <<-2, -2, 1>>)), Sq(L))),
                                      K(-108, Mul(Mul(x, Poly(x, <<12, -2, 1>>)), at.D)))),
                            K(141, omx4))
       [] f = "F4C" -> Frac(K(-9, Sum4(K(8, Poly(x, <<2, -3, 1>>)),
                                       Mul(Poly(x, <<5, -40, 11>>), L),
                                       K(-2, Mul(Poly(x, <<-2, -2, 1>>), Sq(L))),
                                       K(-4, Mul(Poly(x, <<9, -2, 1>>), at.D)))),
                            K(122, omx3))
       [] f = "F3N" -> Frac(K(4, Sum3(Mul(omx, Poly(x, <<2, -529, -97>>)),
                                      K(6, Mul(Mul(Sq(x), Poly(x, <<81, 13>>)), L)),
                                      K(108, Mul(Mul(x, Poly(x, <<4, 7>>)), at.D)))),
                            K(105, omx4))
       [] f = "F4N" -> Frac(K(-9, Add(Mul(Poly(x, <<3, 1>>), Add(Mul(x, L), xm1)), Mul(Poly(x, <<2, 6>>), at.D))),
                            K(4, omx3))
       [] f = "G3" -> Frac(Add(Mul(xm1, Poly(x, <<-3, 1>>)), K(2, L)), K(2, xm13))
       [] f = "G4" -> Frac(Sub(Mul(xm1, Poly(x, <<1, 1>>)), K(2, Mul(x, L))), K(2, xm13))
       [] f = "f_PS" -> Frac(at.P, One)
       [] f = "f_S" -> Frac(Sub(Mul(Poly(x, <<-1, 2>>), at.P), K(2, Mul(x, Add(Two, L)))), One)
       [] f = "f_sferm" -> Frac(Mul(x, Sub(Add(Two, L), at.P)), Two)
       [] f = "f_CSl" -> Frac(Mul(x, Sum3(K(2, x), K(2, Mul(Mul(x, xm1), Sub(at.E, Zeta2))), Mul(Poly(x, <<-1, 2>>), L))), Two)
       [] f = "F1" -> Frac(Sub(Mul(Poly(x, <<-1, 2>>), at.P), K(2, Mul(x, Add(Two, L)))), Two)
       [] f = "F1t" -> Frac(at.P, Two)
       [] f = "F2" -> Frac(Sub(Add(Two, L), at.P), Two)
       [] f = "F3" -> Frac(Add(Mul(Poly(x, <<2, 30>>), Add(Two, L)), Mul(Poly(x, <<17, -30>>), at.P)), OfInt(4))

\* documented values at exactly 1 (the closed forms are 0/0 there) and at exactly 0, as fractions
AtOne(f) == CASE f \in {"F1C", "F2C", "F3C", "F4C", "F1N", "F2N", "F3N", "F4N"} -> Frac(One, One)
              [] f = "G3" -> Frac(One, OfInt(3)) [] f = "G4" -> Frac(One, OfInt(6))
AtZero(f) == CASE f = "F1C" -> Frac(OfInt(4), One) [] f = "F1N" -> Frac(Two, One) [] f = "F2N" -> Frac(OfInt(3), One)
               [] f = "F3N" -> Frac(OfInt(8), OfInt(105))
               [] f = "F4N" -> Frac(K(-3, Sub(K(6, Zeta2), OfInt(9))), OfInt(4))         \* -3/4 (pi^2 - 9)
               [] OTHER -> Frac(Zero, One)                                                \* limit 0, or 0 by convention

\* |y - n/d| <= (tn/td) max(|n/d|, s), stated without division (tn, td dyadic)
Within(y, fr, s, tn, td) ==
  LET lhs == Abs(Sub(Mul(y, fr.d), fr.n))
      sc == Max2(Abs(fr.n), Mul(s, Abs(fr.d)))
  IN Le(Mul(td, lhs), Mul(tn, sc))
----------------------------------------------------------------------------
(* Many-variable functions (C02).  Sources: Fa, Fb: Eq.(6.3) and Iabc:     *)
(* Eq.(6.5) of arXiv:1311.1775 (with G3, G4 above); Phi: Eq.(68) of        *)
(* arXiv:1607.06292 = lambda^2 Phi_DT / (2 z) with the Davydychev-Tausk    *)
(* function of the two smaller arguments over the largest (atom PHI);      *)
(* FPZ, FSZ, FCWl: (y f(x) - x f(y))/(x - y) for f = f_PS, f_S, f_CSl      *)
(* (atoms Fx, Fy; LIM = x f'(x) - f(x) at x = y); f_CSd, f_CSu: Eqs.(61),  *)
(* (62) of arXiv:1607.06292 (atoms Lu, Ld = logs, D = Li2(1 - xd/xu),      *)
(* PY = Phi(xd, xu, 1)/lambda^2(xd, xu, 1)); FCWu, FCWd: their difference  *)
(* quotients.  Degenerate configurations (equal arguments, an argument     *)
(* equal to 1, zero arguments) are separate cases with the analytic limit. *)

Lambda2(x, y, z) == Sub(Add(Sq(x), Add(Sq(y), Sq(z))), K(2, Add(Mul(x, y), Add(Mul(y, z), Mul(x, z)))))
Max3(x, y, z) == Max2(x, Max2(y, z))

G3Frac(x, L) == IF Eq(x, One) THEN Frac(One, OfInt(3))
                ELSE Frac(Add(Mul(Sub(x, One), Poly(x, <<-3, 1>>)), K(2, L)), K(2, Pow(Sub(x, One), 3)))
G4Frac(x, L) == IF Eq(x, One) THEN Frac(One, OfInt(6))
                ELSE Frac(Sub(Mul(Sub(x, One), Poly(x, <<1, 1>>)), K(2, Mul(x, L))), K(2, Pow(Sub(x, One), 3)))
\* (g(y) - g(x)) / (x - y) for fractions gx, gy
DiffQuot(gx, gy, x, y) == Frac(Sub(Mul(gy.n, gx.d), Mul(gx.n, gy.d)), Mul(Mul(gx.d, gy.d), Sub(x, y)))

FaDef(x, y, at) ==
  IF x.s = 0 /\ y.s = 0 THEN Frac(Zero, One)       \* documented: 0 when the larger argument vanishes
  ELSE IF Eq(x, y) THEN (IF Eq(x, One) THEN Frac(One, OfInt(4))
                    ELSE Frac(Add(Poly(x, <<2, 3, -6, 1>>), K(6, Mul(x, at.Lx))), K(2, Mul(x, Pow(Sub(x, One), 4)))))
  ELSE DiffQuot(G3Frac(x, at.Lx), G3Frac(y, at.Ly), x, y)
FbDef(x, y, at) ==
  IF x.s = 0 /\ y.s = 0 THEN Frac(Zero, One)
  ELSE IF Eq(x, y) THEN (IF Eq(x, One) THEN Frac(One, OfInt(12))
                    ELSE Frac(Sub(Poly(x, <<-5, 4, 1>>), Mul(Poly(x, <<2, 4>>), at.Lx)), K(2, Pow(Sub(x, One), 4))))
  ELSE DiffQuot(G4Frac(x, at.Lx), G4Frac(y, at.Ly), x, y)

\* I(x, y, z) on squared arguments, Lx = log x etc.
IPair(x, z, Lx, Lz) == Frac(Add(Sub(x, z), Mul(z, Sub(Lz, Lx))), Sq(Sub(x, z)))         \* I(x, x, z)
IZero(y, z, Ly, Lz) == IF Eq(y, z) THEN Frac(One, y) ELSE Frac(Sub(Ly, Lz), Sub(y, z))   \* I(0, y, z)
IabcDef(a, b, c, at) ==
  LET x == Sq(a)  y == Sq(b)  z == Sq(c)
      nz == (IF x.s = 0 THEN 1 ELSE 0) + (IF y.s = 0 THEN 1 ELSE 0) + (IF z.s = 0 THEN 1 ELSE 0)
      Lx == IF x.s = 0 THEN Zero ELSE K(2, at.La)
      Ly == IF y.s = 0 THEN Zero ELSE K(2, at.Lb)
      Lz == IF z.s = 0 THEN Zero ELSE K(2, at.Lc)
  IN IF nz >= 2 THEN Frac(Zero, One)
     ELSE IF x.s = 0 THEN IZero(y, z, Ly, Lz) ELSE IF y.s = 0 THEN IZero(x, z, Lx, Lz) ELSE IF z.s = 0 THEN IZero(x, y, Lx, Ly)
     ELSE IF Eq(x, y) /\ Eq(y, z) THEN Frac(One, K(2, x))
     ELSE IF Eq(x, y) THEN IPair(x, z, Lx, Lz) ELSE IF Eq(y, z) THEN IPair(y, x, Ly, Lx) ELSE IF Eq(x, z) THEN IPair(x, y, Lx, Ly)
     ELSE Frac(Sum3(Mul(Mul(x, y), Sub(Lx, Ly)), Mul(Mul(y, z), Sub(Ly, Lz)), Mul(Mul(z, x), Sub(Lz, Lx))),
               Mul(Mul(Sub(x, y), Sub(y, z)), Sub(x, z)))

PhiDef(x, y, z, at) == Frac(Mul(at.PHI, Lambda2(x, y, z)), K(2, Max3(x, y, z)))
PhiOverLambdaDef(x, y, z, at) == Frac(at.PHI, K(2, Max3(x, y, z)))

QuotDef(x, y, at) == IF x.s = 0 \/ y.s = 0 THEN Frac(Zero, One)
                     ELSE IF Eq(x, y) THEN Frac(at.LIM, One)
                     ELSE Frac(Sub(Mul(y, at.Fx), Mul(x, at.Fy)), Sub(x, y))

\* 4 * (f_CSd / xd)  and  12 * (f_CSu / xu); sfx selects the atom set ("1": (xu, xd), "2": (yu, yd))
Core4(xu, xd, qu, qd, Lu, Ld, D, PY, two) ==
  LET dlt == Sub(xu, xd)
      q2 == IF two THEN Two ELSE Zero
      c == Add(Sq(dlt), Sub(Mul(Add(qd, q2), xd), Mul(Add(qu, q2), xu)))
      cbar == Sub(Mul(Sub(xu, Add(qu, q2)), xu), Mul(Add(xd, Add(qd, q2)), xd))
      s4 == Add(Add(qu, qd), IF two THEN OfInt(4) ELSE Zero)
  IN SumSeq(<< K(-4, dlt), K(4, Mul(Sub(cbar, Mul(c, dlt)), PY)), K(4, Mul(c, D)), K(-2, Mul(c, Mul(Lu, Sub(Ld, Lu)))),
               Mul(Add(s4, K(4, xd)), Ld), Mul(Sub(s4, K(4, xu)), Lu) >>)
FCSdDef(xu, xd, qu, qd, Lu, Ld, D, PY) ==
  IF xd.s = 0 THEN Frac(Zero, One) ELSE Frac(Mul(xd, Core4(xu, xd, qu, qd, Lu, Ld, D, PY, FALSE)), OfInt(4))
FCSuDef(xu, xd, qu, qd, Lu, Ld, D, PY) ==
  Frac(Mul(xu, Sum3(K(3, Core4(xu, xd, qu, qd, Lu, Ld, D, PY, TRUE)), K(-16, Mul(Sub(Sub(xu, xd), One), PY)),
                     K(-4, Mul(Add(Ld, Lu), Sub(Ld, Lu))))), OfInt(12))
\* (w2 f1 - w1 f2) / (w1 - w2) for fractions f1, f2
FCWDef(f1, f2, w1, w2) == Frac(Sub(Mul(Mul(w2, f1.n), f2.d), Mul(Mul(w1, f2.n), f1.d)), Mul(Mul(f1.d, f2.d), Sub(w1, w2)))
=============================================================================
